package main

// corr: drivers for Correction.tla (C16) - correct / replicate yield a linked
// new document and leave the source intact.  For every example invoice, every
// option combination enumerated by TLC and every source state, the operation
// is executed through the library and (as serialised envelope + options JSON)
// through the bulk processor and the gobl command; the source is serialised
// before and after, the result is projected.

import (
	"bufio"
	"bytes"
	"crypto/sha256"
	"encoding/hex"
	"encoding/json"
	"flag"
	"fmt"
	"os"
	"os/exec"
	"path/filepath"
	"reflect"
	"sort"
	"strings"

	"github.com/invopop/gobl"
	"github.com/invopop/gobl/bill"
	"github.com/invopop/gobl/cal"
	"github.com/invopop/gobl/cbc"
	"github.com/invopop/gobl/head"
	"github.com/invopop/gobl/schema"
	"github.com/invopop/gobl/tax"
	"goblverif/internal/tr"

	_ "github.com/invopop/gobl/addons"
)

type corrCombo struct {
	Type    string `json:"type"` // "" = none
	Reason  bool   `json:"reason"`
	Ext     bool   `json:"ext"`
	Stamps  bool   `json:"stamps"`
	Series  bool   `json:"series"`
	Date    bool   `json:"date"`
	CopyTax bool   `json:"copytax"`
	State   string `json:"state"`   // signed-stamped | signed | draft | nocode
	Partial string `json:"partial"` // "" | first | rest: which of the required stamps are offered at all
}

type corrDef struct {
	Types          []string `json:"types"`
	Extensions     []string `json:"extensions"`
	ReasonRequired bool     `json:"reason_required"`
	Stamps         []string `json:"stamps"`
	CopyTax        bool     `json:"copy_tax"`
}

type corrResult struct {
	NSigs        int      `json:"nsigs"`
	NStamps      int      `json:"nstamps"`
	D            bool     `json:"D"`
	NewUUID      bool     `json:"newuuid"` // envelope and document identifiers differ from the source's and are set
	HasCode      bool     `json:"hascode"`
	Type         string   `json:"type"`
	Series       string   `json:"series"`
	IssueDate    string   `json:"issue_date"`
	NPreceding   int      `json:"npreceding"`
	PreUUID      string   `json:"pre_uuid"`
	PreType      string   `json:"pre_type"`
	PreSeries    string   `json:"pre_series"`
	PreCode      string   `json:"pre_code"`
	PreDate      string   `json:"pre_date"`
	PreReason    string   `json:"pre_reason"`
	PreExt       []string `json:"pre_ext"`
	TaxExt       []string `json:"tax_ext"` // extension keys on the correction's own tax object (an addon may keep the requested ones there)
	PreStamps    []string `json:"pre_stamps"`
	PreStampVals []string `json:"pre_stamp_vals"` // provider=value of the stamps in the preceding row
	PreHasTax    bool     `json:"pre_hastax"`
	PreTaxSame   bool     `json:"pre_taxsame"`  // preceding.tax equals the source's tax summary
	Valid        bool     `json:"valid"`        // the result validates
	RepPreSame   bool     `json:"rep_pre_same"` // a replica of the correction keeps the correction's preceding rows as they are
	Business     string   `json:"business"`     // fingerprint of the business content
	Kept         string   `json:"kept"`         // everything a replica keeps as it is (see kept)
}

type corrEvent struct {
	K                 string     `json:"k"` // correct | replicate
	Src               string     `json:"src"`
	Path              string     `json:"path"` // lib | bulk | cli
	Combo             corrCombo  `json:"combo"`
	Defs              []corrDef  `json:"defs"` // regime definition first, then each addon's
	SrcUUID           string     `json:"src_uuid"`
	SrcType           string     `json:"src_type"`
	SrcSeries         string     `json:"src_series"`
	SrcCode           string     `json:"src_code"`
	SrcDate           string     `json:"src_date"`
	SrcStamps         []string   `json:"src_stamps"` // providers of the stamps in the source header
	SrcStampVals      []string   `json:"src_stamp_vals"`
	ReqStampVals      []string   `json:"req_stamp_vals"`
	SrcBusiness       string     `json:"src_business"`
	SrcKept           string     `json:"src_kept"`
	SrcHasTax         bool       `json:"src_hastax"`
	Today             string     `json:"today"`  // the day when the event was set up ...
	Today2            string     `json:"today2"` // ... and the day when it was written (a run may pass midnight)
	ReqSeries         string     `json:"req_series"`
	ReqDate           string     `json:"req_date"`
	ReqExt            []string   `json:"req_ext"` // keys supplied
	ReqStamps         []string   `json:"req_stamps"`
	Ok                bool       `json:"ok"`
	Panic             bool       `json:"panic"`
	Err               string     `json:"err"`
	SourceIntact      bool       `json:"source_intact"`
	ValidationRefusal bool       `json:"validation_refusal"` // refused because the result does not validate
	R                 corrResult `json:"r"`
}

func defOf(cd *tax.CorrectionDefinition) corrDef {
	d := corrDef{Types: []string{}, Extensions: []string{}, Stamps: []string{}}
	if cd == nil {
		return d
	}
	for _, t := range cd.Types {
		d.Types = append(d.Types, string(t))
	}
	for _, t := range cd.Extensions {
		d.Extensions = append(d.Extensions, string(t))
	}
	for _, t := range cd.Stamps {
		d.Stamps = append(d.Stamps, string(t))
	}
	d.ReasonRequired, d.CopyTax = cd.ReasonRequired, cd.CopyTax
	return d
}

func business(inv *bill.Invoice) string {
	var sb strings.Builder
	fmt.Fprintf(&sb, "%s|", inv.Currency)
	if inv.Supplier != nil {
		sb.WriteString(inv.Supplier.Name)
	}
	sb.WriteString("|")
	if inv.Customer != nil {
		sb.WriteString(inv.Customer.Name)
	}
	for _, l := range inv.Lines {
		fmt.Fprintf(&sb, "|%s", l.Quantity.String())
		if l.Item != nil {
			sb.WriteString("x" + l.Item.Name)
			if l.Item.Price != nil {
				sb.WriteString("@" + l.Item.Price.MinimalString())
			}
		}
		fmt.Fprintf(&sb, ";d%d;c%d;t%d", len(l.Discounts), len(l.Charges), len(l.Taxes))
	}
	fmt.Fprintf(&sb, "|D%d|C%d", len(inv.Discounts), len(inv.Charges))
	return sb.String()
}

// kept: the parts of an invoice that replicating does not touch -- everything except the identity and the dates it
// resets, and except the figures the calculation derives anew (lines, totals, amounts taken as a percentage)
func kept(inv *bill.Invoice) string {
	raw, err := json.Marshal(inv)
	if err != nil {
		return "unserialisable"
	}
	var m map[string]any
	if json.Unmarshal(raw, &m) != nil {
		return "unreadable"
	}
	for _, k := range []string{"uuid", "code", "issue_date", "value_date", "op_date", "totals", "lines", "discounts", "charges"} {
		delete(m, k)
	}
	var strip func(x any)
	strip = func(x any) {
		switch v := x.(type) {
		case map[string]any:
			if _, ok := v["percent"]; ok {
				delete(v, "amount")
			}
			for _, e := range v {
				strip(e)
			}
		case []any:
			for _, e := range v {
				strip(e)
			}
		}
	}
	strip(m)
	b, _ := json.Marshal(m)
	sum := sha256.Sum256(b)
	return hex.EncodeToString(sum[:8])
}

func emitCorr(w *tr.Writer, e corrEvent) {
	e.Today2 = cal.Today().String()
	w.Emit(e)
}

func projectCorr(res *gobl.Envelope, src *gobl.Envelope, srcInv *bill.Invoice) corrResult {
	r := corrResult{PreExt: []string{}, TaxExt: []string{}, PreStamps: []string{}, PreStampVals: []string{}}
	r.NSigs = len(res.Signatures)
	if res.Head != nil {
		r.NStamps = len(res.Head.Stamps)
		if dg, err := res.Digest(); err == nil && res.Head.Digest != nil {
			r.D = res.Head.Digest.Equals(dg) == nil
		}
	}
	inv, ok := res.Extract().(*bill.Invoice)
	if !ok {
		return r
	}
	if inv.Tax != nil {
		for k := range inv.Tax.Ext {
			r.TaxExt = append(r.TaxExt, string(k))
		}
		sort.Strings(r.TaxExt)
	}
	r.RepPreSame = true
	func() {
		defer func() {
			if p := recover(); p != nil {
				r.RepPreSame = false
			}
		}()
		if rep, err := res.Replicate(); err == nil {
			if ri, ok := rep.Extract().(*bill.Invoice); ok {
				a, _ := json.Marshal(inv.Preceding)
				b, _ := json.Marshal(ri.Preceding)
				r.RepPreSame = bytes.Equal(a, b)
			}
		}
	}()
	r.NewUUID = res.Head != nil && !res.Head.UUID.IsZero() && res.Head.UUID != src.Head.UUID && !inv.UUID.IsZero() && inv.UUID != srcInv.UUID
	r.HasCode = inv.Code != ""
	r.Type, r.Series, r.IssueDate = string(inv.Type), string(inv.Series), inv.IssueDate.String()
	r.NPreceding = len(inv.Preceding)
	if len(inv.Preceding) > 0 && inv.Preceding[0] != nil {
		p := inv.Preceding[0]
		r.PreUUID, r.PreType, r.PreSeries, r.PreCode = p.UUID.String(), string(p.Type), string(p.Series), string(p.Code)
		if p.IssueDate != nil {
			r.PreDate = p.IssueDate.String()
		}
		r.PreReason = p.Reason
		for k := range p.Ext {
			r.PreExt = append(r.PreExt, string(k))
		}
		sort.Strings(r.PreExt)
		for _, s := range p.Stamps {
			if s != nil {
				r.PreStamps = append(r.PreStamps, string(s.Provider))
				r.PreStampVals = append(r.PreStampVals, string(s.Provider)+"="+s.Value)
			}
		}
		sort.Strings(r.PreStamps)
		sort.Strings(r.PreStampVals)
		r.PreHasTax = p.Tax != nil
		if p.Tax != nil && srcInv.Totals != nil && srcInv.Totals.Taxes != nil {
			a, _ := json.Marshal(summaryOf(p.Tax, false))
			b, _ := json.Marshal(summaryOf(srcInv.Totals.Taxes, false))
			r.PreTaxSame = bytes.Equal(a, b)
		}
	}
	r.Valid = res.Validate() == nil
	r.Business = business(inv)
	r.Kept = kept(inv)
	return r
}

// firstExtValue picks a defined value for an extension key offered by the correction definition
func firstExtValue(k string) string {
	def := tax.ExtensionForKey(cbc.Key(k))
	if def != nil && len(def.Values) > 0 {
		return string(def.Values[0].Code)
	}
	return "01"
}

type corrSource struct {
	name string
	env  *gobl.Envelope
}

func corrSources(repo string, max int) []corrSource {
	var out []corrSource
	var files []string
	filepath.Walk(filepath.Join(repo, "examples"), func(p string, info os.FileInfo, err error) error {
		if err == nil && !info.IsDir() && strings.Contains(p, "/out/") && strings.HasSuffix(p, ".json") {
			files = append(files, p)
		}
		return nil
	})
	sort.Strings(files)
	for _, f := range files {
		raw, err := os.ReadFile(f)
		if err != nil {
			continue
		}
		env := new(gobl.Envelope)
		if json.Unmarshal(raw, env) != nil || env.Document == nil || env.Head == nil {
			continue
		}
		if _, ok := env.Extract().(*bill.Invoice); !ok {
			continue
		}
		if env.Validate() != nil {
			continue
		}
		if inv := env.Extract().(*bill.Invoice); len(inv.Preceding) > 1 {
			continue
		}
		name, _ := filepath.Rel(repo, f)
		out = append(out, corrSource{name, env})
	}
	// chained corrections: the result of correcting a source, given a code again, is a source with a preceding row
	var chained []corrSource
	for _, s := range out {
		inv := s.env.Extract().(*bill.Invoice)
		var opts []schema.Option
		opts = append(opts, bill.Credit, bill.WithReason("first correction"))
		if r := inv.RegimeDef(); r != nil {
			if cd := r.Corrections.Def(bill.ShortSchemaInvoice); cd != nil && len(cd.Types) > 0 && !cbc.Key("credit-note").In(cd.Types...) {
				t := cd.Types[0]
				opts[0] = func(o interface{}) { o.(*bill.CorrectionOptions).Type = t }
			}
		}
		var ss []*head.Stamp
		addDef := func(cd *tax.CorrectionDefinition) {
			if cd == nil {
				return
			}
			for _, k := range cd.Extensions {
				opts = append(opts, bill.WithExtension(k, cbc.Code(firstExtValue(string(k)))))
			}
			for _, p := range cd.Stamps {
				ss = append(ss, &head.Stamp{Provider: p, Value: "x"})
			}
		}
		if r := inv.RegimeDef(); r != nil {
			addDef(r.Corrections.Def(bill.ShortSchemaInvoice))
		}
		for _, a := range inv.AddonDefs() {
			addDef(a.Corrections.Def(bill.ShortSchemaInvoice))
		}
		if len(ss) > 0 {
			opts = append(opts, bill.WithStamps(ss))
		}
		func() {
			defer func() { recover() }()
			res, err := s.env.Correct(opts...)
			if err != nil {
				return
			}
			ri := res.Extract().(*bill.Invoice)
			ri.Code = "C-0001"
			if res.Calculate() != nil || len(ri.Preceding) != 1 {
				return
			}
			chained = append(chained, corrSource{s.name + "#corrected", res})
		}()
		if len(chained) >= 6 {
			break
		}
	}
	// regime and addon together: a regime that asks for a stamp with an addon that asks for another one
	var two []corrSource
	seenReg := map[string]bool{}
	for _, s := range out {
		inv := s.env.Extract().(*bill.Invoice)
		r := inv.RegimeDef()
		if r == nil || seenReg[string(r.Country)] || len(inv.Preceding) > 0 {
			continue
		}
		if cd := r.Corrections.Def(bill.ShortSchemaInvoice); cd == nil || len(cd.Stamps) == 0 {
			continue
		}
		data, _ := json.Marshal(s.env)
		e2 := new(gobl.Envelope)
		if json.Unmarshal(data, e2) != nil {
			continue
		}
		e2.Signatures = nil
		e2.Head.Stamps = nil
		i2 := e2.Extract().(*bill.Invoice)
		i2.SetAddons(append(append([]cbc.Key{}, i2.GetAddons()...), "co-dian-v2")...)
		if e2.Calculate() != nil || e2.Validate() != nil {
			continue
		}
		seenReg[string(r.Country)] = true
		two = append(two, corrSource{s.name + "#with-co-dian-v2", e2})
	}
	chained = append(chained, two...)
	if max > 0 && len(out) > max {
		// spread over regimes: take every n-th
		step := len(out) / max
		var sel []corrSource
		for i := 0; i < len(out) && len(sel) < max; i += step {
			sel = append(sel, out[i])
		}
		out = sel
	}
	return append(out, chained...)
}

func corrRun(repo, combosFile string, maxSrc int, bulkBin, goblBin string, cliEvery int, out, work string) error {
	w, err := tr.NewWriter(out)
	if err != nil {
		return err
	}
	var combos []corrCombo
	err = tr.ReadLines(combosFile, func(line []byte) error {
		var c corrCombo
		if err := json.Unmarshal(line, &c); err != nil {
			return err
		}
		combos = append(combos, c)
		return nil
	})
	if err != nil {
		return err
	}
	rig := newEnvRig()
	type pending struct {
		ev   corrEvent
		data []byte
		opts []byte
		src  *gobl.Envelope
		inv  *bill.Invoice
	}
	var bulkPending []pending
	for _, src := range corrSources(repo, maxSrc) {
		base, _ := json.Marshal(src.env)
		for _, c := range combos {
			// a private copy of the source in the requested state
			env := new(gobl.Envelope)
			if json.Unmarshal(base, env) != nil {
				continue
			}
			inv := env.Extract().(*bill.Invoice)
			switch c.State {
			case "nocode":
				inv.Code = ""
				env.Calculate()
			case "signed", "signed-stamped":
				if env.Sign(rig.keys["k1"]) != nil {
					continue
				}
			}
			regime := inv.RegimeDef()
			defs := []corrDef{}
			var merged corrDef
			if regime != nil {
				defs = append(defs, defOf(regime.Corrections.Def(bill.ShortSchemaInvoice)))
			} else {
				defs = append(defs, defOf(nil))
			}
			for _, a := range inv.AddonDefs() {
				defs = append(defs, defOf(a.Corrections.Def(bill.ShortSchemaInvoice)))
			}
			for _, d := range defs {
				merged.Stamps = append(merged.Stamps, d.Stamps...)
				merged.Extensions = append(merged.Extensions, d.Extensions...)
			}
			offered := merged.Stamps
			if c.Partial != "" {
				if len(merged.Stamps) < 2 {
					continue
				}
				if c.Partial == "first" {
					offered = merged.Stamps[:1]
				} else {
					offered = merged.Stamps[1:]
				}
			}
			if c.State == "signed-stamped" {
				// the stamps a correction may later require are present in the source header
				for _, p := range offered {
					// values a cleaning step would alter (surrounding and doubled white space): the source must keep them
					env.Head.AddStamp(&head.Stamp{Provider: cbc.Key(p), Value: "  stamp  " + p + " "})
				}
				env.Head.AddStamp(&head.Stamp{Provider: "verif-other", Value: "x"})
			}
			before, _ := json.Marshal(env)
			ev := corrEvent{K: "correct", Src: src.name, Path: "lib", Combo: c, Defs: defs, SrcUUID: inv.UUID.String(), SrcType: string(inv.Type),
				SrcSeries: string(inv.Series), SrcCode: string(inv.Code), SrcDate: inv.IssueDate.String(), SrcStamps: []string{}, SrcBusiness: business(inv), SrcKept: kept(inv),
				SrcHasTax: inv.Totals != nil && inv.Totals.Taxes != nil, Today: cal.Today().String(), ReqExt: []string{}, ReqStamps: []string{}, SrcStampVals: []string{}, ReqStampVals: []string{}, R: corrResult{PreExt: []string{}, TaxExt: []string{}, PreStamps: []string{}, PreStampVals: []string{}}}
			for _, s := range env.Head.Stamps {
				ev.SrcStamps = append(ev.SrcStamps, string(s.Provider))
				ev.SrcStampVals = append(ev.SrcStampVals, string(s.Provider)+"="+s.Value)
			}
			// options, both as functional options and as the JSON the other entry points take
			var opts []schema.Option
			oj := map[string]any{}
			if c.Type != "" {
				oj["type"] = c.Type
				t := cbc.Key(c.Type)
				opts = append(opts, func(o interface{}) { o.(*bill.CorrectionOptions).Type = t })
			}
			if c.Reason {
				oj["reason"] = "verif reason"
				opts = append(opts, bill.WithReason("verif reason"))
			}
			if c.Ext {
				ext := map[string]string{}
				for _, k := range merged.Extensions {
					v := firstExtValue(k)
					ext[k] = v
					opts = append(opts, bill.WithExtension(cbc.Key(k), cbc.Code(v)))
					ev.ReqExt = append(ev.ReqExt, k)
				}
				if len(ext) > 0 {
					oj["ext"] = ext
				}
			}
			if c.Stamps {
				var ss []*head.Stamp
				for _, p := range offered {
					val := " opt  " + p + " "
					if c.Series && !c.Date {
						val = "" // a stamp without a value is not the stamp the regime asks for
					}
					ss = append(ss, &head.Stamp{Provider: cbc.Key(p), Value: val})
					ev.ReqStamps = append(ev.ReqStamps, p)
					ev.ReqStampVals = append(ev.ReqStampVals, p+"="+val)
				}
				if len(ss) > 0 {
					oj["stamps"] = ss
					opts = append(opts, bill.WithStamps(ss))
				}
			}
			if c.Series {
				oj["series"] = "CORR"
				ev.ReqSeries = "CORR"
				opts = append(opts, bill.WithSeries("CORR"))
			}
			if c.Date {
				oj["issue_date"] = "2031-03-04"
				ev.ReqDate = "2031-03-04"
				opts = append(opts, bill.WithIssueDate(cal.MakeDate(2031, 3, 4)))
			}
			if c.CopyTax {
				oj["copy_tax"] = true
				opts = append(opts, bill.WithCopyTax())
			}
			sort.Strings(ev.ReqExt)
			sort.Strings(ev.ReqStamps)
			optsJSON, _ := json.Marshal(oj)
			// ---- library
			lib := ev
			func() {
				defer func() {
					if p := recover(); p != nil {
						lib.Panic, lib.Err = true, fmt.Sprint(p)
					}
				}()
				res, err := env.Correct(opts...)
				if err != nil {
					lib.Err = err.Error()
					return
				}
				lib.Ok = true
				lib.R = projectCorr(res, env, inv)
			}()
			after, _ := json.Marshal(env)
			lib.SourceIntact = bytes.Equal(before, after)
			emitCorr(w, lib)
			// ---- library, the header's own stamps handed over explicitly together with an options object
			if env.Head != nil && len(env.Head.Stamps) > 0 {
				ls := ev
				ls.Path = "lib-stamps-data"
				func() {
					defer func() {
						if p := recover(); p != nil {
							ls.Panic, ls.Err = true, fmt.Sprint(p)
						}
					}()
					src := new(gobl.Envelope)
					if err := json.Unmarshal(before, src); err != nil {
						ls.Err = "reparse: " + err.Error()
						return
					}
					b0, _ := json.Marshal(src)
					res, err := src.Correct(bill.WithStamps(src.Head.Stamps), bill.WithData(optsJSON))
					if err != nil {
						ls.Err = err.Error()
					} else {
						ls.Ok = true
						ls.R = projectCorr(res, src, inv)
					}
					b1, _ := json.Marshal(src)
					ls.SourceIntact = bytes.Equal(b0, b1)
				}()
				emitCorr(w, ls)
			}
			// ---- library, options given as one complete options value
			lo := ev
			lo.Path = "lib-options"
			func() {
				defer func() {
					if p := recover(); p != nil {
						lo.Panic, lo.Err = true, fmt.Sprint(p)
					}
				}()
				src := new(gobl.Envelope)
				if err := json.Unmarshal(before, src); err != nil {
					lo.Err = "reparse: " + err.Error()
					return
				}
				b0, _ := json.Marshal(src)
				co := new(bill.CorrectionOptions)
				if err := json.Unmarshal(optsJSON, co); err != nil {
					lo.Err = "options: " + err.Error()
					return
				}
				res, err := src.Correct(bill.WithOptions(co))
				if err != nil {
					lo.Err = err.Error()
				} else {
					lo.Ok = true
					lo.R = projectCorr(res, src, inv)
				}
				b1, _ := json.Marshal(src)
				lo.SourceIntact = bytes.Equal(b0, b1)
			}()
			emitCorr(w, lo)
			// ---- library, options given as one JSON object (what the command line and bulk entry points pass on);
			// afterwards the correction is edited in place: the source must not notice either
			ld := ev
			ld.Path = "lib-data"
			func() {
				defer func() {
					if p := recover(); p != nil {
						ld.Panic, ld.Err = true, fmt.Sprint(p)
					}
				}()
				src := new(gobl.Envelope)
				if err := json.Unmarshal(before, src); err != nil {
					ld.Err = "reparse: " + err.Error()
					return
				}
				b0, _ := json.Marshal(src)
				res, err := src.Correct(bill.WithData(optsJSON))
				if err != nil {
					ld.Err = err.Error()
				} else {
					ld.Ok = true
					ld.R = projectCorr(res, src, inv)
					taint(reflect.ValueOf(res.Extract()), map[uintptr]bool{}, 0)
					if res.Head != nil {
						taint(reflect.ValueOf(res.Head), map[uintptr]bool{}, 0)
					}
				}
				b1, _ := json.Marshal(src)
				ld.SourceIntact = bytes.Equal(b0, b1)
			}()
			emitCorr(w, ld)
			// ---- replicate (once per source state)
			if c.Type == "credit-note" && !c.Reason && !c.Ext && !c.Stamps && !c.Series && !c.Date && !c.CopyTax {
				rep := ev
				rep.K = "replicate"
				func() {
					defer func() {
						if p := recover(); p != nil {
							rep.Panic, rep.Err = true, fmt.Sprint(p)
						}
					}()
					res, err := env.Replicate()
					if err != nil {
						rep.Err = err.Error()
						return
					}
					rep.Ok = true
					rep.R = projectCorr(res, env, inv)
				}()
				after2, _ := json.Marshal(env)
				rep.SourceIntact = bytes.Equal(before, after2)
				emitCorr(w, rep)
			}
			// ---- other entry points work on the serialised source
			b := ev
			b.Path = "bulk"
			bulkPending = append(bulkPending, pending{ev: b, data: before, opts: optsJSON, src: env, inv: inv})
		}
	}
	// ---- bulk: one process, all requests
	if bulkBin != "" && len(bulkPending) > 0 {
		type bulkReq struct {
			Action  string `json:"action"`
			ReqID   string `json:"req_id"`
			Payload any    `json:"payload"`
		}
		var reqs bytes.Buffer
		enc := json.NewEncoder(&reqs)
		for i, p := range bulkPending {
			enc.Encode(bulkReq{Action: "correct", ReqID: fmt.Sprint(i), Payload: map[string]any{"data": p.data, "options": p.opts}})
		}
		cmd := exec.Command(bulkBin)
		cmd.Stdin = &reqs
		outB, err := cmd.Output()
		if err != nil {
			return fmt.Errorf("bulk process: %w", err)
		}
		got := map[string]json.RawMessage{}
		errs := map[string]string{}
		sc := bufio.NewScanner(bytes.NewReader(outB))
		sc.Buffer(make([]byte, 1<<20), 1<<27)
		for sc.Scan() {
			var res struct {
				ReqID   string          `json:"req_id"`
				Payload json.RawMessage `json:"payload"`
				Error   json.RawMessage `json:"error"`
				IsFinal bool            `json:"is_final"`
			}
			if json.Unmarshal(sc.Bytes(), &res) != nil || res.IsFinal {
				continue
			}
			if len(res.Error) > 0 && string(res.Error) != "null" {
				errs[res.ReqID] = string(res.Error)
			} else {
				got[res.ReqID] = res.Payload
			}
		}
		for i, p := range bulkPending {
			ev := p.ev
			id := fmt.Sprint(i)
			if raw, ok := got[id]; ok {
				res := new(gobl.Envelope)
				if err := json.Unmarshal(raw, res); err != nil {
					ev.Err = "unreadable result: " + err.Error()
				} else {
					ev.Ok = true
					ev.R = projectCorr(res, p.src, p.inv)
				}
			} else if e, ok := errs[id]; ok {
				ev.Err = e
				ev.ValidationRefusal = strings.Contains(e, `"key":"validation"`)
			} else {
				ev.Err = "no response"
				ev.Panic = true
			}
			ev.SourceIntact = true // the source only exists as bytes on this path
			emitCorr(w, ev)
			// ---- gobl correct (sampled)
			if goblBin != "" && cliEvery > 0 && i%cliEvery == 0 {
				cev := p.ev
				cev.Path = "cli"
				ef := filepath.Join(work, "corr-env.json")
				os.WriteFile(ef, p.data, 0o600)
				c := exec.Command(goblBin, "correct", "-d", string(p.opts), ef)
				var so, se bytes.Buffer
				c.Stdout, c.Stderr = &so, &se
				err := c.Run()
				if err == nil {
					res := new(gobl.Envelope)
					if uerr := json.Unmarshal(so.Bytes(), res); uerr != nil {
						cev.Err = "unreadable result: " + uerr.Error()
					} else {
						cev.Ok = true
						cev.R = projectCorr(res, p.src, p.inv)
					}
				} else if _, isExit := err.(*exec.ExitError); isExit {
					cev.Err = strings.TrimSpace(se.String() + so.String())
					cev.ValidationRefusal = strings.Contains(cev.Err, `"key": "validation"`) || strings.Contains(cev.Err, `"key":"validation"`)
					if len(cev.Err) > 200 {
						cev.Err = cev.Err[:200]
					}
				} else {
					return fmt.Errorf("gobl correct: %w", err)
				}
				cev.SourceIntact = true
				emitCorr(w, cev)
			}
		}
	}
	fmt.Printf("events=%d\n", w.N)
	return w.Close()
}

func init() {
	register("corr-run", func(args []string) error {
		fs := flag.NewFlagSet("corr-run", flag.ExitOnError)
		repo := fs.String("repo", "/repo", "repository")
		combos := fs.String("combos", "", "option combinations from TLC")
		maxSrc := fs.Int("sources", 10, "max source invoices (0 = all)")
		bulk := fs.String("bulk", "", "goblverif binary")
		goblBin := fs.String("gobl", "", "gobl binary")
		cliEvery := fs.Int("cli-every", 50, "run gobl correct for every n-th case")
		out := fs.String("out", "", "events ndjson")
		work := fs.String("work", ".", "scratch dir")
		fs.Parse(args)
		return corrRun(*repo, *combos, *maxSrc, *bulk, *goblBin, *cliEvery, *out, *work)
	})
}
