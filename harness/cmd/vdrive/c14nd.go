package main

// c14nd: drivers for C14n.tla (C07).  Abstract JSON values (exported by TLC or
// generated here) are rendered as JSON text in several styles and given to
// c14n.CanonicalJSON; the output is logged as code points.

import (
	"bytes"
	"encoding/json"
	"flag"
	"fmt"
	"math/big"
	"math/rand"
	"strconv"
	"strings"
	"unicode/utf8"

	"github.com/invopop/gobl/c14n"
	"goblverif/internal/tr"
)

// jv is the tagged abstract value.
type jv struct {
	T   string  `json:"t"`
	M   []jMem  `json:"m,omitempty"`
	A   []jv    `json:"a,omitempty"`
	S   []int   `json:"s,omitempty"`
	N   *tr.Big `json:"n,omitempty"`
	Neg int     `json:"neg,omitempty"`
	D   []int   `json:"d,omitempty"`
	E   int     `json:"e,omitempty"`
	B   bool    `json:"b,omitempty"`
}
type jMem struct {
	K []int `json:"k"`
	V jv    `json:"v"`
}

// explicit JSON form so that empty sequences and zero fields are always present for TLC
func (v jv) MarshalJSON() ([]byte, error) {
	switch v.T {
	case "obj":
		m := v.M
		if m == nil {
			m = []jMem{}
		}
		return json.Marshal(map[string]any{"t": "obj", "m": m})
	case "arr":
		a := v.A
		if a == nil {
			a = []jv{}
		}
		return json.Marshal(map[string]any{"t": "arr", "a": a})
	case "str":
		s := v.S
		if s == nil {
			s = []int{}
		}
		return json.Marshal(map[string]any{"t": "str", "s": s})
	case "int":
		return json.Marshal(map[string]any{"t": "int", "n": v.N})
	case "dec":
		return json.Marshal(map[string]any{"t": "dec", "neg": v.Neg, "d": v.D, "e": v.E})
	case "bool":
		return json.Marshal(map[string]any{"t": "bool", "b": v.B})
	}
	return []byte(`{"t":"null"}`), nil
}

type c14nEvent struct {
	K     string `json:"k"`
	Style string `json:"style"`
	V     jv     `json:"v"`
	Cp    int    `json:"cp"`
	Cls   string `json:"cls"`
	In    []int  `json:"in"`
	Ok    bool   `json:"ok"`
	UTF8  bool   `json:"utf8"`
	Panic bool   `json:"panic"`
	Out   []int  `json:"out"`
	Err   string `json:"err"`
}

func runC14n(text []byte) (out []byte, err error, panicked bool) {
	defer func() {
		if r := recover(); r != nil {
			panicked = true
			err = fmt.Errorf("panic: %v", r)
		}
	}()
	out, err = c14n.CanonicalJSON(bytes.NewReader(text))
	return
}

func cpsOfBytes(b []byte) ([]int, bool) {
	if !utf8.Valid(b) {
		o := make([]int, len(b))
		for i, x := range b {
			o[i] = int(x)
		}
		return o, false
	}
	return cps(string(b)), true
}

// ---- rendering -----------------------------------------------------------------

type style struct {
	name    string
	reverse bool // member order reversed
	ws      bool // insignificant white space
	esc     int  // 0 minimal, 1 everything as \uXXXX, 2 mixed (\/ and lower-case hex for controls)
	nulls   bool // extra null members
	num     int  // 0 scientific as is, 1 plain decimal expansion when short, 2 e+0x spelling
}

var styles = []style{
	{name: "compact"},
	{name: "reversed-ws", reverse: true, ws: true},
	{name: "escaped", esc: 1, num: 2},
	{name: "nulls-mixed", nulls: true, esc: 2, num: 1, ws: true},
	{name: "reversed-nulls-plain", reverse: true, nulls: true, num: 1},
}

func renderString(s []int, st style, sb *strings.Builder) {
	sb.WriteByte('"')
	for _, c := range s {
		r := rune(c)
		switch {
		case st.esc == 1:
			if r > 0xFFFF {
				r -= 0x10000
				fmt.Fprintf(sb, `\u%04X\u%04x`, 0xD800+(r>>10), 0xDC00+(r&0x3FF))
			} else {
				fmt.Fprintf(sb, `\u%04x`, r)
			}
		case r == '"' || r == '\\':
			sb.WriteByte('\\')
			sb.WriteRune(r)
		case r < 0x20:
			if st.esc == 2 {
				fmt.Fprintf(sb, `\u%04x`, r)
			} else {
				switch r {
				case '\n':
					sb.WriteString(`\n`)
				case '\t':
					sb.WriteString(`\t`)
				case '\r':
					sb.WriteString(`\r`)
				default:
					fmt.Fprintf(sb, `\u%04X`, r)
				}
			}
		case r == '/' && st.esc == 2:
			sb.WriteString(`\/`)
		default:
			sb.WriteRune(r)
		}
	}
	sb.WriteByte('"')
}

func digitsString(d []int) string {
	var sb strings.Builder
	for _, x := range d {
		sb.WriteByte(byte('0' + x))
	}
	return sb.String()
}

func renderDec(v jv, st style, sb *strings.Builder) {
	ds := digitsString(v.D)
	sign := ""
	if v.Neg == 1 {
		sign = "-"
	}
	switch {
	case st.num == 1 && v.E >= -6 && v.E <= 18:
		// plain decimal expansion, always with a fraction part so that it stays a non-integer literal
		var s string
		if v.E >= 0 {
			for len(ds) < v.E+1 {
				ds += "0"
			}
			s = ds[:v.E+1] + "." + ds[v.E+1:]
			if len(ds) == v.E+1 {
				s += "0"
			}
		} else {
			s = "0." + strings.Repeat("0", -v.E-1) + ds
		}
		sb.WriteString(sign + s)
	case st.num == 2:
		frac := ds[1:]
		if frac == "" {
			frac = "000"
		} else {
			frac += "0"
		}
		es := strconv.Itoa(v.E)
		if v.E >= 0 {
			es = "+0" + es
		} else {
			es = "-0" + es[1:]
		}
		sb.WriteString(sign + ds[:1] + "." + frac + "e" + es)
	default:
		frac := ds[1:]
		if frac == "" {
			frac = "0"
		}
		sb.WriteString(sign + ds[:1] + "." + frac + "E" + strconv.Itoa(v.E))
	}
}

func render(v jv, st style, sb *strings.Builder, depth int) {
	sp := func() {
		if st.ws {
			sb.WriteString([]string{" ", "\n\t", "  ", "\r\n"}[depth%4])
		}
	}
	switch v.T {
	case "obj":
		sb.WriteByte('{')
		ms := append([]jMem{}, v.M...)
		if st.reverse {
			for i, j := 0, len(ms)-1; i < j; i, j = i+1, j-1 {
				ms[i], ms[j] = ms[j], ms[i]
			}
		}
		if st.nulls {
			// extra members whose value is null: first, and after the first real member
			extra := []jMem{{K: cps("\u0001zz-null-" + strconv.Itoa(depth)), V: jv{T: "null"}}}
			if len(ms) > 0 {
				ms = append(ms[:1], append([]jMem{{K: cps("zz-null2-" + strconv.Itoa(depth)), V: jv{T: "null"}}}, ms[1:]...)...)
			}
			ms = append(extra, ms...)
		}
		for i, m := range ms {
			if i > 0 {
				sb.WriteByte(',')
			}
			sp()
			renderString(m.K, st, sb)
			sp()
			sb.WriteByte(':')
			sp()
			render(m.V, st, sb, depth+1)
		}
		sp()
		sb.WriteByte('}')
	case "arr":
		sb.WriteByte('[')
		for i, x := range v.A {
			if i > 0 {
				sb.WriteByte(',')
			}
			sp()
			render(x, st, sb, depth+1)
		}
		sp()
		sb.WriteByte(']')
	case "str":
		renderString(v.S, st, sb)
	case "int":
		sb.WriteString(v.N.Int().String())
	case "dec":
		renderDec(v, st, sb)
	case "bool":
		sb.WriteString(strconv.FormatBool(v.B))
	default:
		sb.WriteString("null")
	}
}

// sanity: the rendering, read by encoding/json, must be the abstract value (harness self-check)
func sameValue(v jv, x any) bool {
	switch v.T {
	case "obj":
		m, ok := x.(map[string]any)
		if !ok {
			return false
		}
		keys := map[string]bool{}
		for _, mem := range v.M {
			y, ok := m[fromCps(mem.K)]
			if !ok || !sameValue(mem.V, y) {
				return false
			}
			keys[fromCps(mem.K)] = true
		}
		for k, y := range m {
			if !keys[k] && y != nil {
				return false // only extra members with a null value are allowed
			}
		}
		return true
	case "arr":
		a, ok := x.([]any)
		if !ok || len(a) != len(v.A) {
			return false
		}
		for i := range a {
			if !sameValue(v.A[i], a[i]) {
				return false
			}
		}
		return true
	case "str":
		s, ok := x.(string)
		return ok && s == fromCps(v.S)
	case "int":
		n, ok := x.(json.Number)
		return ok && n.String() == v.N.Int().String()
	case "dec":
		n, ok := x.(json.Number)
		if !ok {
			return false
		}
		r, ok := new(big.Rat).SetString(n.String())
		if !ok {
			return false
		}
		want, _ := new(big.Rat).SetString(func() string {
			s := digitsString(v.D)
			if v.Neg == 1 {
				s = "-" + s
			}
			return s + "e" + strconv.Itoa(v.E-len(v.D)+1)
		}())
		return r.Cmp(want) == 0
	case "bool":
		b, ok := x.(bool)
		return ok && b == v.B
	}
	return x == nil
}

func c14nCanonEvents(w *tr.Writer, v jv, only []style) error {
	for _, st := range only {
		var sb strings.Builder
		render(v, st, &sb, 0)
		text := []byte(sb.String())
		dec := json.NewDecoder(bytes.NewReader(text))
		dec.UseNumber()
		var x any
		if err := dec.Decode(&x); err != nil || !sameValue(v, x) {
			return fmt.Errorf("harness rendering is not the abstract value (style %s): %s (%v)", st.name, text, err)
		}
		out, err, pan := runC14n(text)
		in, _ := cpsOfBytes(text)
		ev := c14nEvent{K: "canon", Style: st.name, V: v, In: in, Ok: err == nil, Panic: pan, Out: []int{}}
		if err != nil {
			ev.Err = err.Error()
		} else {
			ev.Out, ev.UTF8 = cpsOfBytes(out)
			// idempotence: the canonical form canonicalises to itself
			out2, err2, pan2 := runC14n(out)
			ev2 := c14nEvent{K: "canon", Style: "canonical-again", V: v, In: ev.Out, Ok: err2 == nil, Panic: pan2, Out: []int{}}
			if err2 != nil {
				ev2.Err = err2.Error()
			} else {
				ev2.Out, ev2.UTF8 = cpsOfBytes(out2)
			}
			if st.name == "compact" {
				defer w.Emit(ev2)
			}
		}
		w.Emit(ev)
	}
	return nil
}

// ---- random values to depth 6 ---------------------------------------------------------

func randCps(r *rand.Rand) []int {
	n := r.Intn(5)
	out := []int{}
	pool := []int{0x61, 0x7a, 0x41, 0x20, 0x22, 0x5c, 0x2f, 0x0a, 0x09, 0x01, 0x1f, 0x7f, 0x80, 0xe9, 0x7ff, 0x800, 0x20ac,
		0xd7ff, 0xe000, 0xfffd, 0xffff, 0x10000, 0x1f600, 0x10ffff, 0x2028, 0x30}
	for i := 0; i < n; i++ {
		if r.Intn(3) == 0 {
			c := r.Intn(0x110000)
			if c >= 0xd800 && c <= 0xdfff {
				c = 0xe000
			}
			out = append(out, c)
		} else {
			out = append(out, pool[r.Intn(len(pool))])
		}
	}
	return out
}

func randDec(r *rand.Rand) jv {
	n := 1 + r.Intn(15)
	d := make([]int, n)
	for i := range d {
		d[i] = r.Intn(10)
	}
	if d[0] == 0 {
		d[0] = 1 + r.Intn(9)
	}
	for len(d) > 1 && d[len(d)-1] == 0 {
		d = d[:len(d)-1]
	}
	e := r.Intn(41) - 20
	if r.Intn(5) == 0 {
		e = r.Intn(600) - 300
	}
	return jv{T: "dec", Neg: r.Intn(2), D: d, E: e}
}

func randValue(r *rand.Rand, depth int) jv {
	k := r.Intn(9)
	if depth <= 0 && k < 2 {
		k = 2 + r.Intn(7)
	}
	switch k {
	case 0:
		n := r.Intn(4)
		v := jv{T: "obj"}
		seen := map[string]bool{}
		for i := 0; i < n; i++ {
			key := randCps(r)
			if seen[fromCps(key)] {
				continue
			}
			seen[fromCps(key)] = true
			v.M = append(v.M, jMem{K: key, V: randValue(r, depth-1)})
		}
		return v
	case 1:
		n := r.Intn(4)
		v := jv{T: "arr"}
		for i := 0; i < n; i++ {
			v.A = append(v.A, randValue(r, depth-1))
		}
		return v
	case 2, 3:
		return jv{T: "str", S: randCps(r)}
	case 4:
		var x int64
		switch r.Intn(4) {
		case 0:
			x = int64(r.Intn(200)) - 100
		case 1:
			x = r.Int63() - r.Int63()
		case 2:
			x = int64(r.Uint64())
		default:
			x = []int64{0, 1, -1, 9223372036854775807, -9223372036854775808, 4503599627370497, 100000000000000000}[r.Intn(7)]
		}
		b := tr.BigOfInt(x)
		return jv{T: "int", N: &b}
	case 5, 6:
		return randDec(r)
	case 7:
		return jv{T: "bool", B: r.Intn(2) == 0}
	}
	return jv{T: "null"}
}

// ---- malformed inputs ---------------------------------------------------------------------

// blankAround: complete values with a character around them that other notions of "blank" accept and JSON does not
func blankAround() []string {
	var out []string
	for _, b := range []string{"\f", "\v", "\u00a0", "\u0085", "\u1680", "\u2003", "\u2028", "\u2029", "\u202f", "\u3000", "\ufeff", "\x00", "\x1c"} {
		for _, v := range []string{`{"a":1}`, `[1,2]`, `"x"`, `1`, `null`} {
			out = append(out, b+v, v+b, " "+b+v+"\n", v+"\n"+b)
		}
		out = append(out, `{"a":`+b+`1}`, `[1,`+b+`2]`)
	}
	return out
}

// c14nPadded: insignificant white space of every length before and inside a value with characters of two, three and
// four bytes, so that the characters fall on every offset around the sizes in which a reader takes its input
// (512, 1024, 2048, 4096 ...).  The event records the unpadded text; the style names the padding.
func c14nPadded(w *tr.Writer) {
	str := []int{0x1F600, 0x20AC, 0xE9, 0x1D11E, 0x41}
	v := jv{T: "arr", A: []jv{{T: "str", S: str}, {T: "str", S: []int{0x10FFFF}}}}
	var sb strings.Builder
	render(v, styles[0], &sb, 0)
	text := sb.String()
	in, _ := cpsOfBytes([]byte(text))
	var ns []int
	for n := 0; n <= 1100; n++ {
		ns = append(ns, n)
	}
	for _, c := range []int{2048, 4096, 8192, 16384, 65536} {
		for n := c - 24; n <= c+4; n++ {
			ns = append(ns, n)
		}
	}
	for _, n := range ns {
		for _, where := range []string{"before", "inside"} {
			padded := strings.Repeat(" ", n) + text
			if where == "inside" {
				padded = text[:1] + strings.Repeat("\n", n) + text[1:]
			}
			out, err, pan := runC14n([]byte(padded))
			ev := c14nEvent{K: "canon", Style: fmt.Sprintf("padded-%s-%d", where, n), V: v, In: in, Ok: err == nil, Panic: pan, Out: []int{}}
			if err != nil {
				ev.Err = err.Error()
			} else {
				ev.Out, ev.UTF8 = cpsOfBytes(out)
			}
			w.Emit(ev)
		}
	}
}

func c14nBad(w *tr.Writer) {
	cases := map[string][]string{
		"empty":        {"", " ", "\n\t "},
		"truncated":    {`{`, `{"a"`, `{"a":`, `{"a":1`, `{"a":1,`, `[`, `[1`, `[1,`, `[1,2`, `"abc`, `{"a":[1,{"b":2}`, `tru`, `-`, `1.`, `1e`, `{"a":{"b":1}`},
		"trailing":     {`{"a":1} x`, `{"a":1}}`, `[1,2]]`, `1 2`, `{"a":1}{"b":2}`, `"a" "b"`, `null null`, `{"a":1},`},
		"syntax":       {`{a:1}`, `{"a" 1}`, `{"a":1 "b":2}`, `[1 2]`, `{"a":1,}`, `[1,]`, `{,"a":1}`, `'a'`, `{"a":01}`, `+1`, `.5`, `0x10`, `{"a":NaN}`, "{\"a\":\"b\nc\"}"},
		"badutf8":      {"\"\xff\"", "\"a\xc3\"", "{\"\xed\xa0\x80\":1}", "\"\xf8\x88\x80\x80\x80\"", "[\"ok\",\"\xc0\xaf\"]"},
		"hugenumber":   {`1e400`, `-1e400`, `{"a":1e999}`, `[1E+400]`},
		"nonstringkey": {`{1:2}`, `{null:1}`, `{[1]:2}`},
		// JSON's white space is space, tab, line feed and carriage return and nothing else
		"blank": blankAround(),
		// whatever follows the value counts, however far behind it is
		"far-trailing": {`{"a":1}` + strings.Repeat(" ", 509) + "x", `{"a":1}` + strings.Repeat(" ", 600) + "x", `[1,2]` + strings.Repeat("\n", 5000) + "]",
			`"s"` + strings.Repeat("\t", 4096) + "1", `1` + strings.Repeat(" ", 70000) + `{"b":2}`, `{"a":[` + strings.Repeat("1,", 3000) + `1]}` + strings.Repeat(" ", 4090) + "}",
			`null` + strings.Repeat("\r\n", 1024) + "null", `{"a":1}` + strings.Repeat(" ", 512) + ","},
	}
	for cls, ins := range cases {
		for _, s := range ins {
			out, err, pan := runC14n([]byte(s))
			in := make([]int, len(s))
			for i := 0; i < len(s); i++ {
				in[i] = int(s[i])
			}
			ev := c14nEvent{K: "bad", Cls: cls, In: in, Ok: err == nil, Panic: pan, Out: []int{}, V: jv{T: "null"}}
			if err != nil {
				ev.Err = err.Error()
			} else {
				ev.Out, ev.UTF8 = cpsOfBytes(out)
			}
			w.Emit(ev)
		}
	}
}

func c14nRun(in string, seed int64, nrand int, allChars bool, out string) error {
	w, err := tr.NewWriter(out)
	if err != nil {
		return err
	}
	if in != "" {
		err = tr.ReadLines(in, func(line []byte) error {
			var c struct {
				V jv `json:"v"`
			}
			if err := json.Unmarshal(line, &c); err != nil {
				return err
			}
			return c14nCanonEvents(w, c.V, styles)
		})
		if err != nil {
			return err
		}
	}
	r := rand.New(rand.NewSource(seed))
	for i := 0; i < nrand; i++ {
		v := randValue(r, 1+r.Intn(6))
		if err := c14nCanonEvents(w, v, []style{styles[r.Intn(len(styles))], styles[0]}); err != nil {
			return err
		}
	}
	c14nBad(w)
	c14nPadded(w)
	// single-character strings
	emitChar := func(c int) {
		if c >= 0xd800 && c <= 0xdfff {
			return
		}
		s := string(rune(c))
		q, _ := json.Marshal(s) // encoding/json renders the string; HTML-safe escapes are still plain JSON
		o, err, pan := runC14n(q)
		ev := c14nEvent{K: "char", Cp: c, Ok: err == nil, Panic: pan, Out: []int{}, In: []int{}, V: jv{T: "null"}}
		if err != nil {
			ev.Err = err.Error()
		} else {
			ev.Out, ev.UTF8 = cpsOfBytes(o)
		}
		w.Emit(ev)
		// the same character written literally (raw UTF-8 between quotes) unless it must be escaped
		if c >= 0x20 && c != '"' && c != '\\' {
			raw := []byte(`"` + s + `"`)
			o, err, pan := runC14n(raw)
			ev := c14nEvent{K: "char", Style: "raw", Cp: c, Ok: err == nil, Panic: pan, Out: []int{}, In: []int{}, V: jv{T: "null"}}
			if err != nil {
				ev.Err = err.Error()
			} else {
				ev.Out, ev.UTF8 = cpsOfBytes(o)
			}
			w.Emit(ev)
		}
	}
	if allChars {
		for c := 0; c <= 0x10ffff; c++ {
			emitChar(c)
		}
	} else {
		for c := 0; c <= 0x2ff; c++ {
			emitChar(c)
		}
		for _, c := range []int{0x7ff, 0x800, 0x2028, 0x2029, 0xd7ff, 0xe000, 0xfeff, 0xfffc, 0xfffd, 0xfffe, 0xffff, 0x10000, 0x1f600, 0xfffff, 0x100000, 0x10fffe, 0x10ffff} {
			emitChar(c)
		}
		for i := 0; i < 2000; i++ {
			emitChar(r.Intn(0x110000))
		}
	}
	fmt.Printf("events=%d\n", w.N)
	return w.Close()
}

func init() {
	register("c14n-run", func(args []string) error {
		fs := flag.NewFlagSet("c14n-run", flag.ExitOnError)
		in := fs.String("in", "", "values ndjson from TLC")
		seed := fs.Int64("seed", 1, "seed")
		n := fs.Int("n", 500, "random values")
		all := fs.Bool("allchars", false, "sweep all Unicode scalar values")
		out := fs.String("out", "", "events ndjson")
		fs.Parse(args)
		return c14nRun(*in, *seed, *n, *all, *out)
	})
}
