// vdrive: drivers binding the TLA+ specification suite to the real GOBL code.
// Each family has `replay` (cases exported by TLC -> events) and `record`
// (seeded generator -> events).  Events are judged by TLC, never here.
package main

import (
	"flag"
	"fmt"
	"os"
)

type cmdFn func(args []string) error

var commands = map[string]cmdFn{}

func register(name string, fn cmdFn) { commands[name] = fn }

func main() {
	if len(os.Args) < 2 {
		fmt.Fprintln(os.Stderr, "usage: vdrive <command> [flags]")
		os.Exit(2)
	}
	fn, ok := commands[os.Args[1]]
	if !ok {
		fmt.Fprintf(os.Stderr, "unknown command %q\n", os.Args[1])
		os.Exit(2)
	}
	if err := fn(os.Args[2:]); err != nil {
		fmt.Fprintf(os.Stderr, "vdrive %s: %v\n", os.Args[1], err)
		os.Exit(2)
	}
}

func init() {
	register("dec-replay", func(args []string) error {
		fs := flag.NewFlagSet("dec-replay", flag.ExitOnError)
		in := fs.String("in", "", "cases ndjson")
		out := fs.String("out", "", "events ndjson")
		fs.Parse(args)
		return decReplay(*in, *out)
	})
	register("dec-record", func(args []string) error {
		fs := flag.NewFlagSet("dec-record", flag.ExitOnError)
		seed := fs.Int64("seed", 1, "seed")
		n := fs.Int("n", 1000, "events")
		out := fs.String("out", "", "events ndjson")
		fs.Parse(args)
		return decRecord(*seed, *n, *out)
	})
}
