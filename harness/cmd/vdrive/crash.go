package main

// crash: drivers for Outcome.tla (C14) - no input crashes the library;
// failures are structured errors.  A mutation plan (exported by TLC: target
// kind x mutation) is applied at every matching position of every example
// document; each mutant runs through parse -> calculate -> validate -> digest ->
// sign -> verify -> correct -> replicate with a recover wrapper and a watchdog.
// Seeded arbitrary bytes / JSON / YAML go through the parsers, and mutants go
// through the bulk processor (cmd/goblverif), which must answer every request.

import (
	"bufio"
	"bytes"
	"context"
	"encoding/json"
	"flag"
	"fmt"
	"io"
	"math/rand"
	"os"
	"os/exec"
	"path/filepath"
	"runtime/debug"
	"sort"
	"strings"
	"time"

	"github.com/invopop/gobl"
	"github.com/invopop/gobl/bill"
	"github.com/invopop/gobl/cal"
	"github.com/invopop/gobl/dsig"
	"github.com/invopop/gobl/schema"
	"github.com/invopop/yaml"
	"goblverif/internal/tr"
)

type crashStep struct {
	Op  string `json:"op"`
	Out string `json:"out"` // ok | <error key> | unkeyed | panic | timeout | skipped
	Msg string `json:"msg"`
}
type crashEvent struct {
	K     string      `json:"k"` // pipeline | bytes | bulk
	Src   string      `json:"src"`
	Mut   string      `json:"mut"`
	Path  string      `json:"path"`
	Steps []crashStep `json:"steps"`
}
type planItem struct {
	Target string `json:"target"`
	Mut    string `json:"mut"`
}

func keyed(err error) (string, string) {
	if err == nil {
		return "ok", ""
	}
	if ge, ok := err.(*gobl.Error); ok {
		// the error must serialise to JSON
		if _, jerr := json.Marshal(ge); jerr != nil {
			return "unserialisable", jerr.Error()
		}
		return ge.Key().String(), ""
	}
	return "unkeyed", err.Error()
}

var crashKey, crashKey2 = dsig.NewES256Key(), dsig.NewES256Key()

// runPipeline executes the whole life-cycle on one input; every call is total.
// crashCur, when set, names a file that always holds the input being processed: if the process is aborted
// (a fatal runtime error cannot be recovered) the supervisor finds there what did it
var crashCur string

func runPipeline(data []byte) []crashStep {
	if crashCur != "" {
		_ = os.WriteFile(crashCur, data, 0o644)
	}
	var steps []crashStep
	var env *gobl.Envelope
	call := func(op string, f func() error) bool {
		out, msg := "ok", ""
		func() {
			defer func() {
				if p := recover(); p != nil {
					out, msg = "panic", panicSite()+" "+fmt.Sprint(p)
				}
			}()
			out, msg = keyed(f())
		}()
		if len(msg) > 160 {
			msg = msg[:160]
		}
		steps = append(steps, crashStep{Op: op, Out: out, Msg: msg})
		return out == "ok"
	}
	ok := call("Parse", func() error {
		obj, err := gobl.Parse(data)
		if err != nil {
			return err
		}
		switch v := obj.(type) {
		case *gobl.Envelope:
			env = v
		case *schema.Object:
			e := gobl.NewEnvelope()
			e.Document = v
			env = e
		default:
			e, err := gobl.Envelop(obj)
			if err != nil {
				return err
			}
			env = e
		}
		return nil
	})
	if !ok || env == nil {
		return steps
	}
	call("ValidateRaw", func() error { return env.Validate() }) // as parsed, before any calculation
	call("Calculate", func() error { return env.Calculate() })
	call("Validate", func() error { return env.Validate() })
	call("Digest", func() error { _, err := env.Digest(); return err })
	call("Sign", func() error { return env.Sign(crashKey) })
	call("Verify", func() error {
		if !env.Signed() {
			return nil // verification of unsigned envelopes is not part of the life-cycle here
		}
		return env.Verify(crashKey.Public())
	})
	call("VerifyPartly", func() error {
		// signed by two keys, verified with one of them: a refusal that reports on each signature
		if !env.Signed() {
			return nil
		}
		raw, err := json.Marshal(env)
		if err != nil {
			return nil
		}
		e2 := new(gobl.Envelope)
		if json.Unmarshal(raw, e2) != nil || e2.Sign(crashKey2) != nil {
			return nil
		}
		return e2.Verify(crashKey.Public())
	})
	call("Correct", func() error {
		if _, ok := env.Extract().(*bill.Invoice); !ok {
			return nil
		}
		_, err := env.Correct(bill.Credit, bill.WithReason("test"))
		return err
	})
	call("CorrectCopy", func() error {
		if _, ok := env.Extract().(*bill.Invoice); !ok {
			return nil
		}
		_, err := env.Correct(bill.Debit, bill.WithReason("test"), bill.WithCopyTax(), bill.WithSeries("S"), bill.WithIssueDate(cal.MakeDate(2030, 1, 2)))
		return err
	})
	call("CorrectData", func() error {
		if _, ok := env.Extract().(*bill.Invoice); !ok {
			return nil
		}
		_, err := env.Correct(bill.WithData([]byte(`{"type":"corrective","reason":"r","copy_tax":true,"ext":{"es-facturae-correction":"01"},"stamps":[{"prv":"sat-uuid","val":"x"},null]}`)))
		return err
	})
	call("OptionsSchema", func() error { _, err := env.CorrectionOptionsSchema(); return err })
	call("Replicate", func() error { _, err := env.Replicate(); return err })
	call("Marshal", func() error {
		if _, err := json.Marshal(env); err != nil {
			return gobl.ErrMarshal.WithCause(err) // encoding/json reports these; any error is a structured refusal here
		}
		return nil
	})
	return steps
}

// panicSite names the innermost gobl frame of the panicking goroutine (file:line function)
func panicSite() string { return siteFromStack(string(debug.Stack())) }

func siteFromStack(st string) string {
	lines := strings.Split(st, "\n")
	var fns []string
	for i := 0; i+1 < len(lines) && len(fns) < 2; i++ {
		l := lines[i]
		if strings.Contains(l, "github.com/invopop/gobl") && !strings.Contains(l, "goblverif") && !strings.HasPrefix(l, "\t") {
			fn := l
			if p := strings.LastIndex(fn, "("); p > 0 {
				fn = fn[:p]
			}
			fns = append(fns, strings.TrimPrefix(fn, "github.com/invopop/gobl/"))
		}
	}
	if len(fns) == 0 {
		return "[?]"
	}
	// innermost library function and its caller: stable under edits elsewhere, no line numbers
	return "[" + strings.Join(fns, "<") + "]"
}

func withWatchdog(f func() []crashStep) []crashStep {
	ch := make(chan []crashStep, 1)
	go func() { ch <- f() }()
	select {
	case s := <-ch:
		return s
	case <-time.After(10 * time.Second):
		return []crashStep{{Op: "Pipeline", Out: "timeout"}}
	}
}

// ---- mutations ------------------------------------------------------------------------------------

func nodeKind(x any, key string) []string {
	ks := []string{}
	switch x.(type) {
	case map[string]any:
		ks = append(ks, "object")
	case []any:
		ks = append(ks, "array")
	case string:
		ks = append(ks, "string")
	case json.Number, float64:
		ks = append(ks, "number")
	case bool:
		ks = append(ks, "bool")
	}
	switch key {
	case "$schema", "$regime", "$addons", "currency", "country", "code", "sigs", "dig", "uuid":
		ks = append(ks, "key:"+key)
	}
	if s, ok := x.(string); ok {
		if len(s) == 10 && s[4] == '-' && s[7] == '-' {
			ks = append(ks, "date")
		}
		if len(s) > 0 && (s[0] == '-' || (s[0] >= '0' && s[0] <= '9')) && strings.Trim(s, "-0123456789.%") == "" {
			ks = append(ks, "amount")
		}
	}
	return ks
}

func mutate(mut string, old any) (any, bool, bool) { // value, delete?, applicable?
	switch mut {
	case "delete":
		return nil, true, true
	case "null":
		return nil, false, true
	case "retype-string":
		if _, ok := old.(string); ok {
			return nil, false, false
		}
		return "x", false, true
	case "retype-number":
		if _, ok := old.(json.Number); ok {
			return nil, false, false
		}
		return json.Number("7"), false, true
	case "retype-object":
		if _, ok := old.(map[string]any); ok {
			return nil, false, false
		}
		return map[string]any{}, false, true
	case "retype-array":
		if _, ok := old.([]any); ok {
			return nil, false, false
		}
		return []any{}, false, true
	case "retype-bool":
		return true, false, true
	case "empty":
		switch old.(type) {
		case string:
			return "", false, true
		case []any:
			return []any{}, false, true
		case map[string]any:
			return map[string]any{}, false, true
		}
		return nil, false, false
	case "huge":
		return strings.Repeat("9", 40), false, true
	case "tiny":
		return "0." + strings.Repeat("0", 30) + "1", false, true
	case "tiny64":
		return "0." + strings.Repeat("0", 63) + "1", false, true
	case "negative":
		if s, ok := old.(string); ok && len(s) > 0 && s[0] != '-' {
			return "-" + s, false, true
		}
		return nil, false, false
	case "unknown-code":
		return "ZZZ", false, true
	case "duplicate":
		if a, ok := old.([]any); ok && len(a) > 0 {
			return append(append([]any{}, a...), a[len(a)-1], a[0]), false, true
		}
		return nil, false, false
	case "nulls-inside":
		if a, ok := old.([]any); ok {
			return append([]any{nil}, a...), false, true
		}
		return nil, false, false
	case "deep-nest":
		var v any = old
		for i := 0; i < 300; i++ {
			v = []any{v}
		}
		return v, false, true
	case "empty-signature":
		return []any{""}, false, true
	case "zero":
		return "0", false, true
	}
	return nil, false, false
}

type mutant struct {
	mut, path string
	data      []byte
	bulkOnly  bool // run in a separate process only (a runaway recursion cannot be recovered in-process)
}

func registeredSchemas() []string {
	ids := []string{}
	for _, id := range schema.Types() {
		ids = append(ids, id.String())
	}
	sort.Strings(ids)
	return ids
}

func mutants(root map[string]any, plan []planItem) []mutant {
	var out []mutant
	emit := func(mut, path string) {
		b, err := json.Marshal(root)
		if err == nil {
			out = append(out, mutant{mut: mut, path: path, data: b})
		}
	}
	var walk func(x any, key, path string, set func(any), del func())
	walk = func(x any, key, path string, set func(any), del func()) {
		kinds := nodeKind(x, key)
		for _, pi := range plan {
			hit := false
			for _, k := range kinds {
				if k == pi.Target {
					hit = true
				}
			}
			if !hit {
				continue
			}
			v, isDel, ok := mutate(pi.Mut, x)
			if !ok {
				continue
			}
			if isDel {
				if del == nil {
					continue
				}
				del()
				emit(pi.Mut, path)
				set(x)
				continue
			}
			set(v)
			emit(pi.Mut, path)
			set(x)
		}
		switch v := x.(type) {
		case map[string]any:
			keys := make([]string, 0, len(v))
			for k := range v {
				keys = append(keys, k)
			}
			sort.Strings(keys)
			for _, k := range keys {
				k := k
				old := v[k]
				walk(old, k, path+"/"+k, func(y any) { v[k] = y }, func() { delete(v, k) })
				v[k] = old
			}
		case []any:
			for i := range v {
				i := i
				old := v[i]
				walk(old, "", fmt.Sprintf("%s/%d", path, i), func(y any) { v[i] = y }, nil)
				v[i] = old
			}
		}
	}
	walk(root, "", "", func(any) {}, nil)
	// cooperating mutations ------------------------------------------------------------------
	// (a) an array element duplicated with one (nested) member missing from the copy
	var dupStrip func(x any, path string)
	dupStrip = func(x any, path string) {
		switch v := x.(type) {
		case map[string]any:
			for k, y := range v {
				if a, ok := y.([]any); ok && len(a) > 0 {
					if last, ok := a[len(a)-1].(map[string]any); ok {
						var strip func(o map[string]any, depth int, p string)
						strip = func(o map[string]any, depth int, p string) {
							for mk, mv := range o {
								delete(o, mk)
								emit("dup-strip", p+"/"+mk)
								o[mk] = mv
								if sub, ok := mv.(map[string]any); ok && depth < 2 {
									strip(sub, depth+1, p+"/"+mk)
								}
							}
						}
						cp := deepCopy(last).(map[string]any)
						v[k] = append(append([]any{}, a...), cp)
						strip(cp, 0, path+"/"+k+"/+")
						v[k] = a
					}
				}
				dupStrip(y, path+"/"+k)
			}
		case []any:
			for i, y := range v {
				dupStrip(y, fmt.Sprintf("%s/%d", path, i))
			}
		}
	}
	dupStrip(root, "")
	// (d) an array element duplicated with a surcharge added to (or taken from) every percentage inside the copy,
	// in both orders: rows that are merged or compared with each other then differ in exactly that member
	var dupVary func(x any, path string)
	dupVary = func(x any, path string) {
		switch v := x.(type) {
		case map[string]any:
			for k, y := range v {
				if a, ok := y.([]any); ok && len(a) > 0 {
					if last, ok := a[len(a)-1].(map[string]any); ok {
						cp := deepCopy(last).(map[string]any)
						changed := false
						var vary func(z any)
						vary = func(z any) {
							switch o := z.(type) {
							case map[string]any:
								if _, has := o["percent"]; has {
									if _, hs := o["surcharge"]; hs {
										delete(o, "surcharge")
									} else if _, isTotal := o["base"]; isTotal {
										o["surcharge"] = map[string]any{"percent": "5.2%", "amount": "1.00"}
									} else {
										o["surcharge"] = "5.2%"
									}
									changed = true
								}
								for _, w := range o {
									vary(w)
								}
							case []any:
								for _, w := range o {
									vary(w)
								}
							}
						}
						vary(cp)
						if changed {
							v[k] = append(append([]any{}, a...), cp)
							emit("dup-vary", path+"/"+k+"/+")
							v[k] = append([]any{cp}, a...)
							emit("dup-vary", path+"/"+k+"/-")
							v[k] = a
						}
					}
				}
				dupVary(y, path+"/"+k)
			}
		case []any:
			for i, y := range v {
				dupVary(y, fmt.Sprintf("%s/%d", path, i))
			}
		}
	}
	dupVary(root, "")
	// (b) pairs of mutations on identifying keys (regime / country / currency / addons / schema)
	type pos struct {
		set func(any)
		old any
		p   string
	}
	keyPos := map[string][]pos{}
	var find func(x any, path string)
	find = func(x any, path string) {
		switch v := x.(type) {
		case map[string]any:
			for k, y := range v {
				k, y := k, y
				switch k {
				case "$regime", "currency", "country", "$addons", "$schema":
					keyPos[k] = append(keyPos[k], pos{func(z any) { v[k] = z }, y, path + "/" + k})
				case "from", "to":
					// the two ends of an exchange rate are currencies too
					keyPos["currency"] = append(keyPos["currency"], pos{func(z any) { v[k] = z }, y, path + "/" + k})
				}
				find(y, path+"/"+k)
			}
		case []any:
			for i, y := range v {
				find(y, fmt.Sprintf("%s/%d", path, i))
			}
		}
	}
	find(root, "")
	keys := []string{"$regime", "currency", "country", "$addons", "$schema"}
	vals := []any{"ZZZ", nil, ""}
	for i, ka := range keys {
		for _, kb := range keys[i:] {
			for _, pa := range keyPos[ka] {
				for _, pb := range keyPos[kb] {
					if pa.p == pb.p {
						continue
					}
					for _, va := range vals {
						for _, vb := range vals {
							pa.set(va)
							pb.set(vb)
							emit("pair", pa.p+"+"+pb.p)
							pa.set(pa.old)
							pb.set(pb.old)
						}
					}
				}
			}
		}
	}
	// (e) the document type swapped for every other registered type; (f) an undefined currency added to every
	// object that has none (document references, preceding rows, items ...)
	var swap func(x any, path string)
	swap = func(x any, path string) {
		switch v := x.(type) {
		case map[string]any:
			if old, ok := v["$schema"].(string); ok {
				for _, id := range registeredSchemas() {
					if id != old {
						v["$schema"] = id
						b, err := json.Marshal(root)
						if err == nil {
							out = append(out, mutant{mut: "schema-swap", path: path + "/$schema=" + id, data: b, bulkOnly: true})
						}
					}
				}
				v["$schema"] = old
			}
			if _, has := v["currency"]; !has && path != "" {
				v["currency"] = "ZZZ"
				emit("add-unknown-currency", path+"/currency")
				// ... and with an exchange rate from that code into the document's currency
				top := root
				if d, ok := root["doc"].(map[string]any); ok {
					top = d
				}
				if dc, ok := top["currency"].(string); ok {
					oldRates, had := top["exchange_rates"]
					rates, _ := oldRates.([]any)
					top["exchange_rates"] = append(append([]any{}, rates...), map[string]any{"from": "ZZZ", "to": dc, "amount": "1.5"})
					emit("add-unknown-currency", path+"/currency+rate")
					if had {
						top["exchange_rates"] = oldRates
					} else {
						delete(top, "exchange_rates")
					}
				}
				delete(v, "currency")
			}
			for k, y := range v {
				swap(y, path+"/"+k)
			}
		case []any:
			for i, y := range v {
				swap(y, fmt.Sprintf("%s/%d", path, i))
			}
		}
	}
	swap(root, "")
	// (c) envelopes with empty entries in their signature list
	if s, _ := root["$schema"].(string); strings.HasSuffix(s, "/envelope") {
		old, had := root["sigs"]
		for _, v := range []any{[]any{""}, []any{nil}, []any{"", "x.y.z"}} {
			root["sigs"] = v
			emit("empty-signature", "/sigs")
		}
		if had {
			root["sigs"] = old
		} else {
			delete(root, "sigs")
		}
	}
	return out
}

// crashCLI, when set, is the gobl command: a sample of the mutants is also given to it as files
var (
	crashCLI     string
	crashCLIEach = 25
)

// runCLI gives one input to the gobl command and classifies what comes back: a result (exit 0) or a
// well-formed JSON error on stderr (code plus key, message or fields)
func runCLI(dir string, n int, action string, data []byte) (string, string) {
	file := filepath.Join(dir, fmt.Sprintf("cli-input-%d.json", n%4))
	if err := os.WriteFile(file, data, 0o644); err != nil {
		return "skipped", err.Error()
	}
	args := []string{action, file}
	switch action {
	case "correct":
		args = []string{"correct", "-d", `{"type":"credit-note","reason":"x"}`, file}
	case "correct-options":
		args = []string{"correct", "--options", file}
	}
	cmd := exec.Command(crashCLI, args...)
	var stderr bytes.Buffer
	cmd.Stderr = &stderr
	_, err := cmd.Output()
	if err == nil {
		return "ok", ""
	}
	se := stderr.String()
	if p := strings.Index(se, "panic:"); p >= 0 {
		return "panic", siteFromStack(se[p:])
	}
	if strings.Contains(se, "fatal error:") {
		return "no-response", "fatal error"
	}
	var e struct {
		Code    int    `json:"code"`
		Key     string `json:"key"`
		Message string `json:"message"`
		Fields  any    `json:"fields"`
	}
	if json.Unmarshal([]byte(se), &e) != nil || e.Code == 0 || (e.Key == "" && e.Message == "" && e.Fields == nil) {
		m := se
		if len(m) > 120 {
			m = m[:120]
		}
		return "malformed-error", m
	}
	return "error", ""
}

func crashRun(repo, planFile string, seed int64, capPerDoc, nbytes int, bulkBin, out string) error {
	w, err := tr.NewWriter(out)
	if err != nil {
		return err
	}
	var cliDone []int
	var plan []planItem
	err = tr.ReadLines(planFile, func(line []byte) error {
		var p planItem
		if err := json.Unmarshal(line, &p); err != nil {
			return err
		}
		plan = append(plan, p)
		return nil
	})
	if err != nil {
		return err
	}
	r := rand.New(rand.NewSource(seed))
	var files []string
	filepath.Walk(filepath.Join(repo, "examples"), func(p string, info os.FileInfo, err error) error {
		if err == nil && !info.IsDir() && (strings.HasSuffix(p, ".yaml") || strings.HasSuffix(p, ".json")) {
			files = append(files, p)
		}
		return nil
	})
	sort.Strings(files)
	var bulkInputs []mutant
	var bulkSrc []string
	for _, f := range files {
		raw, err := os.ReadFile(f)
		if err != nil {
			continue
		}
		data, err := toJSON(f, raw)
		if err != nil {
			continue
		}
		var root map[string]any
		dec := json.NewDecoder(bytes.NewReader(data))
		dec.UseNumber()
		if dec.Decode(&root) != nil {
			continue
		}
		name, _ := filepath.Rel(repo, f)
		// the unmutated document first
		w.Emit(crashEvent{K: "pipeline", Src: name, Mut: "none", Steps: withWatchdog(func() []crashStep { return runPipeline(data) })})
		ms := mutants(root, plan)
		if capPerDoc > 0 && len(ms) > capPerDoc {
			r.Shuffle(len(ms), func(i, j int) { ms[i], ms[j] = ms[j], ms[i] })
			// keep a share of each family
			var sel []mutant
			quota := map[string]int{"pair": capPerDoc / 3, "dup-strip": capPerDoc / 3, "empty-signature": 3, "dup-vary": 1000,
				"schema-swap": 12, "add-unknown-currency": capPerDoc / 3}
			n := 0
			for _, m := range ms {
				if q, ok := quota[m.mut]; ok {
					if q > 0 {
						quota[m.mut] = q - 1
						sel = append(sel, m)
					}
				} else if n < capPerDoc {
					n++
					sel = append(sel, m)
				}
			}
			ms = sel
		}
		for i, m := range ms {
			m := m
			if crashCLI != "" && (i%crashCLIEach == 0 || (m.mut == "schema-swap" && i%4 == 0)) {
				action := []string{"build", "validate", "correct", "replicate", "correct-options"}[len(cliDone)%5]
				o, msg := runCLI(filepath.Dir(out), len(cliDone), action, m.data)
				cliDone = append(cliDone, 1)
				w.Emit(crashEvent{K: "bulk", Src: name, Mut: m.mut, Path: m.path, Steps: []crashStep{{Op: "cli-" + action, Out: o, Msg: msg}}})
			}
			if m.bulkOnly {
				bulkInputs = append(bulkInputs, m)
				bulkSrc = append(bulkSrc, name)
				continue
			}
			w.Emit(crashEvent{K: "pipeline", Src: name, Mut: m.mut, Path: m.path, Steps: withWatchdog(func() []crashStep { return runPipeline(m.data) })})
			if i%9 == 0 || m.mut == "empty-signature" || m.mut == "pair" {
				bulkInputs = append(bulkInputs, m)
				bulkSrc = append(bulkSrc, name)
			}
		}
	}
	// arbitrary bytes, JSON and YAML through the parsers
	snippets := []string{`{`, `}`, `[`, `"`, `:`, `,`, `null`, `true`, `1e999`, `{"$schema":"https://gobl.org/draft-0/bill/invoice"`, `"doc":`, `"head":`, `"sigs":[""]`,
		`{"$schema":"https://gobl.org/draft-0/envelope","head":null,"doc":null}`, "\x00", "\xff\xfe", "- a\n  b: [", "? !!binary", `\u0000`, `{"$schema":""}`, `{"$schema":7}`}
	for i := 0; i < nbytes; i++ {
		var b []byte
		switch r.Intn(3) {
		case 0:
			b = make([]byte, r.Intn(200))
			r.Read(b)
		case 1:
			for k := r.Intn(8); k >= 0; k-- {
				b = append(b, snippets[r.Intn(len(snippets))]...)
			}
		default:
			if len(bulkInputs) > 0 {
				src := bulkInputs[r.Intn(len(bulkInputs))].data
				b = append([]byte{}, src...)
				for k := 1 + r.Intn(4); k > 0 && len(b) > 0; k-- {
					p := r.Intn(len(b))
					switch r.Intn(3) {
					case 0:
						b[p] = byte(r.Intn(256))
					case 1:
						b = append(b[:p], b[p+1:]...)
					default:
						b = b[:p]
					}
				}
			}
		}
		b2 := b
		steps := withWatchdog(func() []crashStep {
			s := runPipeline(b2)
			// YAML entry
			out, msg := "ok", ""
			func() {
				defer func() {
					if p := recover(); p != nil {
						out, msg = "panic", fmt.Sprint(p)
					}
				}()
				if j, err := yaml.YAMLToJSON(b2); err == nil {
					s2 := runPipeline(j)
					for _, x := range s2 {
						if x.Out == "panic" || x.Out == "timeout" {
							out, msg = x.Out, x.Op+": "+x.Msg
						}
					}
				}
			}()
			return append(s, crashStep{Op: "YAML", Out: out, Msg: msg})
		})
		w.Emit(crashEvent{K: "bytes", Src: fmt.Sprintf("bytes-%d", i), Mut: "arbitrary", Steps: steps})
	}
	// the bulk processor must answer every request, whatever the payload
	if bulkBin != "" && len(bulkInputs) > 0 {
		type bulkReq struct {
			Action  string `json:"action"`
			ReqID   string `json:"req_id"`
			Payload any    `json:"payload"`
		}
		for start := 0; start < len(bulkInputs); start += 200 {
			end := start + 200
			if end > len(bulkInputs) {
				end = len(bulkInputs)
			}
			var reqs bytes.Buffer
			enc := json.NewEncoder(&reqs)
			for i := start; i < end; i++ {
				m := bulkInputs[i]
				action := []string{"build", "validate", "correct", "replicate"}[i%4]
				if m.mut == "empty-signature" {
					action = "verify"
				}
				var payload any
				switch action {
				case "verify":
					payload = map[string]any{"data": m.data, "publickey": crashKey.Public()}
				case "build":
					payload = map[string]any{"data": m.data, "envelop": true}
				case "correct":
					payload = map[string]any{"data": m.data, "options": []byte(`{"type":"credit-note","reason":"x"}`)}
				default:
					payload = map[string]any{"data": m.data}
				}
				enc.Encode(bulkReq{Action: action, ReqID: fmt.Sprint(i), Payload: payload})
			}
			runBatch := func(in *bytes.Buffer) (map[string]string, bool, string, error) {
				cmd := exec.Command(bulkBin)
				cmd.Stdin = in
				var stderr bytes.Buffer
				cmd.Stderr = &stderr
				outB, runErr := cmd.Output()
				seen := map[string]string{}
				final := false
				sc := bufio.NewScanner(bytes.NewReader(outB))
				sc.Buffer(make([]byte, 1<<20), 1<<27)
				for sc.Scan() {
					var res struct {
						ReqID   string          `json:"req_id"`
						Error   json.RawMessage `json:"error"`
						IsFinal bool            `json:"is_final"`
					}
					if json.Unmarshal(sc.Bytes(), &res) != nil {
						continue
					}
					if res.IsFinal {
						final = true
						continue
					}
					o := "ok"
					if len(res.Error) > 0 && string(res.Error) != "null" {
						var e struct {
							Code    int    `json:"code"`
							Key     string `json:"key"`
							Message string `json:"message"`
							Fields  any    `json:"fields"`
						}
						if json.Unmarshal(res.Error, &e) != nil || e.Code == 0 || (e.Key == "" && e.Message == "" && e.Fields == nil) {
							o = "malformed-error"
						} else {
							o = "error"
						}
					}
					seen[res.ReqID] = o
				}
				return seen, final, stderr.String(), runErr
			}
			seen, final, _, _ := runBatch(&reqs)
			actionOf := func(i int) string {
				if bulkInputs[i].mut == "empty-signature" {
					return "verify"
				}
				return []string{"build", "validate", "correct", "replicate"}[i%4]
			}
			for i := start; i < end; i++ {
				o, ok := seen[fmt.Sprint(i)]
				msg := ""
				if !ok {
					// the process died (or lost the request): run this request alone to attribute the failure
					var one bytes.Buffer
					m := bulkInputs[i]
					var payload any
					switch actionOf(i) {
					case "verify":
						payload = map[string]any{"data": m.data, "publickey": crashKey.Public()}
					case "build":
						payload = map[string]any{"data": m.data, "envelop": true}
					case "correct":
						payload = map[string]any{"data": m.data, "options": []byte(`{"type":"credit-note","reason":"x"}`)}
					default:
						payload = map[string]any{"data": m.data}
					}
					json.NewEncoder(&one).Encode(bulkReq{Action: actionOf(i), ReqID: fmt.Sprint(i), Payload: payload})
					seen1, final1, se, runErr := runBatch(&one)
					if o1, ok1 := seen1[fmt.Sprint(i)]; ok1 && final1 {
						o = o1 // answered when alone: the loss was caused by another request of the batch
					} else if p := strings.Index(se, "panic:"); p >= 0 {
						o, msg = "panic", siteFromStack(se[p:])
					} else {
						o = "no-response"
						if runErr != nil {
							msg = runErr.Error()
						}
					}
				}
				w.Emit(crashEvent{K: "bulk", Src: bulkSrc[i], Mut: bulkInputs[i].mut, Path: bulkInputs[i].path,
					Steps: []crashStep{{Op: "bulk-" + actionOf(i), Out: o, Msg: msg}}})
			}
			final = true // losses are attributed per request above
			if !final {
				w.Emit(crashEvent{K: "bulk", Src: "stream", Mut: "batch", Steps: []crashStep{{Op: "bulk-final", Out: "no-response"}}})
			}
		}
	}
	if err := bulkStreams(w, bulkBin); err != nil {
		return err
	}
	fmt.Printf("events=%d\n", w.N)
	return w.Close()
}

// bulkStreams: request streams of every shape (cut short, not JSON, of the wrong type ...): the processor
// answers, says that it is done and ends; it is given a bounded time and a bounded amount of output
func bulkStreams(w *tr.Writer, bulkBin string) error {
	ping := `{"action":"ping","req_id":"p"}`
	build := `{"action":"build","req_id":"b","payload":{"data":"eyJhIjoxfQ=="}}`
	streams := map[string]string{
		"empty": "", "blank": " \n", "open-brace": "{", "open-bracket": "[", "open-string": `"abc`, "cut-key": `{"action`, "cut-value": `{"action":"pi`,
		"cut-after-colon": `{"action":`, "cut-after-comma": `{"action":"ping",`, "cut-payload": `{"action":"build","payload":{"data":"eyJh`,
		"complete-then-cut": ping + "\n" + `{"action":"bui`, "build-then-cut": build + "\n" + `{"action":"build","payload":{`,
		"two-then-cut": ping + ping + `{`, "cut-literal": "nul", "cut-number": "-", "not-json": "this ain't json", "wrong-type": `{"action":5}`,
		"wrong-type-then-ping": `{"action":5}` + "\n" + ping, "wrong-type-then-cut": `{"action":5}` + `{"action":"pi`, "array": `[1,2,3]`,
		"number": "12", "trailing-garbage": ping + " x", "null-then-cut": "null\n{", "deep-cut": strings.Repeat(`{"payload":`, 50),
		"bad-utf8-cut": "{\"action\":\"\xff", "complete": ping + "\n" + build + "\n",
	}
	names := make([]string, 0, len(streams))
	for n := range streams {
		names = append(names, n)
	}
	sort.Strings(names)
	for _, n := range names {
		o, msg := runStream(bulkBin, []byte(streams[n]))
		if o == "skipped" {
			return fmt.Errorf("bulk process could not be run: %s", msg)
		}
		w.Emit(crashEvent{K: "bulk", Src: "stream", Mut: n, Steps: []crashStep{{Op: "bulk-stream", Out: o, Msg: msg}}})
	}
	return nil
}

func runStream(bulkBin string, in []byte) (string, string) {
	ctx, cancel := context.WithTimeout(context.Background(), 20*time.Second)
	defer cancel()
	cmd := exec.CommandContext(ctx, bulkBin)
	cmd.Stdin = bytes.NewReader(in)
	var stderr bytes.Buffer
	cmd.Stderr = &stderr
	pipe, err := cmd.StdoutPipe()
	if err != nil {
		return "skipped", err.Error()
	}
	if err := cmd.Start(); err != nil {
		return "skipped", err.Error()
	}
	const limit = 8 << 20
	outB, _ := io.ReadAll(io.LimitReader(pipe, limit))
	if len(outB) >= limit {
		cmd.Process.Kill()
		cmd.Wait()
		return "hang", fmt.Sprintf("more than %d bytes of responses for %d bytes of requests", limit, len(in))
	}
	cmd.Wait()
	if ctx.Err() != nil {
		return "hang", "still running after 20s"
	}
	se := stderr.String()
	if p := strings.Index(se, "panic:"); p >= 0 {
		return "panic", siteFromStack(se[p:])
	}
	if strings.Contains(se, "fatal error:") {
		return "no-response", "fatal error"
	}
	lines := bytes.Split(bytes.TrimSpace(outB), []byte("\n"))
	var last struct {
		IsFinal bool `json:"is_final"`
	}
	if len(lines) == 0 || json.Unmarshal(lines[len(lines)-1], &last) != nil || !last.IsFinal {
		return "no-response", "the stream of responses does not end with the final marker"
	}
	return "ok", ""
}

func init() {
	register("crash-run", func(args []string) error {
		fs := flag.NewFlagSet("crash-run", flag.ExitOnError)
		repo := fs.String("repo", "/repo", "repository")
		plan := fs.String("plan", "", "mutation plan from TLC")
		seed := fs.Int64("seed", 1, "seed")
		capd := fs.Int("cap", 150, "max mutants per document (0 = all)")
		nb := fs.Int("bytes", 2000, "arbitrary byte inputs")
		bulk := fs.String("bulk", "", "goblverif binary")
		out := fs.String("out", "", "events ndjson")
		cur := fs.String("cur", "", "file that always holds the input being processed")
		cli := fs.String("cli", "", "gobl command: a sample of the mutants is given to it too")
		cliEach := fs.Int("cli-every", 25, "one mutant in this many goes to the command line")
		fs.Parse(args)
		crashCur, crashCLI, crashCLIEach = *cur, *cli, *cliEach
		return crashRun(*repo, *plan, *seed, *capd, *nb, *bulk, *out)
	})
	// crash-one: the pipeline on one input (replay of an input that aborted the process)
	register("crash-one", func(args []string) error {
		fs := flag.NewFlagSet("crash-one", flag.ExitOnError)
		file := fs.String("file", "", "input")
		fs.Parse(args)
		data, err := os.ReadFile(*file)
		if err != nil {
			return err
		}
		for _, st := range runPipeline(data) {
			fmt.Printf("%s=%s %s\n", st.Op, st.Out, st.Msg)
		}
		return nil
	})
}
