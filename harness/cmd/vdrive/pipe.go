package main

// pipe: drivers for Pipeline.tla (C04).  Operation sequences exported by TLC
// are replayed on every example document (sources and calculated envelopes),
// structure-aware variants of them and generated invoices; after every step
// the serialised envelope and its digest are logged as identities.

import (
	"crypto/sha256"
	"encoding/hex"
	"encoding/json"
	"flag"
	"fmt"
	"math/rand"
	"os"
	"os/exec"
	"path/filepath"
	"regexp"
	"sort"
	"strings"
	"sync"

	"github.com/invopop/gobl"
	"github.com/invopop/gobl/cbc"
	"github.com/invopop/gobl/dsig"
	"github.com/invopop/gobl/head"
	"github.com/invopop/gobl/schema"
	"github.com/invopop/gobl/uuid"
	"github.com/invopop/yaml"
	"goblverif/internal/tr"
)

type pipeEvent struct {
	Tr    int    `json:"tr"`
	N     int    `json:"n"`
	Doc   string `json:"doc"`
	Op    string `json:"op"`
	Ok    bool   `json:"ok"`
	Panic bool   `json:"panic"`
	B     int    `json:"b"`
	D     int    `json:"d"`
	CB    int    `json:"cb"`
	Err   string `json:"err"`
}

type pipeInput struct {
	name   string
	data   []byte // JSON
	signed bool   // a signed envelope: the observers are run on it as it is
}

// signedVariant: the input enveloped, calculated, given a header with lists that are not in any sorted order
// (tags, links, stamps, meta) and signed
func signedVariant(in pipeInput, key *dsig.PrivateKey) (pipeInput, bool) {
	env, err := pipeLoad(in.data)
	if err != nil || env.Signed() || env.Calculate() != nil {
		return pipeInput{}, false
	}
	env.Head.Tags = []string{"zeta", "alpha", "mid", "beta"}
	env.Head.Meta = cbc.Meta{"zz": "1", "aa": "2", "mm": "3"}
	env.Head.Notes = "n"
	env.Head.Links = []*head.Link{{Key: "zlink", URL: "https://example.com/z"}, {Key: "alink", URL: "https://example.com/a"}}
	if env.Sign(key) != nil {
		return pipeInput{}, false
	}
	env.Head.Stamps = []*head.Stamp{{Provider: "zprov", Value: "1"}, {Provider: "aprov", Value: "2"}}
	b, err := json.Marshal(env)
	if err != nil {
		return pipeInput{}, false
	}
	return pipeInput{name: in.name + "#signed", data: b, signed: true}, true
}

var amountText = regexp.MustCompile(`^-?[0-9]+\.[0-9]+$`)

var fixedHeadUUID = uuid.MustParse("0190d2c4-0000-7000-8000-0000000000aa")

func toJSON(path string, raw []byte) ([]byte, error) {
	if strings.HasSuffix(path, ".yaml") || strings.HasSuffix(path, ".yml") {
		return yaml.YAMLToJSON(raw)
	}
	return raw, nil
}

// pipeLoad turns input JSON into an envelope without calculating it.
func pipeLoad(data []byte) (*gobl.Envelope, error) {
	var probe struct {
		Schema string `json:"$schema"`
	}
	if err := json.Unmarshal(data, &probe); err != nil {
		return nil, err
	}
	if strings.HasSuffix(probe.Schema, "/envelope") {
		env := new(gobl.Envelope)
		if err := json.Unmarshal(data, env); err != nil {
			return nil, err
		}
		if env.Head == nil || env.Document == nil {
			return nil, fmt.Errorf("incomplete envelope")
		}
		return env, nil
	}
	obj := new(schema.Object)
	if err := json.Unmarshal(data, obj); err != nil {
		return nil, err
	}
	if obj.IsEmpty() {
		return nil, fmt.Errorf("unknown or empty document")
	}
	env := gobl.NewEnvelope()
	env.Head.UUID = fixedHeadUUID
	env.Document = obj
	return env, nil
}

type idTable struct{ m map[string]int }

func (t *idTable) id(b []byte) int {
	h := sha256.Sum256(b)
	k := hex.EncodeToString(h[:])
	if v, ok := t.m[k]; ok {
		return v
	}
	t.m[k] = len(t.m) + 1
	return t.m[k]
}

func envBytes(env *gobl.Envelope) []byte {
	b, err := json.Marshal(env)
	if err != nil {
		return []byte("marshal-error:" + err.Error())
	}
	return b
}
func digBytes(env *gobl.Envelope) []byte {
	if env.Head == nil || env.Head.Digest == nil {
		return []byte("none")
	}
	return []byte(env.Head.Digest.String())
}

// calcInFreshEnvelope loads and calculates the input once (used by other goroutines / processes).
func calcFresh(data []byte) ([]byte, error) {
	env, err := pipeLoad(data)
	if err != nil {
		return nil, err
	}
	if err := env.Calculate(); err != nil {
		return nil, err
	}
	return envBytes(env), nil
}

func pipeRunTrace(w *tr.Writer, trid int, in pipeInput, ops []string, self string, scratch string) {
	ids := &idTable{m: map[string]int{}}
	n := 0
	var env *gobl.Envelope
	emit := func(op string, ok bool, pan bool, cb int, err string) {
		b, d := 0, 0
		if env != nil {
			b, d = ids.id(envBytes(env)), ids.id(digBytes(env))
		}
		w.Emit(pipeEvent{Tr: trid, N: n, Doc: in.name, Op: op, Ok: ok, Panic: pan, B: b, D: d, CB: cb, Err: err})
		n++
	}
	var lerr error
	func() {
		defer func() {
			if p := recover(); p != nil {
				lerr = fmt.Errorf("panic:%v", p)
			}
		}()
		env, lerr = pipeLoad(in.data)
	}()
	if lerr != nil {
		env = nil
		emit("Load", false, strings.HasPrefix(lerr.Error(), "panic"), 0, lerr.Error())
		return
	}
	emit("Load", true, false, 0, "")
	calculated := false
	for _, op := range ops {
		ok, pan, cb, errs := true, false, 0, ""
		func() {
			defer func() {
				if p := recover(); p != nil {
					ok, pan, errs = false, true, fmt.Sprintf("panic:%v", p)
				}
			}()
			switch op {
			case "Calculate":
				if err := env.Calculate(); err != nil {
					ok, errs = false, err.Error()
				} else {
					calculated = true
				}
			case "Reserialise":
				data := envBytes(env)
				e2 := new(gobl.Envelope)
				if err := json.Unmarshal(data, e2); err != nil {
					ok, errs = false, err.Error()
				} else {
					env = e2
				}
			case "Validate":
				_ = env.Validate()
			case "Digest":
				_, _ = env.Digest()
			case "Verify":
				_ = env.Verify()
			case "Extract":
				_ = env.Extract()
			case "Clone":
				c, err := env.Document.Clone()
				if err != nil {
					ok, errs = false, err.Error()
				} else {
					e2 := *env
					e2.Document = c
					cb = ids.id(envBytes(&e2))
				}
			case "OtherGoroutine":
				if !calculated {
					ok = false
					return
				}
				var wg sync.WaitGroup
				outs := make([][]byte, 4)
				for g := range outs {
					wg.Add(1)
					go func(g int) {
						defer wg.Done()
						defer func() { recover() }()
						outs[g], _ = calcFresh(in.data)
					}(g)
				}
				wg.Wait()
				cb = ids.id(envBytes(env))
				for _, o := range outs {
					if o == nil || ids.id(o) != cb {
						cb = ids.id(append([]byte("differs:"), o...))
						break
					}
				}
			case "OtherProcess":
				if !calculated {
					ok = false
					return
				}
				f := filepath.Join(scratch, "pipe-one.json")
				if err := os.WriteFile(f, in.data, 0o600); err != nil {
					ok, errs = false, "harness:"+err.Error()
					return
				}
				out, err := exec.Command(self, "pipe-one", "-file", f).Output()
				if err != nil {
					ok, errs = false, "other process: "+err.Error()
					return
				}
				cb = ids.id(out)
			}
		}()
		emit(op, ok, pan, cb, errs)
	}
}

// ---- inputs ------------------------------------------------------------------------------

func withUUID(m map[string]any) {
	if _, ok := m["uuid"]; !ok {
		if s, _ := m["$schema"].(string); strings.Contains(s, "/bill/") || strings.Contains(s, "/note/") {
			m["uuid"] = "0190d2c4-6e2e-7c0c-9d1e-0a1b2c3d4e5f"
		}
	}
}

func docOf(m map[string]any) map[string]any {
	if s, _ := m["$schema"].(string); strings.HasSuffix(s, "/envelope") {
		if d, ok := m["doc"].(map[string]any); ok {
			return d
		}
	}
	return m
}

func deepCopy(x any) any {
	b, _ := json.Marshal(x)
	var y any
	json.Unmarshal(b, &y)
	return y
}

// variants: structure-aware mutations that usually stay calculable
func pipeVariants(name string, data []byte) []pipeInput {
	var base map[string]any
	if json.Unmarshal(data, &base) != nil {
		return nil
	}
	var out []pipeInput
	add := func(tag string, f func(doc map[string]any) bool) {
		m := deepCopy(base).(map[string]any)
		if f(docOf(m)) {
			b, _ := json.Marshal(m)
			out = append(out, pipeInput{name: name + "#" + tag, data: b})
		}
	}
	// an envelope whose digest value is written in upper-case hexadecimal digits (as another implementation may do)
	if h, ok := base["head"].(map[string]any); ok {
		if dg, ok := h["dig"].(map[string]any); ok {
			if v, ok := dg["val"].(string); ok && strings.ToUpper(v) != v {
				m := deepCopy(base).(map[string]any)
				m["head"].(map[string]any)["dig"].(map[string]any)["val"] = strings.ToUpper(v)
				b, _ := json.Marshal(m)
				out = append(out, pipeInput{name: name + "#upper-digest", data: b})
			}
		}
	}
	// an envelope whose header has two links with the same key: it is refused, and left as it is
	if h, ok := base["head"].(map[string]any); ok {
		m := deepCopy(base).(map[string]any)
		m["head"].(map[string]any)["links"] = []any{map[string]any{"key": "ref", "url": "https://example.com/first"},
			map[string]any{"key": "other", "url": "https://example.com/other"}, map[string]any{"key": "ref", "url": "https://example.com/second"}}
		_ = h
		b, _ := json.Marshal(m)
		out = append(out, pipeInput{name: name + "#duplicate-links", data: b})
	}
	// every tax combination names the document's own country explicitly
	add("home-country", func(doc map[string]any) bool {
		home, _ := doc["$regime"].(string)
		if home == "" {
			if sup, ok := doc["supplier"].(map[string]any); ok {
				if tid, ok := sup["tax_id"].(map[string]any); ok {
					home, _ = tid["country"].(string)
				}
			}
		}
		ls, ok := doc["lines"].([]any)
		if home == "" || !ok {
			return false
		}
		hit := false
		for _, l := range ls {
			lm, _ := l.(map[string]any)
			ts, _ := lm["taxes"].([]any)
			for _, t := range ts {
				if tm, ok := t.(map[string]any); ok && tm["country"] == nil {
					tm["country"] = home
					hit = true
				}
			}
		}
		return hit
	})
	// duplicate the last element of every top-level array
	keys := []string{}
	for k, v := range docOf(base) {
		if a, ok := v.([]any); ok && len(a) > 0 {
			keys = append(keys, k)
		}
	}
	sort.Strings(keys)
	for _, k := range keys {
		k := k
		add("dup-"+k, func(doc map[string]any) bool {
			a := doc[k].([]any)
			doc[k] = append(a, deepCopy(a[len(a)-1]))
			return true
		})
	}
	// the document's own tax summary as the summary of a preceding document
	add("preceding-tax", func(doc map[string]any) bool {
		tot, ok := doc["totals"].(map[string]any)
		if !ok || tot["taxes"] == nil {
			return false
		}
		doc["preceding"] = []any{map[string]any{"code": "PREV-1", "issue_date": "2020-01-01", "tax": deepCopy(tot["taxes"])}}
		return true
	})
	// identifiers written the way people write them: separators, symbols, spaces, lower case
	for ci, code := range []string{"2024/#/001", "A-$-B", " inv  001 ", "x//y--z", "fa.2024.0001", "ab_#_/_cd", "é-1/2"} {
		code := code
		add(fmt.Sprintf("code-%d", ci), func(doc map[string]any) bool {
			if _, ok := doc["code"]; !ok {
				return false
			}
			doc["code"] = code
			if _, ok := doc["series"]; ok {
				doc["series"] = code
			}
			return true
		})
	}
	// every amount written with one more (zero) decimal than it has: the same value, another precision
	add("amount-zeros", func(doc map[string]any) bool {
		hit := false
		var walk func(x any) any
		walk = func(x any) any {
			switch v := x.(type) {
			case map[string]any:
				for k, e := range v {
					if k != "code" && k != "uuid" && k != "val" {
						v[k] = walk(e)
					}
				}
			case []any:
				for i, e := range v {
					v[i] = walk(e)
				}
			case string:
				if amountText.MatchString(v) {
					hit = true
					return v + "0"
				}
			}
			return x
		}
		walk(doc)
		return hit
	})
	// a payment means key extended twice
	add("means-extended", func(doc map[string]any) bool {
		pm, ok := doc["payment"].(map[string]any)
		if !ok {
			return false
		}
		in, ok := pm["instructions"].(map[string]any)
		if !ok || in["key"] == nil {
			return false
		}
		in["key"] = "credit-transfer+sepa+instant"
		delete(in, "ext")
		return true
	})
	// a rounding given with more decimals than the currency has (it is an input that stays between calculations)
	for ri, rv := range []string{"0.004", "-0.0049", "0.0051"} {
		rv := rv
		add(fmt.Sprintf("fine-rounding-%d", ri), func(doc map[string]any) bool {
			if _, ok := doc["lines"].([]any); !ok {
				return false
			}
			doc["totals"] = map[string]any{"rounding": rv}
			return true
		})
	}
	// one more decimal on every price
	add("price-decimals", func(doc map[string]any) bool {
		ls, ok := doc["lines"].([]any)
		if !ok {
			return false
		}
		hit := false
		for _, l := range ls {
			if lm, ok := l.(map[string]any); ok {
				if it, ok := lm["item"].(map[string]any); ok {
					if p, ok := it["price"].(string); ok {
						if !strings.Contains(p, ".") {
							p += "."
						}
						it["price"] = p + "5"
						hit = true
					}
				}
			}
		}
		return hit
	})
	return out
}

func pipeInputs(repo string, seed int64, ngen int) ([]pipeInput, error) {
	var ins []pipeInput
	var files []string
	filepath.Walk(filepath.Join(repo, "examples"), func(p string, info os.FileInfo, err error) error {
		if err == nil && !info.IsDir() && (strings.HasSuffix(p, ".yaml") || strings.HasSuffix(p, ".json")) {
			files = append(files, p)
		}
		return nil
	})
	sort.Strings(files)
	for _, f := range files {
		raw, err := os.ReadFile(f)
		if err != nil {
			return nil, err
		}
		data, err := toJSON(f, raw)
		if err != nil {
			continue
		}
		var m map[string]any
		if json.Unmarshal(data, &m) != nil {
			continue
		}
		withUUID(docOf(m))
		data, _ = json.Marshal(m)
		name, _ := filepath.Rel(repo, f)
		ins = append(ins, pipeInput{name: name, data: data})
		ins = append(ins, pipeVariants(name, data)...)
	}
	// signed envelopes made from a spread of the inputs so far
	key := dsig.NewES256Key()
	nsig := 0
	for i := 0; i < len(ins) && nsig < 24; i += 1 + len(ins)/40 {
		if sv, ok := signedVariant(ins[i], key); ok {
			ins = append(ins, sv)
			nsig++
		}
	}
	r := rand.New(rand.NewSource(seed))
	for i := 0; i < ngen; i++ {
		d := randDoc(r)
		normDoc(&d)
		b, err := docJSON(d, []string{"invoice", "order", "delivery"}[r.Intn(3)], "ES", true)
		if err == nil {
			ins = append(ins, pipeInput{name: fmt.Sprintf("generated-%d", i), data: b})
			// foreign-currency items priced through an alternative price instead of an exchange rate
			var m map[string]any
			if json.Unmarshal(b, &m) == nil {
				hit := false
				for _, l := range m["lines"].([]any) {
					it := l.(map[string]any)["item"].(map[string]any)
					if _, ok := it["currency"]; ok {
						alts := []string{"8.5", "12", "0.125", "1050.5", "3.10"}
						it["alt_prices"] = []any{map[string]any{"currency": m["currency"], "value": alts[r.Intn(len(alts))]}}
						hit = true
					}
				}
				if hit {
					delete(m, "exchange_rates")
					b2, _ := json.Marshal(m)
					ins = append(ins, pipeInput{name: fmt.Sprintf("generated-%d#alt-price", i), data: b2})
				}
			}
		}
	}
	return ins, nil
}

func pipeRun(repo, seqFile string, perDoc int, seed int64, ngen int, procEvery int, out, scratch string) error {
	w, err := tr.NewWriter(out)
	if err != nil {
		return err
	}
	var seqs [][]string
	err = tr.ReadLines(seqFile, func(line []byte) error {
		var s struct {
			Ops []string `json:"ops"`
		}
		if err := json.Unmarshal(line, &s); err != nil {
			return err
		}
		seqs = append(seqs, s.Ops)
		return nil
	})
	if err != nil {
		return err
	}
	ins, err := pipeInputs(repo, seed, ngen)
	if err != nil {
		return err
	}
	self, _ := os.Executable()
	r := rand.New(rand.NewSource(seed))
	trid := 0
	for di, in := range ins {
		for k := 0; k < perDoc; k++ {
			ops := append([]string{}, seqs[(di*perDoc+k+int(seed)*7919)%len(seqs)]...)
			if k == 0 {
				// always start one trace with the plain pipeline and the cross-goroutine / cross-process comparison
				// (the observers first, on the document as it was read)
				ops = []string{"Validate", "Extract", "Digest", "Calculate", "Reserialise", "Calculate", "OtherGoroutine"}
				if procEvery > 0 && di%procEvery == 0 {
					ops = append(ops, "OtherProcess")
				}
				ops = append(ops, "Validate", "Calculate")
				if in.signed {
					ops = []string{"Verify", "Reserialise", "Validate", "Verify", "Digest", "Extract", "Reserialise", "Clone"}
				}
			} else if in.signed {
				// the model's sequence without the steps that a signed envelope refuses
				var keep []string
				for _, o := range ops {
					if o != "Calculate" && o != "OtherGoroutine" && o != "OtherProcess" {
						keep = append(keep, o)
					}
				}
				ops = append(keep, "Verify")
			} else if r.Intn(3) == 0 {
				ops = append([]string{"Calculate"}, ops...)
			}
			trid++
			pipeRunTrace(w, trid, in, ops, self, scratch)
		}
	}
	fmt.Printf("events=%d traces=%d inputs=%d\n", w.N, trid, len(ins))
	return w.Close()
}

func init() {
	register("pipe-run", func(args []string) error {
		fs := flag.NewFlagSet("pipe-run", flag.ExitOnError)
		repo := fs.String("repo", "/repo", "repository (examples are read from it)")
		seqs := fs.String("seqs", "", "operation sequences from TLC")
		per := fs.Int("per-doc", 8, "sequences per document")
		seed := fs.Int64("seed", 1, "seed")
		ngen := fs.Int("gen", 50, "generated documents")
		pe := fs.Int("proc-every", 3, "compare with a fresh process for every n-th input (0 = never)")
		out := fs.String("out", "", "events ndjson")
		scratch := fs.String("work", ".", "scratch dir")
		fs.Parse(args)
		return pipeRun(*repo, *seqs, *per, *seed, *ngen, *pe, *out, *scratch)
	})
	register("pipe-one", func(args []string) error {
		fs := flag.NewFlagSet("pipe-one", flag.ExitOnError)
		file := fs.String("file", "", "input JSON")
		fs.Parse(args)
		data, err := os.ReadFile(*file)
		if err != nil {
			return err
		}
		out, err := calcFresh(data)
		if err != nil {
			return err
		}
		os.Stdout.Write(out)
		return nil
	})
}
