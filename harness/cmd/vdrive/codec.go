package main

// codec: drivers for NumCodec.tla (C06).  Texts are logged as code point
// arrays.  read events: one reader applied to one input text; rt events: a
// value written, read back and written again.

import (
	"encoding/json"
	"flag"
	"fmt"
	"math"
	"math/rand"
	"os"
	"path/filepath"
	"regexp/syntax"

	"github.com/invopop/gobl/num"
	"goblverif/internal/tr"
)

type readEvent struct {
	K  string `json:"k"`
	Ty string `json:"ty"`
	Rd string `json:"rd"`
	In []int  `json:"in"`
	Ok bool   `json:"ok"`
	V  tr.Big `json:"v"`
	E  int    `json:"e"`
}

type rtEvent struct {
	K    string `json:"k"`
	Ty   string `json:"ty"`
	Wr   string `json:"wr"`
	A    tr.Amt `json:"a"`
	Out  []int  `json:"out"`
	Ok   bool   `json:"ok"`
	V    tr.Big `json:"v"`
	E    int    `json:"e"`
	Out2 []int  `json:"out2"`
}

func cps(s string) []int {
	out := []int{}
	for _, r := range s {
		out = append(out, int(r))
	}
	return out
}
func fromCps(c []int) string {
	rs := make([]rune, len(c))
	for i, x := range c {
		rs[i] = rune(x)
	}
	return string(rs)
}

var codecReaders = []string{"string", "text", "json-quoted", "json-bare"}

func codecRead(ty, rd, s string) (ev readEvent) {
	ev = readEvent{K: "read", Ty: ty, Rd: rd, In: cps(s), V: tr.BigOfInt(0)}
	defer func() {
		if r := recover(); r != nil {
			ev.Ok, ev.Rd = false, rd+"!panic"
		}
	}()
	var a num.Amount
	var p num.Percentage
	var err error
	switch rd {
	case "string":
		if ty == "amount" {
			a, err = num.AmountFromString(s)
		} else {
			p, err = num.PercentageFromString(s)
		}
	case "text":
		if ty == "amount" {
			err = (&a).UnmarshalText([]byte(s))
		} else {
			err = (&p).UnmarshalText([]byte(s))
		}
	case "json-quoted":
		q, _ := json.Marshal(s)
		if ty == "amount" {
			err = json.Unmarshal(q, &a)
		} else {
			err = json.Unmarshal(q, &p)
		}
	case "json-bare":
		if ty == "amount" {
			err = json.Unmarshal([]byte(s), &a)
		} else {
			err = json.Unmarshal([]byte(s), &p)
		}
	}
	if err != nil {
		return ev
	}
	ev.Ok = true
	if ty == "amount" {
		ev.V, ev.E = tr.BigOfInt(a.Value()), int(a.Exp())
	} else {
		ev.V, ev.E = tr.BigOfInt(p.Value()), int(p.Exp())
	}
	return ev
}

func codecReplay(in, out string) error {
	w, err := tr.NewWriter(out)
	if err != nil {
		return err
	}
	err = tr.ReadLines(in, func(line []byte) error {
		var c struct {
			In []int `json:"in"`
		}
		if err := json.Unmarshal(line, &c); err != nil {
			return err
		}
		s := fromCps(c.In)
		for _, ty := range []string{"amount", "percentage"} {
			for _, rd := range codecReaders {
				w.Emit(codecRead(ty, rd, s))
			}
		}
		return nil
	})
	if err != nil {
		return err
	}
	fmt.Printf("events=%d\n", w.N)
	return w.Close()
}

func codecRT(ty, wr string, v int64, e uint32) (ev rtEvent) {
	ev = rtEvent{K: "rt", Ty: ty, Wr: wr, A: tr.Amt{V: tr.BigOfInt(v), E: int(e)}, V: tr.BigOfInt(0), Out: []int{}, Out2: []int{}}
	defer func() {
		if r := recover(); r != nil {
			ev.Ok, ev.Wr = false, wr+"!panic"
		}
	}()
	var text string
	var back, back2 string
	if ty == "amount" {
		a := num.MakeAmount(v, e)
		var b num.Amount
		var err error
		switch wr {
		case "String":
			text = a.String()
			b, err = num.AmountFromString(text)
		case "MarshalText":
			t, _ := a.MarshalText()
			text = string(t)
			err = (&b).UnmarshalText(t)
		case "json":
			t, merr := json.Marshal(a)
			if merr != nil {
				err = merr
			}
			text = string(t)
			if err == nil {
				err = json.Unmarshal(t, &b)
			}
		}
		ev.Out = cps(text)
		if err != nil {
			return ev
		}
		ev.Ok, ev.V, ev.E = true, tr.BigOfInt(b.Value()), int(b.Exp())
		back = b.String()
		if wr == "json" {
			t, _ := json.Marshal(b)
			back = string(t)
		}
		ev.Out2 = cps(back)
		return ev
	}
	p := num.MakePercentage(v, e)
	var q num.Percentage
	var err error
	switch wr {
	case "String":
		text = p.String()
		q, err = num.PercentageFromString(text)
	case "MarshalText":
		t, _ := p.MarshalText()
		text = string(t)
		err = (&q).UnmarshalText(t)
	case "json":
		t, merr := json.Marshal(p)
		if merr != nil {
			err = merr
		}
		text = string(t)
		if err == nil {
			err = json.Unmarshal(t, &q)
		}
	}
	ev.Out = cps(text)
	if err != nil {
		return ev
	}
	ev.Ok, ev.V, ev.E = true, tr.BigOfInt(q.Value()), int(q.Exp())
	back2 = q.String()
	if wr == "json" {
		t, _ := json.Marshal(q)
		back2 = string(t)
	}
	ev.Out2 = cps(back2)
	return ev
}

// codecPatterns writes the patterns published for num/amount and num/percentage as syntax trees
func codecPatterns(repo, out string) error {
	res := map[string]any{"ok": true}
	for name, file := range map[string]string{"amount": "num/amount.json", "percentage": "num/percentage.json"} {
		raw, err := os.ReadFile(filepath.Join(repo, "data", "schemas", file))
		if err != nil {
			return err
		}
		var doc map[string]any
		if err := json.Unmarshal(raw, &doc); err != nil {
			return err
		}
		pat := ""
		var find func(x any)
		find = func(x any) {
			switch v := x.(type) {
			case map[string]any:
				if p, ok := v["pattern"].(string); ok && pat == "" {
					pat = p
				}
				for _, y := range v {
					find(y)
				}
			case []any:
				for _, y := range v {
					find(y)
				}
			}
		}
		find(doc)
		re, err := syntax.Parse(pat, syntax.Perl)
		if err != nil || pat == "" {
			res["ok"] = false
			res[name] = &reNode{Op: "empty", R: []int{}, S: []*reNode{}}
			continue
		}
		t, err := reTree(re)
		if err != nil {
			res["ok"] = false
			t = &reNode{Op: "empty", R: []int{}, S: []*reNode{}}
		}
		res[name] = t
		res[name+"_src"] = pat
	}
	b, _ := json.Marshal(res)
	return os.WriteFile(out, b, 0o644)
}

func codecRecord(seed int64, n int, out string) error {
	r := rand.New(rand.NewSource(seed))
	w, err := tr.NewWriter(out)
	if err != nil {
		return err
	}
	wrs := []string{"String", "MarshalText", "json"}
	// boundary values for every exponent 0..18
	bvals := []int64{0, 1, -1, 9, -9, 10, -10, math.MaxInt64, math.MinInt64, math.MaxInt64 - 1, math.MinInt64 + 1}
	p := int64(1)
	for k := 1; k <= 18; k++ {
		p *= 10
		bvals = append(bvals, p, -p, p-1, -(p - 1), p+1, -(p + 1))
	}
	// exponents up to 30 and a few far beyond: no power of ten above 10^18 fits in 64 bits, the text must still be right
	exps := []uint32{40, 63, 64, 65, 100, 999}
	for e := uint32(0); e <= 30; e++ {
		exps = append(exps, e)
	}
	for _, e := range exps {
		for _, v := range bvals {
			for _, wr := range wrs {
				w.Emit(codecRT("amount", wr, v, e))
			}
		}
	}
	// percentages: inside the 2^52 domain of the *100 intermediate
	plim := int64(1) << 52 / 100
	for e := uint32(0); e <= 9; e++ {
		for _, v := range bvals {
			if v > plim || v < -plim {
				continue
			}
			for _, wr := range wrs {
				w.Emit(codecRT("percentage", wr, v, e))
			}
		}
	}
	for w.N < n {
		var v int64
		switch r.Intn(4) {
		case 0:
			v = int64(r.Intn(100000)) - 50000
		case 1:
			v = r.Int63() - r.Int63()
		case 2:
			v = int64(r.Uint64())
		default:
			v = r.Int63n(1<<40) - (1 << 39)
		}
		if r.Intn(2) == 0 {
			w.Emit(codecRT("amount", wrs[r.Intn(3)], v, uint32(r.Intn(31))))
		} else {
			if v > plim || v < -plim {
				v %= plim
			}
			w.Emit(codecRT("percentage", wrs[r.Intn(3)], v, uint32(r.Intn(10))))
		}
	}
	// over-long digit strings around 2^63 in either part
	longs := []string{
		"9223372036854775807", "9223372036854775808", "-9223372036854775808", "-9223372036854775809",
		"92233720368547758.07", "92233720368547758.08", "-92233720368547758.08", "18446744073709551616",
		"0.9223372036854775807", "0.9223372036854775808", "1.0000000000000000001", "99999999999.99999999999",
		"0.0000000000000000001", "0.00000000000000000000000001", "123456789012345678901234567890",
		"0.9999999999999999999", "0.18446744073709551615", "1.8446744073709551616", "9223372036854775807.0",
		"922337203685477580.7", "922337203685477580.8", "-922337203685477580.8", "00000000000000000000001",
		"0.10000000000000000000", "1000000000000000000.0", "100000000000000000.00", "-0", "-0.0", "0.0",
	}
	for i := 0; i < 200; i++ {
		// random 17-22 digit strings with a dot at a random place
		nd := 17 + r.Intn(6)
		b := make([]byte, nd)
		for j := range b {
			b[j] = byte('0' + r.Intn(10))
		}
		s := string(b)
		if r.Intn(3) > 0 {
			d := 1 + r.Intn(nd-1)
			s = s[:d] + "." + s[d:]
		}
		if r.Intn(2) == 0 {
			s = "-" + s
		}
		longs = append(longs, s)
	}
	for _, s := range longs {
		for _, rd := range codecReaders {
			w.Emit(codecRead("amount", rd, s))
			w.Emit(codecRead("percentage", rd, s+"%"))
		}
	}
	fmt.Printf("events=%d\n", w.N)
	return w.Close()
}

func init() {
	register("codec-replay", func(args []string) error {
		fs := flag.NewFlagSet("codec-replay", flag.ExitOnError)
		in := fs.String("in", "", "strings ndjson")
		out := fs.String("out", "", "events ndjson")
		fs.Parse(args)
		return codecReplay(*in, *out)
	})
	register("codec-patterns", func(args []string) error {
		fs := flag.NewFlagSet("codec-patterns", flag.ExitOnError)
		repo := fs.String("repo", "/repo", "repository")
		out := fs.String("out", "", "patterns json")
		fs.Parse(args)
		return codecPatterns(*repo, *out)
	})
	register("codec-record", func(args []string) error {
		fs := flag.NewFlagSet("codec-record", flag.ExitOnError)
		seed := fs.Int64("seed", 1, "seed")
		n := fs.Int("n", 1000, "events")
		out := fs.String("out", "", "events ndjson")
		fs.Parse(args)
		return codecRecord(*seed, *n, *out)
	})
}
