package main

// taxd: drivers for TaxTotals.tla (C02, C20): building a tax summary from
// taxable rows with tax.TotalCalculator, and Total.Merge / Total.Negate.

import (
	"encoding/json"
	"flag"
	"fmt"
	"math/rand"
	"sort"
	"strings"

	"github.com/invopop/gobl/bill"
	"github.com/invopop/gobl/cal"
	"github.com/invopop/gobl/cbc"
	"github.com/invopop/gobl/currency"
	"github.com/invopop/gobl/l10n"
	"github.com/invopop/gobl/num"
	"github.com/invopop/gobl/org"
	"github.com/invopop/gobl/tax"
	"goblverif/internal/tr"

	_ "github.com/invopop/gobl/regimes"
)

type jCombo struct {
	Cat     string   `json:"cat"`
	Ret     bool     `json:"ret"`
	Key     string   `json:"key"`
	Country string   `json:"country"`
	Ext     string   `json:"ext"`
	Pct     []tr.Amt `json:"pct"`
	Sur     []tr.Amt `json:"sur"`
	// Stale: a percentage (and surcharge) the input still carries although the rate key says exempt
	// (a document calculated before and then edited); it must be dropped, the specification never looks at it
	Stale []tr.Amt `json:"stale,omitempty"`
}
type jRow struct {
	Total tr.Amt   `json:"total"`
	Taxes []jCombo `json:"taxes"`
}
type jSur struct {
	Pct    tr.Amt `json:"pct"`
	Amount tr.Amt `json:"amount"`
}
type jRate struct {
	Key     string   `json:"key"`
	Country string   `json:"country"`
	Ext     string   `json:"ext"`
	Base    tr.Amt   `json:"base"`
	Pct     []tr.Amt `json:"pct"`
	Sur     []jSur   `json:"sur"`
	Amount  tr.Amt   `json:"amount"`
}
type jCat struct {
	Code    string   `json:"code"`
	Ret     bool     `json:"ret"`
	Rates   []jRate  `json:"rates"`
	Amount  tr.Amt   `json:"amount"`
	Sur     []tr.Amt `json:"sur"`
	PAmount tr.Amt   `json:"pamount"`
}
type jSummary struct {
	Cats []jCat `json:"cats"`
	Sum  tr.Amt `json:"sum"`
	PSum tr.Amt `json:"psum"`
}
type taxCase struct {
	// CC: the country the calculator works for ("" = ES); combos naming it lose their country, combos naming
	// another code keep it -- also when that code is an alternative code of the same regime (GR for EL, XI for GB)
	CC   string `json:"cc,omitempty"`
	CD   int    `json:"cd"`
	RR   string `json:"rr"`
	Inc  string `json:"inc"`
	Rows []jRow `json:"rows"`
}
type taxEvent struct {
	K    string    `json:"k"`
	CD   int       `json:"cd"`
	RR   string    `json:"rr"`
	Inc  string    `json:"inc"`
	Rows []jRow    `json:"rows"`
	Ok   bool      `json:"ok"`
	Err  string    `json:"err"`
	Out  jSummary  `json:"out"`
	A    *jSummary `json:"a,omitempty"`
	B    *jSummary `json:"b,omitempty"`
	A2   *jSummary `json:"a2,omitempty"`
	B2   *jSummary `json:"b2,omitempty"`
}

func extString(e tax.Extensions) string {
	ks := []string{}
	for k, v := range e {
		ks = append(ks, string(k)+"="+string(v))
	}
	sort.Strings(ks)
	return strings.Join(ks, ";")
}
func extParse(s string) tax.Extensions {
	if s == "" {
		return nil
	}
	e := tax.Extensions{}
	for _, kv := range strings.Split(s, ";") {
		p := strings.SplitN(kv, "=", 2)
		e[cbc.Key(p[0])] = cbc.Code(p[1])
	}
	return e
}
func optPct(p *num.Percentage) []tr.Amt {
	if p == nil {
		return []tr.Amt{}
	}
	return []tr.Amt{pctBase(*p)}
}

type taxRow struct {
	total num.Amount
	taxes tax.Set
}

func (r *taxRow) GetTaxes() tax.Set    { return r.taxes }
func (r *taxRow) GetTotal() num.Amount { return r.total }

var cdCurrency = map[int]currency.Code{0: "JPY", 2: "EUR", 3: "KWD"}

func retainedIn(country, cat string) bool {
	r := tax.RegimeDefFor(l10n.Code(country))
	if r == nil {
		return false
	}
	if c := r.CategoryDef(cbc.Code(cat)); c != nil {
		return c.Retained
	}
	return false
}

// summaryOf projects a real tax.Total; precise=false copies the presented figures into
// the precise slots (Merge/Negate are specified on presented figures only).
func summaryOf(t *tax.Total, precise bool) jSummary {
	z := tr.Amt{V: tr.BigOfInt(0), E: 0}
	s := jSummary{Cats: []jCat{}, Sum: z, PSum: z}
	if t == nil {
		return s
	}
	for _, ct := range t.Categories {
		c := jCat{Code: string(ct.Code), Ret: ct.Retained, Rates: []jRate{}, Amount: amtOf(ct.Amount), Sur: []tr.Amt{}, PAmount: amtOf(ct.Amount)}
		if precise {
			c.PAmount = amtOf(ct.PreciseAmount())
		}
		if ct.Surcharge != nil {
			c.Sur = []tr.Amt{amtOf(*ct.Surcharge)}
		}
		for _, rt := range ct.Rates {
			r := jRate{Key: string(rt.Key), Country: string(rt.Country), Ext: extString(rt.Ext), Base: amtOf(rt.Base),
				Pct: optPct(rt.Percent), Sur: []jSur{}, Amount: amtOf(rt.Amount)}
			if rt.Surcharge != nil {
				r.Sur = []jSur{{Pct: pctBase(rt.Surcharge.Percent), Amount: amtOf(rt.Surcharge.Amount)}}
			}
			c.Rates = append(c.Rates, r)
		}
		s.Cats = append(s.Cats, c)
	}
	s.Sum, s.PSum = amtOf(t.Sum), amtOf(t.Sum)
	if precise {
		s.PSum = amtOf(t.PreciseSum())
	}
	return s
}

// taxBuild runs the real calculator on a case.  Rate keys other than "exempt" are not
// passed on (explicit percentages, so that rate tables do not interfere: C12 covers them).
func taxBuild(c taxCase) (ev taxEvent, total *tax.Total) {
	zero := tr.Amt{V: tr.BigOfInt(0), E: c.CD}
	ev = taxEvent{K: "build", CD: c.CD, RR: c.RR, Inc: c.Inc, Rows: []jRow{}, Out: jSummary{Cats: []jCat{}, Sum: zero, PSum: zero}}
	defer func() {
		if r := recover(); r != nil {
			ev.Ok, ev.Err = false, fmt.Sprintf("panic:%v", r)
		}
	}()
	lines := []tax.TaxableLine{}
	rows := []*taxRow{}
	for _, jr := range c.Rows {
		row := &taxRow{total: toAmount(jr.Total)}
		for _, jc := range jr.Taxes {
			cb := &tax.Combo{Category: cbc.Code(jc.Cat), Country: l10n.TaxCountryCode(jc.Country), Ext: extParse(jc.Ext)}
			if len(jc.Pct) > 0 {
				p := toPct(jc.Pct[0])
				cb.Percent = &p
			} else {
				cb.Rate = "exempt"
				if len(jc.Stale) > 0 {
					p := toPct(jc.Stale[0])
					cb.Percent = &p
					if len(jc.Stale) > 1 {
						q := toPct(jc.Stale[1])
						cb.Surcharge = &q
					}
				}
			}
			if len(jc.Sur) > 0 {
				p := toPct(jc.Sur[0])
				cb.Surcharge = &p
			}
			row.taxes = append(row.taxes, cb)
		}
		rows = append(rows, row)
		lines = append(lines, row)
	}
	home := "ES"
	if c.CC != "" {
		home = c.CC
	}
	tc := &tax.TotalCalculator{Country: l10n.TaxCountryCode(home), Rounding: cbc.Key(c.RR), Currency: cdCurrency[c.CD],
		Date: cal.MakeDate(2024, 6, 1), Lines: lines, Includes: cbc.Code(c.Inc)}
	t := new(tax.Total)
	err := tc.Calculate(t)
	// log the rows as the calculator saw them (combos are resolved in place)
	for i, row := range rows {
		jr := jRow{Total: c.Rows[i].Total, Taxes: []jCombo{}}
		for k, cb := range row.taxes {
			// the country as the input gave it: only the calculator's own code is dropped
			in := c.Rows[i].Taxes[k].Country
			if in == home {
				in = ""
			}
			cc := in
			if cc == "" {
				cc = home
			}
			jr.Taxes = append(jr.Taxes, jCombo{Cat: string(cb.Category), Ret: retainedIn(cc, string(cb.Category)), Key: string(cb.Rate),
				Country: in, Ext: extString(cb.Ext), Pct: optPct(cb.Percent), Sur: optPct(cb.Surcharge)})
		}
		ev.Rows = append(ev.Rows, jr)
	}
	if err != nil {
		ev.Err = err.Error()
		return ev, nil
	}
	ev.Ok = true
	ev.Out = summaryOf(t, true)
	return ev, t
}

func taxCombine(w *tr.Writer, a, b *tax.Total) {
	defer func() {
		if r := recover(); r != nil {
			w.Emit(taxEvent{K: "merge", Err: fmt.Sprintf("panic:%v", r), Rows: []jRow{}, Out: jSummary{Cats: []jCat{}}})
		}
	}()
	sa, sb := summaryOf(a, false), summaryOf(b, false)
	m := a.Merge(b)
	sa2, sb2 := summaryOf(a, false), summaryOf(b, false)
	w.Emit(taxEvent{K: "merge", Ok: true, Rows: []jRow{}, Out: summaryOf(m, false), A: &sa, B: &sb, A2: &sa2, B2: &sb2})
	n := a.Negate()
	sa3 := summaryOf(a, false)
	w.Emit(taxEvent{K: "negate", Ok: true, Rows: []jRow{}, Out: summaryOf(n, false), A: &sa, A2: &sa3})
	// a summary merged with its own negation
	z := a.Merge(n)
	sn := summaryOf(n, false)
	sn2 := summaryOf(n, false)
	sa4 := summaryOf(a, false)
	w.Emit(taxEvent{K: "merge", Ok: true, Rows: []jRow{}, Out: summaryOf(z, false), A: &sa, B: &sn, A2: &sa4, B2: &sn2})
}

func taxReplay(in, out string, pairs int, seed int64) error {
	w, err := tr.NewWriter(out)
	if err != nil {
		return err
	}
	var totals []*tax.Total
	err = tr.ReadLines(in, func(line []byte) error {
		var c taxCase
		if err := json.Unmarshal(line, &c); err != nil {
			return err
		}
		ev, t := taxBuild(c)
		w.Emit(ev)
		if t != nil && c.CD == 2 && len(totals) < 4000 {
			totals = append(totals, t)
		}
		return nil
	})
	if err != nil {
		return err
	}
	rnd := rand.New(rand.NewSource(seed))
	for i := 0; i < pairs && len(totals) > 1; i++ {
		taxCombine(w, totals[rnd.Intn(len(totals))], totals[rnd.Intn(len(totals))])
	}
	fmt.Printf("events=%d\n", w.N)
	return w.Close()
}

// ---- random generator ---------------------------------------------------------

func randPct(r *rand.Rand) tr.Amt {
	ps := [][2]int64{{21, 2}, {210, 3}, {10, 2}, {105, 3}, {4, 2}, {0, 2}, {15, 2}, {7, 2}, {52, 3}, {175, 3}, {2100, 4}}
	p := ps[r.Intn(len(ps))]
	return tr.Amt{V: tr.BigOfInt(p[0]), E: int(p[1])}
}

func taxRandomCase(r *rand.Rand) taxCase {
	c := taxCase{CD: []int{0, 2, 2, 2, 3}[r.Intn(5)], RR: []string{"precise", "currency"}[r.Intn(2)]}
	if r.Intn(3) == 0 {
		c.Inc = "VAT"
	}
	n := 1 + r.Intn(8)
	for i := 0; i < n; i++ {
		e := r.Intn(5)
		v := r.Int63n(2000000) - 400000
		if r.Intn(4) == 0 {
			v = (r.Int63n(2000) - 400) * 100 // round amounts
		}
		row := jRow{Total: tr.Amt{V: tr.BigOfInt(v), E: e}, Taxes: []jCombo{}}
		if r.Intn(10) > 0 {
			cb := jCombo{Cat: "VAT", Pct: []tr.Amt{randPct(r)}, Sur: []tr.Amt{}}
			switch r.Intn(8) {
			case 0:
				cb.Pct = []tr.Amt{} // exempt
				switch r.Intn(3) {
				case 0:
					cb.Stale = []tr.Amt{{V: tr.BigOfInt(21), E: 2}}
				case 1:
					cb.Stale = []tr.Amt{{V: tr.BigOfInt(21), E: 2}, {V: tr.BigOfInt(52), E: 3}}
				}
			case 1:
				cb.Sur = []tr.Amt{{V: tr.BigOfInt(52), E: 3}}
			case 2:
				cb.Country = "PT"
			case 3:
				cb.Ext = "es-tbai-product=services"
			case 4:
				cb.Cat = "IGIC"
			}
			if r.Intn(5) == 0 {
				// rows are kept apart by their extensions, exempt rows included
				cb.Ext = []string{"es-tbai-exemption=E1", "es-tbai-exemption=E2", "es-tbai-product=goods"}[r.Intn(3)]
			}
			row.Taxes = append(row.Taxes, cb)
			if r.Intn(4) == 0 {
				rc := jCombo{Cat: "IRPF", Pct: []tr.Amt{randPct(r)}, Sur: []tr.Amt{}}
				if r.Intn(5) == 0 {
					rc.Sur = []tr.Amt{{V: tr.BigOfInt(1), E: 2}}
				}
				row.Taxes = append(row.Taxes, rc)
			}
		} else if r.Intn(2) == 0 {
			row.Taxes = append(row.Taxes, jCombo{Cat: "IRPF", Pct: []tr.Amt{randPct(r)}, Sur: []tr.Amt{}})
		}
		c.Rows = append(c.Rows, row)
	}
	return c
}

// altHome turns a case into one of a regime that has an alternative country code: VAT only, overrides by the
// alternative code, by the regime's own code and by another country
func altHome(r *rand.Rand, c taxCase) taxCase {
	pair := [][2]string{{"EL", "GR"}, {"GB", "XI"}, {"GB", "XU"}}[r.Intn(3)]
	c.CC = pair[0]
	c.Inc = ""
	for i := range c.Rows {
		var keep []jCombo
		for _, cb := range c.Rows[i].Taxes {
			if cb.Cat != "VAT" {
				continue
			}
			cb.Ext = ""
			switch r.Intn(4) {
			case 0:
				cb.Country = pair[1]
			case 1:
				cb.Country = pair[0]
			case 2:
				cb.Country = "PT"
			default:
				cb.Country = ""
			}
			if len(cb.Pct) == 0 {
				cb.Pct, cb.Stale = []tr.Amt{{V: tr.BigOfInt(0), E: 2}}, nil // these regimes define no "exempt" key: a zero rate instead
			}
			keep = append(keep, cb)
		}
		if keep == nil {
			keep = []jCombo{}
		}
		c.Rows[i].Taxes = keep
	}
	return c
}

// taxDocBuild: the rows are those of a document -- its lines, its discounts (negatively) and its charges -- and the
// summary is the one the document presents.  Quantities are whole and prices and fixed amounts have the currency's
// decimals, so that the presented totals are the exact ones under either rule.
func taxDocBuild(r *rand.Rand) (ev taxEvent) {
	rr := []string{"precise", "currency"}[r.Intn(2)]
	zero := tr.Amt{V: tr.BigOfInt(0), E: 2}
	ev = taxEvent{K: "build", CD: 2, RR: rr, Rows: []jRow{}, Out: jSummary{Cats: []jCat{}, Sum: zero, PSum: zero}}
	defer func() {
		if p := recover(); p != nil {
			ev.Ok, ev.Err = false, fmt.Sprintf("panic:%v", p)
		}
	}()
	combos := func() tax.Set {
		if r.Intn(8) == 0 {
			return nil
		}
		pcts := []int64{21, 10, 4, 0}
		p := num.MakePercentage(pcts[r.Intn(len(pcts))], 2)
		cb := &tax.Combo{Category: "VAT", Percent: &p}
		switch r.Intn(7) {
		case 0:
			cb.Percent, cb.Rate = nil, "exempt"
		case 1:
			sp := num.MakePercentage(52, 3)
			cb.Surcharge = &sp
		case 2:
			cb.Country = "PT"
		case 3:
			cb.Country = "PT"
			sp := num.MakePercentage(10, 3)
			cb.Surcharge = &sp
		}
		set := tax.Set{cb}
		if r.Intn(4) == 0 {
			rp := num.MakePercentage(15, 2)
			set = append(set, &tax.Combo{Category: "IRPF", Percent: &rp})
		}
		return set
	}
	cents := func(max int64, signed bool) num.Amount {
		v := 1 + r.Int63n(max)
		if signed && r.Intn(3) == 0 {
			v = -v
		}
		return num.MakeAmount(v, 2)
	}
	inv := &bill.Invoice{Regime: tax.WithRegime("ES"), Currency: "EUR", IssueDate: cal.MakeDate(2024, 6, 1), Tax: &bill.Tax{Rounding: cbc.Key(rr)}}
	for n := 1 + r.Intn(4); n > 0; n-- {
		q := int64(1 + r.Intn(20))
		if r.Intn(5) == 0 {
			q = -q
		}
		price := cents(500000, false)
		inv.Lines = append(inv.Lines, &bill.Line{Quantity: num.MakeAmount(q, 0), Item: &org.Item{Name: "x", Price: &price}, Taxes: combos()})
	}
	for n := r.Intn(3); n > 0; n-- {
		inv.Discounts = append(inv.Discounts, &bill.Discount{Reason: "d", Amount: cents(50000, true), Taxes: combos()})
	}
	for n := r.Intn(3); n > 0; n-- {
		inv.Charges = append(inv.Charges, &bill.Charge{Reason: "c", Amount: cents(50000, true), Taxes: combos()})
	}
	if err := inv.Calculate(); err != nil {
		ev.Err = err.Error()
		return ev
	}
	row := func(total num.Amount, set tax.Set) {
		jr := jRow{Total: amtOf(total), Taxes: []jCombo{}}
		for _, cb := range set {
			cc := string(cb.Country)
			if cc == "" {
				cc = "ES"
			}
			jr.Taxes = append(jr.Taxes, jCombo{Cat: string(cb.Category), Ret: retainedIn(cc, string(cb.Category)), Key: string(cb.Rate),
				Country: string(cb.Country), Ext: extString(cb.Ext), Pct: optPct(cb.Percent), Sur: optPct(cb.Surcharge)})
		}
		ev.Rows = append(ev.Rows, jr)
	}
	for _, l := range inv.Lines {
		row(*l.Total, l.Taxes)
	}
	for _, d := range inv.Discounts {
		row(d.Amount.Invert(), d.Taxes)
	}
	for _, c := range inv.Charges {
		row(c.Amount, c.Taxes)
	}
	ev.Ok = true
	if inv.Totals != nil && inv.Totals.Taxes != nil {
		ev.Out = summaryOf(inv.Totals.Taxes, true)
	}
	return ev
}

func taxRecord(seed int64, n int, out string) error {
	r := rand.New(rand.NewSource(seed))
	w, err := tr.NewWriter(out)
	if err != nil {
		return err
	}
	var totals []*tax.Total
	for i := 0; i < n; i++ {
		c := taxRandomCase(r)
		if i%7 == 3 {
			c = altHome(r, c)
		}
		ev, t := taxBuild(c)
		w.Emit(ev)
		if t != nil && c.CD == 2 {
			totals = append(totals, t)
		}
		if i%5 == 0 {
			w.Emit(taxDocBuild(r))
		}
	}
	for i := 0; i < n/2 && len(totals) > 1; i++ {
		taxCombine(w, totals[r.Intn(len(totals))], totals[r.Intn(len(totals))])
	}
	fmt.Printf("events=%d\n", w.N)
	return w.Close()
}

func init() {
	register("tax-replay", func(args []string) error {
		fs := flag.NewFlagSet("tax-replay", flag.ExitOnError)
		in := fs.String("in", "", "cases ndjson")
		out := fs.String("out", "", "events ndjson")
		pairs := fs.Int("pairs", 500, "summary pairs to combine")
		seed := fs.Int64("seed", 1, "seed")
		fs.Parse(args)
		return taxReplay(*in, *out, *pairs, *seed)
	})
	register("tax-record", func(args []string) error {
		fs := flag.NewFlagSet("tax-record", flag.ExitOnError)
		seed := fs.Int64("seed", 1, "seed")
		n := fs.Int("n", 1000, "cases")
		out := fs.String("out", "", "events ndjson")
		fs.Parse(args)
		return taxRecord(*seed, *n, *out)
	})
}

// ---- payments (C20, second half) ----------------------------------------------

type jPayLine struct {
	Same   bool       `json:"same"` // line currency empty or the payment's
	Debit  []tr.Amt   `json:"debit"`
	Credit []tr.Amt   `json:"credit"`
	Rate   []tr.Amt   `json:"rate"`
	Tax    []jSummary `json:"tax"`   // the document's summary as given (0 or 1)
	Total  tr.Amt     `json:"total"` // calculated
}
type payEvent struct {
	K     string     `json:"k"`
	CD    int        `json:"cd"`
	RR    string     `json:"rr"`
	Lines []jPayLine `json:"lines"`
	Ok    bool       `json:"ok"`
	Err   string     `json:"err"`
	Total tr.Amt     `json:"total"`
	Tax   []jSummary `json:"tax"`
}

const payTemplate = `{"$schema":"https://gobl.org/draft-0/bill/payment","$regime":"ES","uuid":"0194ad4c-3462-7695-a40c-66a30ccc1405",
 "type":"receipt","method":{"key":"credit-transfer"},"series":"RCT","code":"0001","issue_date":"2025-01-28",
 "supplier":{"tax_id":{"country":"ES","code":"B98602642"},"name":"Provide One S.L."},
 "customer":{"tax_id":{"country":"ES","code":"54387763P"},"name":"Sample Consumer"}}`

func amtString(a tr.Amt) string { return toAmount(a).String() }

func payRun(r *rand.Rand, pool []*tax.Total) payEvent {
	ev := payEvent{K: "payment", CD: 2, RR: "precise", Lines: []jPayLine{}, Tax: []jSummary{}, Total: tr.Amt{V: tr.BigOfInt(0)}}
	defer func() {
		if p := recover(); p != nil {
			ev.Ok, ev.Err = false, fmt.Sprintf("panic:%v", p)
		}
	}()
	var doc map[string]any
	json.Unmarshal([]byte(payTemplate), &doc)
	doc["currency"] = "EUR"
	others := []struct {
		code string
		cd   int
		rate tr.Amt
	}{{"USD", 2, tr.Amt{V: tr.BigOfInt(876), E: 3}}, {"JPY", 0, tr.Amt{V: tr.BigOfInt(62), E: 4}},
		{"KWD", 3, tr.Amt{V: tr.BigOfInt(29871), E: 4}}, {"GBP", 2, tr.Amt{V: tr.BigOfInt(1187654), E: 6}}}
	rates := []any{}
	for _, o := range others {
		rates = append(rates, map[string]any{"from": o.code, "to": "EUR", "amount": amtString(o.rate)})
	}
	doc["exchange_rates"] = rates
	n := 1 + r.Intn(6)
	lines := []any{}
	for i := 0; i < n; i++ {
		l := map[string]any{}
		jl := jPayLine{Same: true, Debit: []tr.Amt{}, Credit: []tr.Amt{}, Rate: []tr.Amt{}, Tax: []jSummary{}}
		cd := 2
		switch r.Intn(4) {
		case 0:
			l["currency"] = "EUR"
		case 1:
			o := others[r.Intn(len(others))]
			l["currency"] = o.code
			cd = o.cd
			jl.Same = false
			jl.Rate = []tr.Amt{o.rate}
		}
		mk := func() tr.Amt {
			v := r.Int63n(2000000)
			if r.Intn(3) == 0 {
				v = int64(r.Intn(300)) * 50
			}
			e := cd
			if r.Intn(4) == 0 && cd > 0 {
				e = r.Intn(cd)
				for k := 0; k < cd-e; k++ {
					v /= 10
				}
			}
			return tr.Amt{V: tr.BigOfInt(v), E: e}
		}
		which := r.Intn(4)
		if which != 1 {
			a := mk()
			jl.Debit = []tr.Amt{a}
			l["debit"] = amtString(a)
		}
		if which == 1 || which == 2 {
			a := mk()
			jl.Credit = []tr.Amt{a}
			l["credit"] = amtString(a)
		}
		if len(pool) > 0 && r.Intn(3) > 0 {
			t := pool[r.Intn(len(pool))]
			jl.Tax = []jSummary{summaryOf(t, false)}
			d := map[string]any{"code": fmt.Sprintf("%03d", i+1), "issue_date": "2025-01-10", "tax": t}
			l["document"] = d
		}
		lines = append(lines, l)
		ev.Lines = append(ev.Lines, jl)
	}
	if len(pool) > 0 && r.Intn(3) == 0 {
		// a summary left over from an earlier calculation (or written by hand): the payment's tax is what its lines give
		doc["tax"] = pool[r.Intn(len(pool))]
	}
	doc["lines"] = lines
	data, err := json.Marshal(doc)
	if err != nil {
		ev.Err = "harness:" + err.Error()
		return ev
	}
	pmt := new(bill.Payment)
	if err := json.Unmarshal(data, pmt); err != nil {
		ev.Err = "harness-parse:" + err.Error()
		return ev
	}
	if err := pmt.Calculate(); err != nil {
		ev.Err = err.Error()
		return ev
	}
	ev.Ok = true
	for i, l := range pmt.Lines {
		ev.Lines[i].Total = amtOf(l.Total)
	}
	ev.Total = amtOf(pmt.Total)
	if pmt.Tax != nil {
		ev.Tax = []jSummary{summaryOf(pmt.Tax, false)}
	}
	return ev
}

func payRecord(seed int64, n int, out string) error {
	r := rand.New(rand.NewSource(seed))
	w, err := tr.NewWriter(out)
	if err != nil {
		return err
	}
	var pool []*tax.Total
	for len(pool) < 200 {
		c := taxRandomCase(r)
		c.CD, c.RR = 2, "precise"
		if _, t := taxBuild(c); t != nil {
			pool = append(pool, t)
		}
	}
	for i := 0; i < n; i++ {
		w.Emit(payRun(r, pool))
	}
	fmt.Printf("events=%d\n", w.N)
	return w.Close()
}

func init() {
	register("pay-record", func(args []string) error {
		fs := flag.NewFlagSet("pay-record", flag.ExitOnError)
		seed := fs.Int64("seed", 1, "seed")
		n := fs.Int("n", 1000, "payments")
		out := fs.String("out", "", "events ndjson")
		fs.Parse(args)
		return payRecord(*seed, *n, *out)
	})
}
