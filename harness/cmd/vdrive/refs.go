package main

// refs: drivers for Refs.tla (C18) - validated documents only reference defined
// codes, keys and rates.  refs-export hands the published definition files to
// TLC (tagged JSON).  refs-run takes the replacement candidates TLC derived
// from those files (defined values of every kind and near misses of them),
// substitutes them at every reference position of every example document,
// runs the real code on two paths (calculate then validate; validate only,
// with a matching digest) and, for every document the library accepts, logs
// the references that document makes.  Whether each reference resolves is
// decided by RefsTrace.tla from the published files alone.

import (
	"bytes"
	"encoding/json"
	"flag"
	"fmt"
	"math/rand"
	"os"
	"path/filepath"
	"sort"
	"strings"
	"sync"

	"github.com/invopop/gobl"
	"goblverif/internal/tr"
)

func refsExport(repo, out string) error {
	if err := os.MkdirAll(out, 0o755); err != nil {
		return err
	}
	type entry struct {
		Name string `json:"name"`
		Pub  string `json:"pub"`
	}
	var list []entry
	n := 0
	add := func(name, p string) error {
		raw, err := os.ReadFile(p)
		if err != nil {
			return err
		}
		n++
		dst := filepath.Join(out, fmt.Sprintf("def-%04d.json", n))
		if err := tagFile(raw, dst); err != nil {
			return fmt.Errorf("%s: %w", name, err)
		}
		list = append(list, entry{Name: name, Pub: dst})
		return nil
	}
	files := listData(filepath.Join(repo, "data"))
	var names []string
	for name := range files {
		if strings.HasPrefix(name, "schemas/") && !strings.HasPrefix(name, "schemas/l10n/") && !strings.HasPrefix(name, "schemas/currency/") {
			continue
		}
		names = append(names, name)
	}
	sort.Strings(names)
	for _, name := range names {
		if err := add(name, files[name]); err != nil {
			return err
		}
	}
	cur, _ := filepath.Glob(filepath.Join(repo, "data", "currency", "*.json"))
	sort.Strings(cur)
	for _, p := range cur {
		if err := add("currency/"+filepath.Base(p), p); err != nil {
			return err
		}
	}
	b, _ := json.Marshal(map[string]any{"files": list})
	return os.WriteFile(filepath.Join(out, "manifest.json"), b, 0o644)
}

type refCand struct {
	Kind string `json:"kind"` // currency country regime addon tag cat rate extkey extval
	V    string `json:"v"`
	Base string `json:"base"` // the defined value v was derived from ("" when v is itself defined)
	Key  string `json:"key"`  // extval: the extension key whose value this is
}

type refPos struct {
	kind string
	path []any // path inside the document
	cur  string
	key  string // extval: extension key at this position
	add  bool   // member does not exist yet (rate added to a combo)
}

type refEvent struct {
	K      string   `json:"k"` // ref
	Kind   string   `json:"kind"`
	V      string   `json:"v"`
	CC     string   `json:"cc"`
	Cat    string   `json:"cat"`
	Key    string   `json:"key"`
	Parts  []string `json:"parts"`
	Chars  []string `json:"chars"`
	Addons []string `json:"addons"`
	Schema string   `json:"schema"`
	Path   string   `json:"path"` // calc | validate-only
	W      string   `json:"w"`    // witness: source document, position, replacement
	Job    string   `json:"job"`  // the same, machine readable (refs-one replays it)
}

type refJob struct {
	File string  `json:"file"`
	Kind string  `json:"kind"`
	Path []any   `json:"path"`
	Cur  string  `json:"cur"`
	Key  string  `json:"key"`
	Add  bool    `json:"add"`
	Cand refCand `json:"cand"`
}

// walkRefs visits every object of a document.  Complements are skipped: they
// are foreign structures with their own member names (a "rate" there is an
// amount).  skipTotals leaves out the calculated totals.
func walkRefs(x any, path []any, parent string, fn func(path []any, parent string, obj map[string]any)) {
	walkRefsOpt(x, path, parent, false, fn)
}

func walkRefsOpt(x any, path []any, parent string, skipTotals bool, fn func(path []any, parent string, obj map[string]any)) {
	switch v := x.(type) {
	case map[string]any:
		fn(path, parent, v)
		for k, y := range v {
			if k == "complements" || (skipTotals && len(path) == 0 && k == "totals") {
				continue
			}
			walkRefsOpt(y, append(append([]any{}, path...), k), k, skipTotals, fn)
		}
	case []any:
		for i, y := range v {
			walkRefsOpt(y, append(append([]any{}, path...), i), parent, skipTotals, fn)
		}
	}
}

func refPositions(doc map[string]any) []refPos {
	var out []refPos
	// the calculated totals are not reference positions: calculation rewrites them and validation
	// does not re-derive them (that is C07/C08's subject); they repeat the lines' references
	walkRefsOpt(doc, nil, "", true, func(path []any, parent string, obj map[string]any) {
		p := func(k any) []any { return append(append([]any{}, path...), k) }
		for k, y := range obj {
			s, isStr := y.(string)
			switch {
			case k == "currency" && isStr, (k == "from" || k == "to") && isStr && parent == "exchange_rates":
				out = append(out, refPos{kind: "currency", path: p(k), cur: s})
			case k == "country" && isStr:
				out = append(out, refPos{kind: "country", path: p(k), cur: s})
			case k == "$regime" && isStr:
				out = append(out, refPos{kind: "regime", path: p(k), cur: s})
			case k == "$addons" || k == "$tags":
				if arr, ok := y.([]any); ok {
					kind := map[string]string{"$addons": "addon", "$tags": "tag"}[k]
					for i, e := range arr {
						if es, ok := e.(string); ok {
							out = append(out, refPos{kind: kind, path: append(p(k), i), cur: es})
						}
					}
					out = append(out, refPos{kind: kind, path: append(p(k), len(arr)), cur: "", add: true})
				}
			case k == "ext":
				if m, ok := y.(map[string]any); ok {
					for ek, ev := range m {
						if evs, ok := ev.(string); ok {
							out = append(out, refPos{kind: "extkey", path: append(p(k), ek), cur: ek, key: ek})
							out = append(out, refPos{kind: "extval", path: append(p(k), ek), cur: evs, key: ek})
						}
					}
				}
			}
		}
		if parent == "taxes" {
			if c, ok := obj["cat"].(string); ok {
				out = append(out, refPos{kind: "cat", path: p("cat"), cur: c})
				r, has := obj["rate"].(string)
				out = append(out, refPos{kind: "rate", path: p("rate"), cur: r, add: !has})
				if _, has := obj["country"]; !has {
					out = append(out, refPos{kind: "country", path: p("country"), cur: "", add: true})
				}
				if _, has := obj["ext"]; !has {
					out = append(out, refPos{kind: "extkey", path: append(p("ext"), ""), cur: "", add: true})
				}
			}
		}
	})
	for k, kind := range map[string]string{"$addons": "addon", "$tags": "tag"} {
		if _, has := doc[k]; !has {
			out = append(out, refPos{kind: kind, path: []any{k, 0}, cur: "", add: true})
		}
	}
	sort.Slice(out, func(i, j int) bool {
		return fmt.Sprint(out[i].kind, out[i].path) < fmt.Sprint(out[j].kind, out[j].path)
	})
	return out
}

func cloneJSON(x any) any {
	switch v := x.(type) {
	case map[string]any:
		m := make(map[string]any, len(v))
		for k, y := range v {
			m[k] = cloneJSON(y)
		}
		return m
	case []any:
		a := make([]any, len(v))
		for i, y := range v {
			a[i] = cloneJSON(y)
		}
		return a
	}
	return x
}

// substitute returns a copy of doc with the reference at pos replaced
func substitute(doc map[string]any, pos refPos, c refCand) map[string]any {
	d := cloneJSON(doc).(map[string]any)
	var cur any = d
	for i := 0; i < len(pos.path)-1; i++ {
		switch k := pos.path[i].(type) {
		case string:
			m := cur.(map[string]any)
			if _, ok := m[k]; !ok {
				m[k] = map[string]any{}
			}
			cur = m[k]
		case int:
			cur = cur.([]any)[k]
		}
	}
	last := pos.path[len(pos.path)-1]
	switch pos.kind {
	case "extkey":
		m := cur.(map[string]any)
		val := "1"
		if old, ok := m[pos.cur]; ok && !pos.add {
			val = old.(string)
			delete(m, pos.cur)
		}
		m[c.V] = val
		return d
	}
	switch k := last.(type) {
	case string:
		cur.(map[string]any)[k] = c.V
	case int:
		// the array lives one level up: rebuild through the parent
		var parent any = d
		for i := 0; i < len(pos.path)-2; i++ {
			switch pk := pos.path[i].(type) {
			case string:
				parent = parent.(map[string]any)[pk]
			case int:
				parent = parent.([]any)[pk]
			}
		}
		arrKey := pos.path[len(pos.path)-2].(string)
		arr, _ := parent.(map[string]any)[arrKey].([]any)
		if k >= len(arr) {
			arr = append(arr, c.V)
		} else {
			arr[k] = c.V
		}
		parent.(map[string]any)[arrKey] = arr
	}
	return d
}

// references made by an accepted document
func docRefs(schemaURL string, doc map[string]any, path, w, job string, emit func(refEvent)) {
	short := schemaURL
	if i := strings.Index(short, "/draft-0/"); i >= 0 {
		short = short[i+len("/draft-0/"):]
	}
	regime, _ := doc["$regime"].(string)
	var addons []string
	if arr, ok := doc["$addons"].([]any); ok {
		for _, a := range arr {
			if s, ok := a.(string); ok {
				addons = append(addons, s)
			}
		}
	}
	if addons == nil {
		addons = []string{}
	}
	base := refEvent{K: "ref", Parts: []string{}, Chars: []string{}, Addons: addons, Schema: short, Path: path, W: w, Job: job}
	mk := func(kind, v string) refEvent {
		e := base
		e.Kind, e.V = kind, v
		return e
	}
	if regime != "" {
		emit(mk("regime", regime))
	}
	for _, a := range addons {
		emit(mk("addon", a))
	}
	if arr, ok := doc["$tags"].([]any); ok {
		for _, t := range arr {
			if s, ok := t.(string); ok {
				e := mk("tag", s)
				e.CC = regime
				emit(e)
			}
		}
	}
	walkRefs(doc, nil, "", func(_ []any, parent string, obj map[string]any) {
		for k, y := range obj {
			s, isStr := y.(string)
			switch {
			case k == "currency" && isStr, (k == "from" || k == "to") && isStr && parent == "exchange_rates":
				emit(mk("currency", s))
			case k == "country" && isStr:
				emit(mk("country", s))
			case k == "ext":
				if m, ok := y.(map[string]any); ok {
					for ek, ev := range m {
						evs, _ := ev.(string)
						e := mk("ext", evs)
						e.Key = ek
						e.Chars = strings.Split(evs, "")
						if evs == "" {
							e.Chars = []string{}
						}
						emit(e)
					}
				}
			}
		}
		if parent == "taxes" {
			if c, ok := obj["cat"].(string); ok {
				cc := regime
				if o, ok := obj["country"].(string); ok && o != "" {
					cc = o
				}
				e := mk("cat", c)
				e.CC = cc
				emit(e)
				if r, ok := obj["rate"].(string); ok && r != "" {
					e := mk("rate", r)
					e.CC, e.Cat = cc, c
					e.Parts = strings.Split(r, "+")
					emit(e)
				}
			}
		}
	})
}

func refsRun(repo, candFile, out string, seed int64, perPos, maxDocs int, only string) error {
	var cands []refCand
	var one *refJob
	if only != "" {
		one = new(refJob)
		if err := json.Unmarshal([]byte(only), one); err != nil {
			return err
		}
		for i, p := range one.Path {
			if f, ok := p.(float64); ok {
				one.Path[i] = int(f)
			}
		}
	} else if err := tr.ReadLines(candFile, func(line []byte) error {
		var c refCand
		if err := json.Unmarshal(line, &c); err != nil {
			return err
		}
		cands = append(cands, c)
		return nil
	}); err != nil {
		return err
	}
	byKind := map[string][]refCand{}
	byBase := map[string][]refCand{}
	byExtKey := map[string][]refCand{}
	for _, c := range cands {
		byKind[c.Kind] = append(byKind[c.Kind], c)
		if c.Base != "" {
			byBase[c.Kind+"\x00"+c.Base] = append(byBase[c.Kind+"\x00"+c.Base], c)
		}
		if c.Kind == "extval" {
			byExtKey[c.Key] = append(byExtKey[c.Key], c)
		}
	}
	var files []string
	filepath.Walk(filepath.Join(repo, "examples"), func(p string, info os.FileInfo, err error) error {
		if err == nil && !info.IsDir() && strings.Contains(p, "/out/") && strings.HasSuffix(p, ".json") {
			files = append(files, p)
		}
		return nil
	})
	sort.Strings(files)
	rng := rand.New(rand.NewSource(seed))
	if maxDocs > 0 && len(files) > maxDocs {
		rng.Shuffle(len(files), func(i, j int) { files[i], files[j] = files[j], files[i] })
		files = files[:maxDocs]
		sort.Strings(files)
	}
	w, err := tr.NewWriter(out)
	if err != nil {
		return err
	}
	defer w.Close()
	var mu sync.Mutex
	seen := map[string]bool{}
	stats := map[string]int{}
	emit := func(e refEvent) {
		id := strings.Join([]string{e.Kind, e.V, e.CC, e.Cat, e.Key, e.Schema, strings.Join(e.Addons, ",")}, "\x00")
		mu.Lock()
		defer mu.Unlock()
		if e.Kind == "currency" || e.Kind == "country" || e.Kind == "ext" || e.Kind == "regime" || e.Kind == "addon" {
			id = strings.Join([]string{e.Kind, e.V, e.Key}, "\x00")
		}
		if e.Kind == "cat" || e.Kind == "rate" {
			id = strings.Join([]string{e.Kind, e.V, e.CC, e.Cat}, "\x00")
		}
		if seen[id] && one == nil {
			return
		}
		seen[id] = true
		w.Emit(e)
	}
	type job struct {
		file string
		env  map[string]any
		doc  map[string]any
		pos  refPos
		c    refCand
	}
	jobs := make(chan job, 256)
	var wg sync.WaitGroup
	try := func(j job) {
		defer func() {
			if r := recover(); r != nil {
				mu.Lock()
				stats["panic"]++
				mu.Unlock()
			}
		}()
		d := j.doc
		if j.c.Kind != "" {
			d = substitute(j.doc, j.pos, j.c)
		}
		envm := map[string]any{}
		for k, v := range j.env {
			envm[k] = v
		}
		envm["doc"] = d
		delete(envm, "sigs")
		raw, err := json.Marshal(envm)
		if err != nil {
			return
		}
		rel, _ := filepath.Rel(repo, j.file)
		wit := fmt.Sprintf("%s %s at %v: %q -> %q", rel, j.pos.kind, j.pos.path, j.pos.cur, j.c.V)
		jb, _ := json.Marshal(refJob{File: rel, Kind: j.pos.kind, Path: j.pos.path, Cur: j.pos.cur, Key: j.pos.key, Add: j.pos.add, Cand: j.c})
		for _, path := range []string{"calc", "validate-only"} {
			env := new(gobl.Envelope)
			if err := json.Unmarshal(raw, env); err != nil {
				mu.Lock()
				stats["parse-refused"]++
				mu.Unlock()
				continue
			}
			if path == "calc" {
				if err := env.Calculate(); err != nil {
					mu.Lock()
					stats["calc-refused"]++
					mu.Unlock()
					continue
				}
			} else {
				dig, err := env.Digest()
				if err != nil {
					continue
				}
				env.Head.Digest = dig
			}
			if err := env.Validate(); err != nil {
				mu.Lock()
				stats[path+"-invalid"]++
				mu.Unlock()
				continue
			}
			mu.Lock()
			stats[path+"-valid"]++
			mu.Unlock()
			outRaw, err := json.Marshal(env)
			if err != nil {
				continue
			}
			var res struct {
				Doc map[string]any `json:"doc"`
			}
			dec := json.NewDecoder(bytes.NewReader(outRaw))
			dec.UseNumber()
			if dec.Decode(&res) != nil {
				continue
			}
			schemaURL, _ := res.Doc["$schema"].(string)
			docRefs(schemaURL, res.Doc, path, wit, string(jb), emit)
		}
	}
	for i := 0; i < 16; i++ {
		wg.Add(1)
		go func() {
			defer wg.Done()
			for j := range jobs {
				try(j)
			}
		}()
	}
	positions := 0
	for _, f := range files {
		raw, err := os.ReadFile(f)
		if err != nil {
			continue
		}
		var envm map[string]any
		dec := json.NewDecoder(bytes.NewReader(raw))
		dec.UseNumber()
		if dec.Decode(&envm) != nil {
			continue
		}
		doc, ok := envm["doc"].(map[string]any)
		if !ok {
			continue
		}
		if one != nil {
			if rel, _ := filepath.Rel(repo, f); rel == one.File {
				jobs <- job{file: f, env: envm, doc: doc, pos: refPos{kind: one.Kind, path: one.Path, cur: one.Cur, key: one.Key, add: one.Add}, c: one.Cand}
			}
			continue
		}
		jobs <- job{file: f, env: envm, doc: doc, pos: refPos{kind: "none"}}
		for _, pos := range refPositions(doc) {
			positions++
			var chosen []refCand
			kind := pos.kind
			chosen = append(chosen, byBase[kind+"\x00"+pos.cur]...)
			pool := byKind[kind]
			if kind == "extval" {
				chosen = append(chosen, byExtKey[pos.key]...)
				if len(chosen) > 3*perPos {
					rng.Shuffle(len(chosen), func(i, j int) { chosen[i], chosen[j] = chosen[j], chosen[i] })
					chosen = chosen[:3*perPos]
				}
			}
			for n := 0; n < perPos && len(pool) > 0; n++ {
				chosen = append(chosen, pool[rng.Intn(len(pool))])
			}
			for _, c := range chosen {
				if c.V == pos.cur && !pos.add {
					continue
				}
				jobs <- job{file: f, env: envm, doc: doc, pos: pos, c: c}
			}
		}
	}
	close(jobs)
	wg.Wait()
	stats["documents"] = len(files)
	stats["positions"] = positions
	stats["distinct-refs"] = len(seen)
	sb, _ := json.Marshal(stats)
	return os.WriteFile(out+".stats.json", sb, 0o644)
}

func init() {
	register("refs-export", func(args []string) error {
		fs := flag.NewFlagSet("refs-export", flag.ExitOnError)
		repo := fs.String("repo", "/repo", "repository")
		out := fs.String("out", "", "output directory")
		fs.Parse(args)
		return refsExport(*repo, *out)
	})
	register("refs-run", func(args []string) error {
		fs := flag.NewFlagSet("refs-run", flag.ExitOnError)
		repo := fs.String("repo", "/repo", "repository")
		cands := fs.String("cands", "", "candidates exported by MCRefs (ndjson)")
		out := fs.String("out", "", "trace file")
		seed := fs.Int64("seed", 1, "seed")
		per := fs.Int("per", 6, "random candidates per position (besides near misses of the current value)")
		only := fs.String("only", "", "run exactly this job (JSON, as logged in an event)")
		docs := fs.Int("docs", 0, "at most this many source documents (0: all)")
		fs.Parse(args)
		return refsRun(*repo, *cands, *out, *seed, *per, *docs, *only)
	})
}
