package main

// pub: drivers for Published.tla (C19).  pub-export writes, in a form TLC can
// read (fully tagged JSON: no nulls, no floats, no mixed comparisons), the
// published definition files, the files produced by the repository's own
// generators in a scratch copy, the definitions held by the running library
// after a workload over all examples, and the files served by the bulk
// processor; plus the auxiliary tables the coherence predicates need.

import (
	"bufio"
	"bytes"
	"encoding/json"
	"flag"
	"fmt"
	"os"
	"os/exec"
	"path/filepath"
	"sort"
	"strings"
	"time"

	"github.com/invopop/gobl"
	"github.com/invopop/gobl/bill"
	"github.com/invopop/gobl/cbc"
	"github.com/invopop/gobl/currency"
	"github.com/invopop/gobl/schema"
	"github.com/invopop/gobl/tax"
)

// tagged value: {"t": o|a|s|n|b|z, "k": [keys], "v": ...}
func tagValue(x any) any {
	switch v := x.(type) {
	case map[string]any:
		keys := make([]string, 0, len(v))
		for k := range v {
			keys = append(keys, k)
		}
		sort.Strings(keys)
		vals := make([]any, len(keys))
		for i, k := range keys {
			vals[i] = tagValue(v[k])
		}
		return map[string]any{"t": "o", "k": keys, "v": vals}
	case []any:
		vals := make([]any, len(v))
		for i, y := range v {
			vals[i] = tagValue(y)
		}
		return map[string]any{"t": "a", "k": []string{}, "v": vals}
	case string:
		return map[string]any{"t": "s", "k": []string{}, "v": v}
	case json.Number:
		return map[string]any{"t": "n", "k": []string{}, "v": v.String()}
	case bool:
		return map[string]any{"t": "b", "k": []string{}, "v": fmt.Sprint(v)}
	}
	return map[string]any{"t": "z", "k": []string{}, "v": ""}
}

func tagFile(src []byte, dst string) error {
	dec := json.NewDecoder(bytes.NewReader(src))
	dec.UseNumber()
	var x any
	if err := dec.Decode(&x); err != nil {
		return err
	}
	b, err := json.Marshal(tagValue(x))
	if err != nil {
		return err
	}
	return os.WriteFile(dst, b, 0o644)
}

func listData(root string) map[string]string {
	out := map[string]string{}
	for _, sub := range []string{"regimes", "addons", "catalogues", "schemas"} {
		filepath.Walk(filepath.Join(root, sub), func(p string, info os.FileInfo, err error) error {
			if err == nil && !info.IsDir() && strings.HasSuffix(p, ".json") {
				rel, _ := filepath.Rel(root, p)
				out[rel] = p
			}
			return nil
		})
	}
	return out
}

// workload: the library is used on every example before its definitions are dumped
func pubWorkload(repo string) int {
	n := 0
	filepath.Walk(filepath.Join(repo, "examples"), func(p string, info os.FileInfo, err error) error {
		if err != nil || info.IsDir() || !strings.Contains(p, "/out/") || !strings.HasSuffix(p, ".json") {
			return nil
		}
		raw, err := os.ReadFile(p)
		if err != nil {
			return nil
		}
		func() {
			defer func() { recover() }()
			env := new(gobl.Envelope)
			if json.Unmarshal(raw, env) != nil {
				return
			}
			_ = env.Calculate()
			_ = env.Validate()
			if inv, ok := env.Extract().(*bill.Invoice); ok {
				_, _ = env.CorrectionOptionsSchema()
				_, _ = env.Correct(bill.Credit, bill.WithReason("x"), bill.WithCopyTax())
				_, _ = env.Correct(bill.Corrective, bill.WithReason("x"))
				_, _ = env.Replicate()
				_ = inv
			}
			n++
		}()
		return nil
	})
	return n
}

func pubExport(repo, gen, bulkBin, out string) error {
	if err := os.MkdirAll(out, 0o755); err != nil {
		return err
	}
	type entry struct {
		Name   string `json:"name"`
		Pub    string `json:"pub"`
		Gen    string `json:"gen"`
		Mem    string `json:"mem"`
		Served string `json:"served"`
	}
	entries := map[string]*entry{}
	get := func(name string) *entry {
		if e, ok := entries[name]; ok {
			return e
		}
		e := &entry{Name: name}
		entries[name] = e
		return e
	}
	n := 0
	write := func(kind, name string, data []byte) (string, error) {
		n++
		dst := filepath.Join(out, fmt.Sprintf("%s-%04d.json", kind, n))
		if err := tagFile(data, dst); err != nil {
			return "", fmt.Errorf("%s %s: %w", kind, name, err)
		}
		return dst, nil
	}
	for name, p := range listData(filepath.Join(repo, "data")) {
		raw, err := os.ReadFile(p)
		if err != nil {
			return err
		}
		if get(name).Pub, err = write("pub", name, raw); err != nil {
			return err
		}
	}
	if gen != "" {
		for name, p := range listData(filepath.Join(gen, "data")) {
			raw, err := os.ReadFile(p)
			if err != nil {
				return err
			}
			if get(name).Gen, err = write("gen", name, raw); err != nil {
				return err
			}
		}
	}
	// definitions held in memory after a workload
	used := pubWorkload(repo)
	for _, r := range tax.AllRegimeDefs() {
		doc, err := schema.NewObject(r)
		if err != nil {
			return err
		}
		data, _ := json.Marshal(doc)
		name := strings.ToLower(string(r.Country))
		if r.Zone != "" {
			name += "_" + strings.ToLower(string(r.Zone))
		}
		if get("regimes/" + name + ".json").Mem, err = write("mem", name, data); err != nil {
			return err
		}
	}
	for _, a := range tax.AllAddonDefs() {
		doc, err := schema.NewObject(a)
		if err != nil {
			return err
		}
		data, _ := json.Marshal(doc)
		if get("addons/" + string(a.Key) + ".json").Mem, err = write("mem", string(a.Key), data); err != nil {
			return err
		}
	}
	// served by the command line: the bulk actions schema / regime
	if bulkBin != "" {
		var reqs bytes.Buffer
		enc := json.NewEncoder(&reqs)
		var names []string
		for name := range entries {
			names = append(names, name)
		}
		sort.Strings(names)
		for _, name := range names {
			switch {
			case strings.HasPrefix(name, "schemas/"):
				enc.Encode(map[string]any{"action": "schema", "req_id": name, "payload": map[string]any{"path": strings.TrimSuffix(strings.TrimPrefix(name, "schemas/"), ".json")}})
			case strings.HasPrefix(name, "regimes/"):
				enc.Encode(map[string]any{"action": "regime", "req_id": name, "payload": map[string]any{"code": strings.TrimSuffix(strings.TrimPrefix(name, "regimes/"), ".json")}})
			}
		}
		cmd := exec.Command(bulkBin)
		cmd.Stdin = &reqs
		outB, err := cmd.Output()
		if err != nil {
			return fmt.Errorf("bulk: %w", err)
		}
		sc := bufio.NewScanner(bytes.NewReader(outB))
		sc.Buffer(make([]byte, 1<<20), 1<<27)
		for sc.Scan() {
			var res struct {
				ReqID   string          `json:"req_id"`
				Payload json.RawMessage `json:"payload"`
				IsFinal bool            `json:"is_final"`
			}
			if json.Unmarshal(sc.Bytes(), &res) != nil || res.IsFinal || len(res.Payload) == 0 {
				continue
			}
			if p, err := write("srv", res.ReqID, res.Payload); err == nil {
				get(res.ReqID).Served = p
			}
		}
	}
	// auxiliary tables
	cur := []string{}
	for _, d := range currency.Definitions() {
		cur = append(cur, string(d.ISOCode))
	}
	zones := map[string]bool{}
	for _, r := range tax.AllRegimeDefs() {
		_, err := time.LoadLocation(r.TimeZone)
		zones[r.TimeZone] = err == nil && r.TimeZone != ""
	}
	zok := []string{}
	for z, ok := range zones {
		if ok {
			zok = append(zok, z)
		}
	}
	sort.Strings(zok)
	itypes := []string{}
	for _, t := range bill.InvoiceTypes {
		itypes = append(itypes, string(t.Key))
	}
	valid := map[string]bool{}
	for _, r := range tax.AllRegimeDefs() {
		valid["regimes/"+strings.ToLower(string(r.Country))+".json"] = r.Validate() == nil
	}
	for _, a := range tax.AllAddonDefs() {
		valid["addons/"+string(a.Key)+".json"] = a.Validate() == nil
	}
	invalid := []string{}
	for k, ok := range valid {
		if !ok {
			invalid = append(invalid, k)
		}
	}
	sort.Strings(invalid)
	var list []*entry
	var names []string
	for name := range entries {
		names = append(names, name)
	}
	sort.Strings(names)
	for _, name := range names {
		list = append(list, entries[name])
	}
	man := map[string]any{"files": list, "currencies": cur, "zones_ok": zok, "invoice_types": itypes, "invalid_definitions": invalid, "workload": used}
	b, _ := json.Marshal(man)
	_ = cbc.KeyEmpty
	return os.WriteFile(filepath.Join(out, "manifest.json"), b, 0o644)
}

func init() {
	register("pub-export", func(args []string) error {
		fs := flag.NewFlagSet("pub-export", flag.ExitOnError)
		repo := fs.String("repo", "/repo", "repository")
		gen := fs.String("gen", "", "scratch copy in which the generators were run")
		bulk := fs.String("bulk", "", "goblverif binary")
		out := fs.String("out", "", "output directory")
		fs.Parse(args)
		return pubExport(*repo, *gen, *bulk, *out)
	})
}
