package main

// calc: drivers for Calc.tla (C01, C03, C17).  An abstract document (exported
// by TLC or generated here) is turned into a real bill.Invoice (or Order /
// Delivery), calculated, and every presented figure is logged; metamorphic
// events apply Invert, a permutation of the rows and RemoveIncludedTaxes.

import (
	"encoding/json"
	"flag"
	"fmt"
	"math/rand"
	"strings"

	"github.com/invopop/gobl/bill"
	"github.com/invopop/gobl/currency"
	"github.com/invopop/gobl/num"
	"github.com/invopop/gobl/tax"
	"goblverif/internal/tr"
)

type jLineAdj struct {
	Pct    []tr.Amt `json:"pct"`
	Base   []tr.Amt `json:"base"`
	Amount tr.Amt   `json:"amount"`
}
type jLineChg struct {
	Pct    []tr.Amt `json:"pct"`
	Base   []tr.Amt `json:"base"`
	Amount tr.Amt   `json:"amount"`
	Rate   []tr.Amt `json:"rate"`
	Q      []tr.Amt `json:"q"`
}
type jSub struct {
	Qty       tr.Amt     `json:"qty"`
	Price     tr.Amt     `json:"price"`
	ICD       int        `json:"icd"`
	FX        []tr.Amt   `json:"fx"`
	Alt       []tr.Amt   `json:"alt"`
	Discounts []jLineAdj `json:"discounts"`
	Charges   []jLineChg `json:"charges"`
}
type jLine struct {
	Qty       tr.Amt     `json:"qty"`
	Price     tr.Amt     `json:"price"`
	ICD       int        `json:"icd"`
	FX        []tr.Amt   `json:"fx"`
	Alt       []tr.Amt   `json:"alt"`
	Discounts []jLineAdj `json:"discounts"`
	Charges   []jLineChg `json:"charges"`
	Taxes     []jCombo   `json:"taxes"`
	Subs      []jSub     `json:"subs"`
}
type jDocAdj struct {
	Pct    []tr.Amt `json:"pct"`
	Base   []tr.Amt `json:"base"`
	Amount tr.Amt   `json:"amount"`
	Taxes  []jCombo `json:"taxes"`
}
type jPay struct {
	Pct    []tr.Amt `json:"pct"`
	Amount tr.Amt   `json:"amount"`
}
type jDoc struct {
	// PreCur: the currency of a preceding document row the input carries ("" for none); it has no bearing on the figures
	PreCur    string    `json:"precur"`
	CD        int       `json:"cd"`
	RR        string    `json:"rr"`
	Inc       string    `json:"inc"`
	Rounding  []tr.Amt  `json:"rounding"`
	Lines     []jLine   `json:"lines"`
	Discounts []jDocAdj `json:"discounts"`
	Charges   []jDocAdj `json:"charges"`
	Advances  []jPay    `json:"advances"`
	Dues      []jPay    `json:"dues"`
}
type jResSub struct {
	Price tr.Amt `json:"price"`
	Sum   tr.Amt `json:"sum"`
	Total tr.Amt `json:"total"`
}
type jResLine struct {
	Price tr.Amt    `json:"price"`
	Sum   tr.Amt    `json:"sum"`
	Total tr.Amt    `json:"total"`
	DAmts []tr.Amt  `json:"damts"`
	CAmts []tr.Amt  `json:"camts"`
	Subs  []jResSub `json:"subs"`
}
type jRes struct {
	Lines       []jResLine `json:"lines"`
	DAmts       []tr.Amt   `json:"damts"`
	CAmts       []tr.Amt   `json:"camts"`
	Sum         tr.Amt     `json:"sum"`
	Discount    []tr.Amt   `json:"discount"`
	Charge      []tr.Amt   `json:"charge"`
	TaxIncluded []tr.Amt   `json:"taxincluded"`
	Total       tr.Amt     `json:"total"`
	Tax         tr.Amt     `json:"tax"`
	TWT         tr.Amt     `json:"twt"`
	Payable     tr.Amt     `json:"payable"`
	Advance     []tr.Amt   `json:"advance"`
	Due         []tr.Amt   `json:"due"`
	Advs        []tr.Amt   `json:"advs"`
	Dues        []tr.Amt   `json:"dues"`
	Taxes       jSummary   `json:"taxes"`
}
type calcEvent struct {
	K             string   `json:"k"`    // calc | invert | permute | removeinc
	Kind          string   `json:"kind"` // invoice | order | delivery
	Reg           string   `json:"reg"`  // regime; "+default" when the rounding rule comes from the regime
	D             jDoc     `json:"d"`
	Ok            bool     `json:"ok"`
	Err           string   `json:"err"`
	R             jRes     `json:"r"`
	Ok2           bool     `json:"ok2"` // outcome of the transformation
	Err2          string   `json:"err2"`
	R2            jRes     `json:"r2"`   // figures after the transformation
	Perm          []int    `json:"perm"` // permute: new position -> old line index (1-based)
	RoundingAfter []tr.Amt `json:"rounding_after"`
}

func emptyRes() jRes {
	z := tr.Amt{V: tr.BigOfInt(0)}
	return jRes{Lines: []jResLine{}, DAmts: []tr.Amt{}, CAmts: []tr.Amt{}, Discount: []tr.Amt{}, Charge: []tr.Amt{}, TaxIncluded: []tr.Amt{},
		Advance: []tr.Amt{}, Due: []tr.Amt{}, Advs: []tr.Amt{}, Dues: []tr.Amt{}, Taxes: jSummary{Cats: []jCat{}, Sum: z, PSum: z},
		Sum: z, Total: z, Tax: z, TWT: z, Payable: z}
}

var cdCur = map[int]string{0: "JPY", 2: "EUR", 3: "KWD"}

func comboJSON(cs []jCombo) []any {
	out := []any{}
	for _, c := range cs {
		m := map[string]any{"cat": c.Cat}
		if len(c.Pct) > 0 {
			m["percent"] = toPct(c.Pct[0]).String()
		} else {
			m["rate"] = "exempt"
			if len(c.Stale) > 0 {
				m["percent"] = toPct(c.Stale[0]).String()
				if len(c.Stale) > 1 {
					m["surcharge"] = toPct(c.Stale[1]).String()
				}
			}
		}
		if len(c.Sur) > 0 {
			m["surcharge"] = toPct(c.Sur[0]).String()
		}
		if c.Country != "" {
			m["country"] = c.Country
		}
		if c.Ext != "" {
			m["ext"] = extParse(c.Ext)
		}
		out = append(out, m)
	}
	return out
}

func docJSON(d jDoc, kind, reg string, explicitRule bool) ([]byte, error) {
	cur := cdCur[d.CD]
	doc := map[string]any{
		"$schema": "https://gobl.org/draft-0/bill/" + kind, "$regime": reg, "currency": cur,
		"uuid": "0190d2c4-6e2e-7c0c-9d1e-0a1b2c3d4e5f", "issue_date": "2024-06-13", "series": "T", "code": "1",
		"supplier": map[string]any{"name": "Supplier", "tax_id": map[string]any{"country": reg}},
		"customer": map[string]any{"name": "Customer"},
	}
	tx := map[string]any{}
	if explicitRule {
		tx["rounding"] = d.RR
	}
	if d.Inc != "" {
		tx["prices_include"] = d.Inc
	}
	if len(tx) > 0 {
		doc["tax"] = tx
	}
	discJSON := func(xs []jLineAdj) []any {
		ds := []any{}
		for _, x := range xs {
			m := map[string]any{"reason": "d", "amount": amtString(x.Amount)}
			if len(x.Pct) > 0 {
				m["percent"] = toPct(x.Pct[0]).String()
			}
			if len(x.Base) > 0 {
				m["base"] = amtString(x.Base[0])
			}
			ds = append(ds, m)
		}
		return ds
	}
	chgJSON := func(xs []jLineChg) []any {
		cs := []any{}
		for _, x := range xs {
			m := map[string]any{"reason": "c", "amount": amtString(x.Amount)}
			if len(x.Pct) > 0 {
				m["percent"] = toPct(x.Pct[0]).String()
			}
			if len(x.Base) > 0 {
				m["base"] = amtString(x.Base[0])
			}
			if len(x.Rate) > 0 {
				m["rate"] = amtString(x.Rate[0])
			}
			if len(x.Q) > 0 {
				m["quantity"] = amtString(x.Q[0])
			}
			cs = append(cs, m)
		}
		return cs
	}
	// foreign-currency items: a made-up source currency per item precision, one exchange rate per source
	// currency; an alternative price is given in the document's currency and wins over the rate
	fxCur := map[int]string{0: "JPY", 2: "USD", 3: "BHD"}
	rates := []any{}
	seenRate := map[string]bool{}
	itemJSON := func(price tr.Amt, icd int, fx, alt []tr.Amt) map[string]any {
		item := map[string]any{"name": "item", "price": amtString(price)}
		if len(fx) == 0 && len(alt) == 0 {
			return item
		}
		from := fxCur[icd]
		if from == cur {
			from = map[int]string{0: "KRW", 2: "GBP", 3: "TND"}[icd]
		}
		item["currency"] = from
		if len(alt) > 0 {
			item["alt_prices"] = []any{map[string]any{"currency": cur, "value": amtString(alt[0])}}
		}
		if len(fx) > 0 && !seenRate[from] {
			seenRate[from] = true
			rates = append(rates, map[string]any{"from": from, "to": cur, "amount": amtString(fx[0])})
		}
		return item
	}
	lines := []any{}
	for _, l := range d.Lines {
		ln := map[string]any{"quantity": amtString(l.Qty), "item": itemJSON(l.Price, l.ICD, l.FX, l.Alt)}
		if len(l.Subs) > 0 {
			// the price comes from the breakdown: the parent item's own price, currency and alternative
			// prices (kept in the input) are replaced by it
			bd := []any{}
			for _, sl := range l.Subs {
				sm := map[string]any{"quantity": amtString(sl.Qty), "item": itemJSON(sl.Price, sl.ICD, sl.FX, sl.Alt)}
				if ds := discJSON(sl.Discounts); len(ds) > 0 {
					sm["discounts"] = ds
				}
				if cs := chgJSON(sl.Charges); len(cs) > 0 {
					sm["charges"] = cs
				}
				bd = append(bd, sm)
			}
			ln["breakdown"] = bd
		}
		if ds := discJSON(l.Discounts); len(ds) > 0 {
			ln["discounts"] = ds
		}
		if cs := chgJSON(l.Charges); len(cs) > 0 {
			ln["charges"] = cs
		}
		if len(l.Taxes) > 0 {
			ln["taxes"] = comboJSON(l.Taxes)
		}
		lines = append(lines, ln)
	}
	doc["lines"] = lines
	adj := func(xs []jDocAdj, reason string) []any {
		out := []any{}
		for _, x := range xs {
			m := map[string]any{"reason": reason, "amount": amtString(x.Amount)}
			if len(x.Pct) > 0 {
				m["percent"] = toPct(x.Pct[0]).String()
			}
			if len(x.Base) > 0 {
				m["base"] = amtString(x.Base[0])
			}
			if len(x.Taxes) > 0 {
				m["taxes"] = comboJSON(x.Taxes)
			}
			out = append(out, m)
		}
		return out
	}
	if len(d.Discounts) > 0 {
		doc["discounts"] = adj(d.Discounts, "dd")
	}
	if len(d.Charges) > 0 {
		doc["charges"] = adj(d.Charges, "dc")
	}
	pay := map[string]any{}
	if len(d.Advances) > 0 {
		as := []any{}
		for _, a := range d.Advances {
			m := map[string]any{"description": "adv"}
			if len(a.Pct) > 0 {
				m["percent"] = toPct(a.Pct[0]).String()
			} else {
				m["amount"] = amtString(a.Amount)
			}
			as = append(as, m)
		}
		pay["advances"] = as
	}
	if len(d.Dues) > 0 {
		ds := []any{}
		for i, a := range d.Dues {
			m := map[string]any{"date": fmt.Sprintf("2024-07-%02d", i+1)}
			if len(a.Pct) > 0 {
				m["percent"] = toPct(a.Pct[0]).String()
			} else {
				m["amount"] = amtString(a.Amount)
			}
			ds = append(ds, m)
		}
		pay["terms"] = map[string]any{"due_dates": ds}
	}
	if len(pay) > 0 {
		doc["payment"] = pay
	}
	if len(d.Rounding) > 0 {
		doc["totals"] = map[string]any{"rounding": amtString(d.Rounding[0])}
	}
	if d.PreCur != "" {
		doc["preceding"] = []any{map[string]any{"code": "PRE-1", "issue_date": "2024-01-02", "currency": d.PreCur}}
	}
	if len(rates) > 0 {
		doc["exchange_rates"] = rates
	}
	return json.Marshal(doc)
}

func optAmt(a *num.Amount) []tr.Amt {
	if a == nil {
		return []tr.Amt{}
	}
	return []tr.Amt{amtOf(*a)}
}

type billDoc struct {
	lines     []*bill.Line
	discounts []*bill.Discount
	charges   []*bill.Charge
	payment   *bill.PaymentDetails
	totals    *bill.Totals
}

func projectBill(b billDoc) jRes {
	r := emptyRes()
	for _, l := range b.lines {
		rl := jResLine{DAmts: []tr.Amt{}, CAmts: []tr.Amt{}, Subs: []jResSub{}}
		for _, sl := range l.Breakdown {
			rs := jResSub{}
			if sl.Item != nil && sl.Item.Price != nil {
				rs.Price = amtOf(*sl.Item.Price)
			}
			if sl.Sum != nil {
				rs.Sum = amtOf(*sl.Sum)
			}
			if sl.Total != nil {
				rs.Total = amtOf(*sl.Total)
			}
			rl.Subs = append(rl.Subs, rs)
		}
		if l.Item != nil && l.Item.Price != nil {
			rl.Price = amtOf(*l.Item.Price)
		}
		if l.Sum != nil {
			rl.Sum = amtOf(*l.Sum)
		}
		if l.Total != nil {
			rl.Total = amtOf(*l.Total)
		}
		for _, d := range l.Discounts {
			rl.DAmts = append(rl.DAmts, amtOf(d.Amount))
		}
		for _, c := range l.Charges {
			rl.CAmts = append(rl.CAmts, amtOf(c.Amount))
		}
		r.Lines = append(r.Lines, rl)
	}
	for _, d := range b.discounts {
		r.DAmts = append(r.DAmts, amtOf(d.Amount))
	}
	for _, c := range b.charges {
		r.CAmts = append(r.CAmts, amtOf(c.Amount))
	}
	t := b.totals
	if t == nil {
		return r
	}
	r.Sum, r.Total, r.Tax, r.TWT, r.Payable = amtOf(t.Sum), amtOf(t.Total), amtOf(t.Tax), amtOf(t.TotalWithTax), amtOf(t.Payable)
	r.Discount, r.Charge, r.TaxIncluded, r.Advance, r.Due = optAmt(t.Discount), optAmt(t.Charge), optAmt(t.TaxIncluded), optAmt(t.Advances), optAmt(t.Due)
	if b.payment != nil {
		for _, a := range b.payment.Advances {
			r.Advs = append(r.Advs, amtOf(a.Amount))
		}
		if b.payment.Terms != nil {
			for _, dd := range b.payment.Terms.DueDates {
				r.Dues = append(r.Dues, amtOf(dd.Amount))
			}
		}
	}
	r.Taxes = summaryOf(t.Taxes, true)
	if t.Taxes == nil {
		z := tr.Amt{V: tr.BigOfInt(0), E: r.Sum.E}
		r.Taxes.Sum, r.Taxes.PSum = z, z
	}
	return r
}

func invoiceBill(inv *bill.Invoice) billDoc {
	return billDoc{lines: inv.Lines, discounts: inv.Discounts, charges: inv.Charges, payment: inv.Payment, totals: inv.Totals}
}

// combos as the calculator resolved them (retained flags, countries) are logged back into the document
func resolveCombos(d *jDoc, reg string, inv *bill.Invoice) {
	fix := func(cs []jCombo, set tax.Set) {
		for i := range cs {
			if i < len(set) {
				cc := string(set[i].Country)
				if cc == "" {
					cc = reg
				}
				cs[i].Ret = retainedIn(cc, cs[i].Cat)
				cs[i].Key = string(set[i].Rate)
				cs[i].Ext = extString(set[i].Ext)
			}
		}
	}
	for i := range d.Lines {
		if i < len(inv.Lines) {
			fix(d.Lines[i].Taxes, inv.Lines[i].Taxes)
		}
	}
	for i := range d.Discounts {
		if i < len(inv.Discounts) {
			fix(d.Discounts[i].Taxes, inv.Discounts[i].Taxes)
		}
	}
	for i := range d.Charges {
		if i < len(inv.Charges) {
			fix(d.Charges[i].Taxes, inv.Charges[i].Taxes)
		}
	}
}

func normAdj(ds []jLineAdj, cs []jLineChg) {
	for j := range ds {
		if ds[j].Pct == nil {
			ds[j].Pct = []tr.Amt{}
		}
		if ds[j].Base == nil {
			ds[j].Base = []tr.Amt{}
		}
	}
	for j := range cs {
		if cs[j].Pct == nil {
			cs[j].Pct = []tr.Amt{}
		}
		if cs[j].Base == nil {
			cs[j].Base = []tr.Amt{}
		}
		if cs[j].Rate == nil {
			cs[j].Rate = []tr.Amt{}
		}
		if cs[j].Q == nil {
			cs[j].Q = []tr.Amt{}
		}
	}
}

func normDoc(d *jDoc) {
	if d.Rounding == nil {
		d.Rounding = []tr.Amt{}
	}
	for i := range d.Lines {
		l := &d.Lines[i]
		if l.FX == nil {
			l.FX = []tr.Amt{}
		}
		if l.Alt == nil {
			l.Alt = []tr.Amt{}
		}
		if l.Subs == nil {
			l.Subs = []jSub{}
		}
		for k := range l.Subs {
			sl := &l.Subs[k]
			if sl.FX == nil {
				sl.FX = []tr.Amt{}
			}
			if sl.Alt == nil {
				sl.Alt = []tr.Amt{}
			}
			if sl.Discounts == nil {
				sl.Discounts = []jLineAdj{}
			}
			if sl.Charges == nil {
				sl.Charges = []jLineChg{}
			}
			normAdj(sl.Discounts, sl.Charges)
		}
		if l.Taxes == nil {
			l.Taxes = []jCombo{}
		}
		if l.Discounts == nil {
			l.Discounts = []jLineAdj{}
		}
		if l.Charges == nil {
			l.Charges = []jLineChg{}
		}
		normAdj(l.Discounts, l.Charges)
	}
	if d.Discounts == nil {
		d.Discounts = []jDocAdj{}
	}
	if d.Charges == nil {
		d.Charges = []jDocAdj{}
	}
	fixAdj := func(xs []jDocAdj) {
		for i := range xs {
			if xs[i].Pct == nil {
				xs[i].Pct = []tr.Amt{}
			}
			if xs[i].Base == nil {
				xs[i].Base = []tr.Amt{}
			}
			if xs[i].Taxes == nil {
				xs[i].Taxes = []jCombo{}
			}
			for j := range xs[i].Taxes {
				if xs[i].Taxes[j].Sur == nil {
					xs[i].Taxes[j].Sur = []tr.Amt{}
				}
				if xs[i].Taxes[j].Pct == nil {
					xs[i].Taxes[j].Pct = []tr.Amt{}
				}
			}
		}
	}
	fixAdj(d.Discounts)
	fixAdj(d.Charges)
	for i := range d.Advances {
		if d.Advances[i].Pct == nil {
			d.Advances[i].Pct = []tr.Amt{}
		}
	}
	for i := range d.Dues {
		if d.Dues[i].Pct == nil {
			d.Dues[i].Pct = []tr.Amt{}
		}
	}
	if d.Advances == nil {
		d.Advances = []jPay{}
	}
	if d.Dues == nil {
		d.Dues = []jPay{}
	}
}

// calcRun: calculate the document as an invoice and derive the metamorphic events.
func calcRun(w *tr.Writer, d jDoc, reg string, explicitRule bool, meta bool, r *rand.Rand) {
	normDoc(&d)
	ev := calcEvent{K: "calc", Kind: "invoice", Reg: reg, D: d, R: emptyRes(), R2: emptyRes(), Perm: []int{}, RoundingAfter: []tr.Amt{}}
	if !explicitRule {
		ev.Reg = reg + "+default"
	}
	var inv *bill.Invoice
	func() {
		defer func() {
			if p := recover(); p != nil {
				ev.Ok, ev.Err = false, fmt.Sprintf("panic:%v", p)
			}
		}()
		data, err := docJSON(d, "invoice", reg, explicitRule)
		if err != nil {
			ev.Err = "harness:" + err.Error()
			return
		}
		inv = new(bill.Invoice)
		if err := json.Unmarshal(data, inv); err != nil {
			ev.Err = "harness-parse:" + err.Error()
			inv = nil
			return
		}
		if err := inv.Calculate(); err != nil {
			ev.Err = err.Error()
			inv = nil
			return
		}
		ev.Ok = true
		resolveCombos(&ev.D, reg, inv)
		ev.R = projectBill(invoiceBill(inv))
	}()
	w.Emit(ev)
	if !ev.Ok || !meta {
		return
	}
	d = ev.D
	// orders and deliveries share the calculation
	for _, kind := range []string{"order", "delivery"} {
		ev2 := calcEvent{K: "calc", Kind: kind, Reg: ev.Reg, D: d, R: emptyRes(), R2: emptyRes(), Perm: []int{}, RoundingAfter: []tr.Amt{}}
		func() {
			defer func() {
				if p := recover(); p != nil {
					ev2.Ok, ev2.Err = false, fmt.Sprintf("panic:%v", p)
				}
			}()
			dk := d
			if kind == "delivery" {
				dk.Advances, dk.Dues = []jPay{}, []jPay{} // deliveries carry no payment details
				ev2.D = dk
			}
			data, _ := docJSON(dk, kind, reg, explicitRule)
			if kind == "order" {
				o := new(bill.Order)
				if err := json.Unmarshal(data, o); err != nil {
					ev2.Err = "harness-parse:" + err.Error()
					return
				}
				if err := o.Calculate(); err != nil {
					ev2.Err = err.Error()
					return
				}
				ev2.Ok, ev2.R = true, projectBill(billDoc{lines: o.Lines, discounts: o.Discounts, charges: o.Charges, payment: o.Payment, totals: o.Totals})
			} else {
				o := new(bill.Delivery)
				if err := json.Unmarshal(data, o); err != nil {
					ev2.Err = "harness-parse:" + err.Error()
					return
				}
				if err := o.Calculate(); err != nil {
					ev2.Err = err.Error()
					return
				}
				ev2.Ok, ev2.R = true, projectBill(billDoc{lines: o.Lines, discounts: o.Discounts, charges: o.Charges, totals: o.Totals})
			}
		}()
		if r.Intn(4) == 0 || !ev2.Ok {
			w.Emit(ev2)
		}
	}
	reparse := func() *bill.Invoice {
		data, _ := docJSON(d, "invoice", reg, explicitRule)
		x := new(bill.Invoice)
		if json.Unmarshal(data, x) != nil || x.Calculate() != nil {
			return nil
		}
		return x
	}
	// converting into another currency gives a new document: the one converted keeps its own figures
	if r.Intn(3) == 0 {
		rate := func(from currency.Code) *currency.ExchangeRate {
			return &currency.ExchangeRate{From: from, To: "MXN", Amount: num.MakeAmount(185000, 4)}
		}
		var probeK func(k, kind string, proj func() jRes, recalc, conv func() error)
		probe := func(kind string, proj func() jRes, recalc, conv func() error) {
			probeK("convert", kind, proj, recalc, conv)
		}
		probeK = func(k, kind string, proj func() jRes, recalc, conv func() error) {
			skip := false
			e := calcEvent{K: k, Kind: kind, Reg: ev.Reg, D: d, Ok: true, R: emptyRes(), R2: emptyRes(), Perm: []int{}, RoundingAfter: []tr.Amt{}}
			func() {
				defer func() {
					if p := recover(); p != nil {
						e.Ok2, e.Err2 = false, fmt.Sprintf("panic:%v", p)
					}
				}()
				e.R = proj()
				// only documents that calculating again leaves as they are: ConvertInto first recalculates the document
				// it converts, and inputs with more decimals than the currency are rounded when presented (C04's subject)
				if recalc() != nil || fmt.Sprint(proj()) != fmt.Sprint(e.R) {
					skip = true
					return
				}
				err := conv()
				e.Ok2 = err == nil
				if err != nil {
					e.Err2 = err.Error()
				}
				e.R2 = proj()
			}()
			if !skip {
				w.Emit(e)
			}
		}
		if x := reparse(); x != nil && x.Currency != "MXN" {
			x.ExchangeRates = append(x.ExchangeRates, rate(x.Currency))
			probe("invoice", func() jRes { return projectBill(invoiceBill(x)) }, x.Calculate, func() error { _, err := x.ConvertInto("MXN"); return err })
		}
		// ... also when the converted copy is then inverted and the original calculated again
		if x := reparse(); x != nil && x.Currency != "MXN" {
			x.ExchangeRates = append(x.ExchangeRates, rate(x.Currency))
			probeK("convert-invert", "invoice", func() jRes { return projectBill(invoiceBill(x)) }, x.Calculate, func() error {
				c, err := x.ConvertInto("MXN")
				if err != nil || c == nil {
					return err
				}
				_ = c.Invert()
				return x.Calculate()
			})
		}
		if data, err := docJSON(d, "order", reg, explicitRule); err == nil {
			o := new(bill.Order)
			if json.Unmarshal(data, o) == nil && o.Calculate() == nil && o.Currency != "MXN" {
				o.ExchangeRates = append(o.ExchangeRates, rate(o.Currency))
				probe("order", func() jRes {
					return projectBill(billDoc{lines: o.Lines, discounts: o.Discounts, charges: o.Charges, payment: o.Payment, totals: o.Totals})
				}, o.Calculate, func() error { _, err := o.ConvertInto("MXN"); return err })
			}
		}
		dk := d
		dk.Advances, dk.Dues = []jPay{}, []jPay{}
		if data, err := docJSON(dk, "delivery", reg, explicitRule); err == nil {
			o := new(bill.Delivery)
			if json.Unmarshal(data, o) == nil && o.Calculate() == nil && o.Currency != "MXN" {
				o.ExchangeRates = append(o.ExchangeRates, rate(o.Currency))
				probe("delivery", func() jRes {
					return projectBill(billDoc{lines: o.Lines, discounts: o.Discounts, charges: o.Charges, totals: o.Totals})
				},
					o.Calculate, func() error { _, err := o.ConvertInto("MXN"); return err })
			}
		}
	}
	// Invert, twice
	if x := reparse(); x != nil {
		e := calcEvent{K: "invert", Kind: "invoice", Reg: ev.Reg, D: d, Ok: true, R: ev.R, R2: emptyRes(), Perm: []int{}, RoundingAfter: []tr.Amt{}}
		func() {
			defer func() {
				if p := recover(); p != nil {
					e.Ok2, e.Err2 = false, fmt.Sprintf("panic:%v", p)
				}
			}()
			if err := x.Invert(); err != nil {
				e.Err2 = err.Error()
				return
			}
			e.Ok2, e.R2 = true, projectBill(invoiceBill(x))
		}()
		w.Emit(e)
		if e.Ok2 {
			e3 := calcEvent{K: "invert2", Kind: "invoice", Reg: ev.Reg, D: d, Ok: true, R: ev.R, R2: emptyRes(), Perm: []int{}, RoundingAfter: []tr.Amt{}}
			if err := x.Invert(); err != nil {
				e3.Err2 = err.Error()
			} else {
				e3.Ok2, e3.R2 = true, projectBill(invoiceBill(x))
			}
			w.Emit(e3)
		}
	}
	// permutation of the lines (and reversal of discounts / charges)
	if len(d.Lines) > 1 || len(d.Discounts) > 1 || len(d.Charges) > 1 {
		data, _ := docJSON(d, "invoice", reg, explicitRule)
		x := new(bill.Invoice)
		if json.Unmarshal(data, x) == nil {
			perm := r.Perm(len(x.Lines))
			nl := make([]*bill.Line, len(x.Lines))
			e := calcEvent{K: "permute", Kind: "invoice", Reg: ev.Reg, D: d, Ok: true, R: ev.R, R2: emptyRes(), Perm: []int{}, RoundingAfter: []tr.Amt{}}
			for i, p := range perm {
				nl[i] = x.Lines[p]
				e.Perm = append(e.Perm, p+1)
			}
			x.Lines = nl
			for i, j := 0, len(x.Discounts)-1; i < j; i, j = i+1, j-1 {
				x.Discounts[i], x.Discounts[j] = x.Discounts[j], x.Discounts[i]
			}
			for i, j := 0, len(x.Charges)-1; i < j; i, j = i+1, j-1 {
				x.Charges[i], x.Charges[j] = x.Charges[j], x.Charges[i]
			}
			if err := x.Calculate(); err != nil {
				e.Err2 = err.Error()
			} else {
				e.Ok2, e.R2 = true, projectBill(invoiceBill(x))
			}
			w.Emit(e)
		}
	}
	// a document calculated earlier in another state (tax included or not, further adjustments, an advance) and then
	// edited into this one, its totals still in place: nothing of the earlier figures survives the calculation
	func() {
		dp := d
		if d.Inc == "" {
			dp.Inc = "VAT"
		} else {
			dp.Inc = ""
		}
		unit := int64(1)
		for k := 0; k < d.CD; k++ {
			unit *= 10
		}
		one := tr.Amt{V: tr.BigOfInt(unit), E: d.CD}
		dp.Discounts = append(append([]jDocAdj{}, d.Discounts...), jDocAdj{Pct: []tr.Amt{}, Base: []tr.Amt{}, Amount: one, Taxes: []jCombo{}})
		dp.Charges = append(append([]jDocAdj{}, d.Charges...), jDocAdj{Pct: []tr.Amt{}, Base: []tr.Amt{}, Amount: one, Taxes: []jCombo{}})
		dp.Advances = append(append([]jPay{}, d.Advances...), jPay{Pct: []tr.Amt{}, Amount: one})
		dataP, err := docJSON(dp, "invoice", reg, explicitRule)
		if err != nil {
			return
		}
		xp := new(bill.Invoice)
		if json.Unmarshal(dataP, xp) != nil || xp.Calculate() != nil {
			return
		}
		outP, _ := json.Marshal(xp)
		var mp, m map[string]any
		data, _ := docJSON(d, "invoice", reg, explicitRule)
		if json.Unmarshal(outP, &mp) != nil || json.Unmarshal(data, &m) != nil || mp["totals"] == nil {
			return
		}
		if t, ok := m["totals"].(map[string]any); ok {
			// what the input itself says about totals (a rounding) stays
			st := mp["totals"].(map[string]any)
			for k, v := range t {
				st[k] = v
			}
		}
		m["totals"] = mp["totals"]
		b, _ := json.Marshal(m)
		e := calcEvent{K: "stale", Kind: "invoice", Reg: ev.Reg, D: d, Ok: true, R: ev.R, R2: emptyRes(), Perm: []int{}, RoundingAfter: []tr.Amt{}}
		func() {
			defer func() {
				if p := recover(); p != nil {
					e.Ok2, e.Err2 = false, fmt.Sprintf("panic:%v", p)
				}
			}()
			x := new(bill.Invoice)
			if err := json.Unmarshal(b, x); err != nil {
				e.Err2 = "harness-parse:" + err.Error()
				return
			}
			if err := x.Calculate(); err != nil {
				e.Err2 = err.Error()
				return
			}
			e.Ok2, e.R2 = true, projectBill(invoiceBill(x))
		}()
		if !strings.HasPrefix(e.Err2, "harness-parse:") {
			w.Emit(e)
		}
	}()
	// removal of included taxes
	if d.Inc != "" {
		if x := reparse(); x != nil {
			e := calcEvent{K: "removeinc", Kind: "invoice", Reg: ev.Reg, D: d, Ok: true, R: ev.R, R2: emptyRes(), Perm: []int{}, RoundingAfter: []tr.Amt{}}
			func() {
				defer func() {
					if p := recover(); p != nil {
						e.Ok2, e.Err2 = false, fmt.Sprintf("panic:%v", p)
					}
				}()
				if err := x.RemoveIncludedTaxes(); err != nil {
					e.Err2 = err.Error()
					return
				}
				e.Ok2, e.R2 = true, projectBill(invoiceBill(x))
				if x.Totals != nil {
					e.RoundingAfter = optAmt(x.Totals.Rounding)
				}
			}()
			w.Emit(e)
		}
	}
}

func calcReplay(in, out string, seed int64) error {
	w, err := tr.NewWriter(out)
	if err != nil {
		return err
	}
	r := rand.New(rand.NewSource(seed))
	err = tr.ReadLines(in, func(line []byte) error {
		var d jDoc
		if err := json.Unmarshal(line, &d); err != nil {
			return err
		}
		calcRun(w, d, "ES", true, true, r)
		return nil
	})
	if err != nil {
		return err
	}
	fmt.Printf("events=%d\n", w.N)
	return w.Close()
}

// ---- random documents ---------------------------------------------------------------

func rAmt(r *rand.Rand, maxv int64, maxe int, neg bool) tr.Amt {
	e := r.Intn(maxe + 1)
	v := r.Int63n(maxv)
	switch r.Intn(5) {
	case 0:
		v = (v / 100) * 100
	case 1:
		v = v/10*10 + 5
	}
	if neg && r.Intn(6) == 0 {
		v = -v
	}
	return tr.Amt{V: tr.BigOfInt(v), E: e}
}

func rCombos(r *rand.Rand) []jCombo {
	out := []jCombo{}
	if r.Intn(8) == 0 {
		return out
	}
	cb := jCombo{Cat: "VAT", Pct: []tr.Amt{randPct(r)}, Sur: []tr.Amt{}}
	switch r.Intn(7) {
	case 0:
		cb.Pct = []tr.Amt{}
		switch r.Intn(3) {
		case 0:
			cb.Stale = []tr.Amt{{V: tr.BigOfInt(21), E: 2}}
		case 1:
			cb.Stale = []tr.Amt{{V: tr.BigOfInt(21), E: 2}, {V: tr.BigOfInt(52), E: 3}}
		}
	case 1:
		cb.Sur = []tr.Amt{{V: tr.BigOfInt(52), E: 3}}
	}
	out = append(out, cb)
	if r.Intn(4) == 0 {
		out = append(out, jCombo{Cat: "IRPF", Pct: []tr.Amt{{V: tr.BigOfInt(15), E: 2}}, Sur: []tr.Amt{}})
	}
	return out
}

func randDoc(r *rand.Rand) jDoc {
	d := jDoc{CD: []int{0, 2, 2, 2, 3}[r.Intn(5)], RR: []string{"precise", "currency"}[r.Intn(2)]}
	if r.Intn(3) == 0 {
		d.Inc = "VAT"
	}
	cdAmt := func(maxv int64) tr.Amt { // amounts at the currency's precision
		a := rAmt(r, maxv, 0, false)
		a.E = d.CD
		return a
	}
	n := 1 + r.Intn(6)
	if r.Intn(10) == 0 {
		n = 10 + r.Intn(41)
	}
	// one exchange rate per source currency (chosen per document)
	fxRates := map[int]tr.Amt{}
	for _, k := range []int{0, 2, 3} {
		fxRates[k] = tr.Amt{V: tr.BigOfInt(1 + r.Int63n(2000000)), E: 4}
	}
	for i := 0; i < n; i++ {
		// prices below 5000.00 with 0-6 decimals, quantities below 100 with 0-2 decimals, either sign
		scaled := func(units int64, baseExp, maxExtra int) tr.Amt {
			v, e := r.Int63n(units), baseExp
			switch r.Intn(5) {
			case 0:
				v = v / 100 * 100
			case 1:
				v = v/10*10 + 5
			}
			for k := r.Intn(maxExtra + 1); k > 0; k-- {
				v, e = v*10+int64(r.Intn(10)), e+1
			}
			for e > 0 && r.Intn(3) == 0 && v%10 == 0 {
				v, e = v/10, e-1
			}
			if r.Intn(6) == 0 {
				v = -v
			}
			return tr.Amt{V: tr.BigOfInt(v), E: e}
		}
		l := jLine{Qty: scaled(10000, 2, 0), Price: scaled(500000, 2, 4), ICD: d.CD, Taxes: rCombos(r)}
		if r.Intn(3) == 0 {
			l.Qty = tr.Amt{V: tr.BigOfInt(int64(1 + r.Intn(20))), E: 0}
		}
		if r.Intn(8) == 0 {
			l.ICD = []int{0, 2, 3}[r.Intn(3)]
			l.FX = []tr.Amt{fxRates[l.ICD]}
			l.Price = scaled(500000, l.ICD, 2)
		}
		if len(l.FX) > 0 && r.Intn(3) == 0 {
			// an alternative price in the document's currency (it wins over the exchange rate)
			l.Alt = []tr.Amt{scaled(500000, d.CD, 2)}
			if r.Intn(2) == 0 {
				l.FX = nil
			}
		}
		if r.Intn(8) == 0 {
			// the price comes from a breakdown of 1-3 sub-lines
			for k := 1 + r.Intn(3); k > 0; k-- {
				// magnitudes stay small: the line multiplies the breakdown's total by its own quantity
				sl := jSub{Qty: scaled(100, 1, 0), Price: scaled(20000, 2, 2), ICD: d.CD}
				if r.Intn(3) == 0 {
					// prices with fewer decimals than the currency ("10.5", "2")
					sl.Price = tr.Amt{V: tr.BigOfInt(int64(1 + r.Intn(300))), E: r.Intn(2)}
				}
				if r.Intn(3) == 0 {
					sl.Qty = tr.Amt{V: tr.BigOfInt(int64(1 + r.Intn(9))), E: 0}
				}
				if r.Intn(6) == 0 {
					sl.ICD = []int{0, 2, 3}[r.Intn(3)]
					sl.FX = []tr.Amt{fxRates[sl.ICD]}
					sl.Price = scaled(300, 0, 1)
					sl.Qty = tr.Amt{V: tr.BigOfInt(int64(1 + r.Intn(9))), E: 0}
				}
				if r.Intn(3) == 0 {
					x := jLineAdj{Amount: cdAmt(500)}
					if r.Intn(2) == 0 {
						x.Pct = []tr.Amt{{V: tr.BigOfInt(int64(r.Intn(500))), E: 3}}
					}
					sl.Discounts = append(sl.Discounts, x)
				}
				if r.Intn(4) == 0 {
					x := jLineChg{Amount: cdAmt(500)}
					if r.Intn(2) == 0 {
						x.Rate = []tr.Amt{{V: tr.BigOfInt(int64(r.Intn(1000))), E: 2}}
					}
					sl.Charges = append(sl.Charges, x)
				}
				l.Subs = append(l.Subs, sl)
			}
			if r.Intn(3) != 0 {
				l.FX, l.Alt, l.ICD = nil, nil, d.CD
			} else if len(l.FX) == 0 {
				// a parent item priced in another currency: its price and currency give way to the breakdown's
				l.ICD = []int{0, 2, 3}[r.Intn(3)]
				l.FX = []tr.Amt{fxRates[l.ICD]}
			}
			l.Qty = tr.Amt{V: tr.BigOfInt(int64(1 + r.Intn(20))), E: 0}
			if r.Intn(6) == 0 {
				l.Qty.V = tr.BigOfInt(-int64(1 + r.Intn(20)))
			}
		}
		for k := r.Intn(3); k > 0; k-- {
			x := jLineAdj{Amount: cdAmt(5000)}
			if r.Intn(2) == 0 {
				x.Pct = []tr.Amt{{V: tr.BigOfInt(int64(r.Intn(500))), E: 3}}
				if r.Intn(3) == 0 {
					x.Base = []tr.Amt{cdAmt(100000)}
				}
			}
			l.Discounts = append(l.Discounts, x)
		}
		for k := r.Intn(3); k > 0; k-- {
			x := jLineChg{Amount: cdAmt(5000)}
			switch r.Intn(3) {
			case 0:
				x.Pct = []tr.Amt{{V: tr.BigOfInt(int64(r.Intn(500))), E: 3}}
				if r.Intn(3) == 0 {
					x.Base = []tr.Amt{cdAmt(100000)}
				}
			case 1:
				x.Rate = []tr.Amt{{V: tr.BigOfInt(int64(r.Intn(1000))), E: 2 + r.Intn(2)}}
				if r.Intn(2) == 0 {
					x.Q = []tr.Amt{{V: tr.BigOfInt(int64(r.Intn(100))), E: r.Intn(2)}}
				}
			}
			l.Charges = append(l.Charges, x)
		}
		d.Lines = append(d.Lines, l)
	}
	for k := r.Intn(3); k > 0; k-- {
		x := jDocAdj{Amount: cdAmt(10000), Taxes: rCombos(r)}
		if r.Intn(2) == 0 {
			x.Pct = []tr.Amt{{V: tr.BigOfInt(int64(r.Intn(300))), E: 3}}
			if r.Intn(3) == 0 {
				x.Base = []tr.Amt{cdAmt(1000000)}
			}
		}
		d.Discounts = append(d.Discounts, x)
	}
	for k := r.Intn(3); k > 0; k-- {
		x := jDocAdj{Amount: cdAmt(10000), Taxes: rCombos(r)}
		if r.Intn(2) == 0 {
			x.Pct = []tr.Amt{{V: tr.BigOfInt(int64(r.Intn(300))), E: 3}}
			if r.Intn(3) == 0 {
				x.Base = []tr.Amt{cdAmt(1000000)}
			}
		}
		d.Charges = append(d.Charges, x)
	}
	for k := r.Intn(3); k > 0; k-- {
		a := jPay{Amount: cdAmt(50000)}
		if r.Intn(2) == 0 {
			a.Pct = []tr.Amt{{V: tr.BigOfInt(int64(1 + r.Intn(99))), E: 2}}
		}
		d.Advances = append(d.Advances, a)
	}
	if r.Intn(3) == 0 {
		d.Dues = []jPay{{Pct: []tr.Amt{{V: tr.BigOfInt(40), E: 2}}, Amount: tr.Amt{V: tr.BigOfInt(0), E: d.CD}},
			{Pct: []tr.Amt{{V: tr.BigOfInt(60), E: 2}}, Amount: tr.Amt{V: tr.BigOfInt(0), E: d.CD}}}
	}
	if r.Intn(6) == 0 {
		d.Rounding = []tr.Amt{{V: tr.BigOfInt(int64(r.Intn(5)) - 2), E: d.CD}}
	}
	if r.Intn(5) == 0 {
		d.PreCur = []string{"JPY", "USD", "KWD", "EUR"}[r.Intn(4)]
	}
	if r.Intn(8) == 0 {
		// nothing is taxed at all: the tax sum is a plain zero of the currency's precision
		for i := range d.Lines {
			d.Lines[i].Taxes = []jCombo{}
		}
		for i := range d.Discounts {
			d.Discounts[i].Taxes = []jCombo{}
		}
		for i := range d.Charges {
			d.Charges[i].Taxes = []jCombo{}
		}
		d.Inc = ""
	}
	return d
}

func calcRecord(seed int64, n int, out string) error {
	r := rand.New(rand.NewSource(seed))
	w, err := tr.NewWriter(out)
	if err != nil {
		return err
	}
	for i := 0; i < n; i++ {
		d := randDoc(r)
		reg, explicit := "ES", true
		if r.Intn(5) == 0 {
			// regime default rule: Greece rounds by currency, Spain precisely
			explicit = false
			if r.Intn(2) == 0 {
				reg, d.RR = "EL", "currency"
				for li := range d.Lines {
					ts := []jCombo{}
					for _, c := range d.Lines[li].Taxes {
						if c.Cat == "VAT" && len(c.Sur) == 0 {
							ts = append(ts, c)
						}
					}
					d.Lines[li].Taxes = ts
				}
				for li := range d.Discounts {
					d.Discounts[li].Taxes = nil
				}
				for li := range d.Charges {
					d.Charges[li].Taxes = nil
				}
			} else {
				d.RR = "precise"
			}
		}
		calcRun(w, d, reg, explicit, true, r)
	}
	fmt.Printf("events=%d\n", w.N)
	return w.Close()
}

func init() {
	register("calc-replay", func(args []string) error {
		fs := flag.NewFlagSet("calc-replay", flag.ExitOnError)
		in := fs.String("in", "", "documents ndjson from TLC")
		out := fs.String("out", "", "events ndjson")
		seed := fs.Int64("seed", 1, "seed")
		fs.Parse(args)
		return calcReplay(*in, *out, *seed)
	})
	register("calc-record", func(args []string) error {
		fs := flag.NewFlagSet("calc-record", flag.ExitOnError)
		seed := fs.Int64("seed", 1, "seed")
		n := fs.Int("n", 500, "documents")
		out := fs.String("out", "", "events ndjson")
		fs.Parse(args)
		return calcRecord(*seed, *n, *out)
	})
}
