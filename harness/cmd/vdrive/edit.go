package main

// edit: drivers for C08 - the header digest makes every change to the document
// evident.  For every calculated envelope (examples and generated documents)
// the harness produces content-preserving re-encodings and single edits at
// every position of the serialised document, parses the result with the real
// code, validates, recalculates and logs what happened.  Whether an edit
// changed the logical content is decided by an independent canonical form of
// the document JSON computed here (sorted members, null members dropped).

import (
	"bytes"
	"encoding/json"
	"flag"
	"fmt"
	"math/rand"
	"os"
	"path/filepath"
	"sort"
	"strings"

	"github.com/invopop/gobl"
	"goblverif/internal/tr"
)

type editEvent struct {
	K        string `json:"k"` // reencode | edit
	Doc      string `json:"doc"`
	Kind     string `json:"kind"` // style or edit kind
	Path     string `json:"path"`
	Parse    bool   `json:"parse"` // the text parsed into an envelope
	Panic    bool   `json:"panic"`
	Changed  bool   `json:"changed"`  // the parsed document's logical content differs from the original
	Validate string `json:"validate"` // outcome of Validate on the parsed envelope
	Recalc   bool   `json:"recalc"`   // Calculate succeeded
	Changed2 bool   `json:"changed2"` // content after recalculation differs from the original
	DigDiff  bool   `json:"digdiff"`  // digest after recalculation differs from the original digest
	Reuse    string `json:"reuse"`    // "same" | "differs": the text read into a value that already held the original envelope gives the same document as read into a fresh one
	Err      string `json:"err"`
}

// independent canonical form: members sorted, null members dropped, no white space
func canon(x any, buf *bytes.Buffer) {
	switch v := x.(type) {
	case map[string]any:
		keys := make([]string, 0, len(v))
		for k, y := range v {
			if y != nil {
				keys = append(keys, k)
			}
		}
		sort.Strings(keys)
		buf.WriteByte('{')
		for i, k := range keys {
			if i > 0 {
				buf.WriteByte(',')
			}
			kb, _ := json.Marshal(k)
			buf.Write(kb)
			buf.WriteByte(':')
			canon(v[k], buf)
		}
		buf.WriteByte('}')
	case []any:
		buf.WriteByte('[')
		for i, y := range v {
			if i > 0 {
				buf.WriteByte(',')
			}
			canon(y, buf)
		}
		buf.WriteByte(']')
	default:
		b, _ := json.Marshal(v)
		buf.Write(b)
	}
}

func canonOf(doc any) string {
	b, err := json.Marshal(doc)
	if err != nil {
		return "marshal-error"
	}
	var x any
	dec := json.NewDecoder(bytes.NewReader(b))
	dec.UseNumber()
	if dec.Decode(&x) != nil {
		return "decode-error"
	}
	var buf bytes.Buffer
	canon(x, &buf)
	return buf.String()
}

// re-encodings of a JSON value held as generic data
func reencode(x any, style string, sb *strings.Builder, depth int) {
	ws := func() {
		if style == "whitespace" || style == "all" {
			sb.WriteString([]string{" ", "\n  ", "\t", "\r\n "}[depth%4])
		}
	}
	str := func(s string) {
		if style == "escapes" || style == "all" {
			sb.WriteByte('"')
			for _, r := range s {
				if r > 0xFFFF {
					r2 := r - 0x10000
					fmt.Fprintf(sb, `\u%04x\u%04x`, 0xD800+(r2>>10), 0xDC00+(r2&0x3FF))
				} else if r == '/' {
					sb.WriteString(`\/`)
				} else if r > 0x7e || r < 0x20 || r == '"' || r == '\\' {
					fmt.Fprintf(sb, `\u%04X`, r)
				} else {
					sb.WriteRune(r)
				}
			}
			sb.WriteByte('"')
			return
		}
		b, _ := json.Marshal(s)
		sb.Write(b)
	}
	switch v := x.(type) {
	case map[string]any:
		keys := make([]string, 0, len(v))
		for k := range v {
			keys = append(keys, k)
		}
		sort.Strings(keys)
		if style == "reverse" || style == "all" {
			for i, j := 0, len(keys)-1; i < j; i, j = i+1, j-1 {
				keys[i], keys[j] = keys[j], keys[i]
			}
		}
		sb.WriteByte('{')
		for i, k := range keys {
			if i > 0 {
				sb.WriteByte(',')
			}
			ws()
			str(k)
			ws()
			sb.WriteByte(':')
			ws()
			reencode(v[k], style, sb, depth+1)
		}
		ws()
		sb.WriteByte('}')
	case []any:
		sb.WriteByte('[')
		for i, y := range v {
			if i > 0 {
				sb.WriteByte(',')
			}
			ws()
			reencode(y, style, sb, depth+1)
		}
		ws()
		sb.WriteByte(']')
	case string:
		str(v)
	default:
		b, _ := json.Marshal(v)
		sb.Write(b)
	}
}

type editCase struct {
	kind string
	path string
	text []byte
}

// allEdits produces every single edit of the document inside the envelope m.
func allEdits(m map[string]any, r *rand.Rand, cap int) []editCase {
	var out []editCase
	emit := func(kind, path string) {
		b, _ := json.Marshal(m)
		out = append(out, editCase{kind, path, b})
	}
	var walk func(x any, path string, set func(any), del func())
	walk = func(x any, path string, set func(any), del func()) {
		switch v := x.(type) {
		case map[string]any:
			keys := make([]string, 0, len(v))
			for k := range v {
				keys = append(keys, k)
			}
			sort.Strings(keys)
			for _, k := range keys {
				k := k
				old := v[k]
				// remove the member
				delete(v, k)
				emit("remove-member", path+"/"+k)
				v[k] = old
				walk(old, path+"/"+k, func(y any) { v[k] = y }, func() { delete(v, k) })
				v[k] = old
			}
			// add a member: an empty-valued and a non-empty one
			for _, add := range []struct {
				kind, k string
				val     any
			}{{"add-member", "meta", map[string]any{"verif-key": "x"}}, {"add-empty-string", "meta", map[string]any{"verif-key": ""}}} {
				if _, has := v[add.k]; !has && (path == "" || strings.HasSuffix(path, "supplier") || strings.HasSuffix(path, "customer") || strings.HasSuffix(path, "/item")) {
					v[add.k] = add.val
					emit(add.kind, path+"/"+add.k)
					delete(v, add.k)
				}
			}
			if mm, ok := v["meta"].(map[string]any); ok {
				mm["verif-extra"] = ""
				emit("add-empty-string", path+"/meta/verif-extra")
				mm["verif-extra"] = "y"
				emit("add-member", path+"/meta/verif-extra")
				delete(mm, "verif-extra")
			}
		case []any:
			for i := range v {
				i := i
				old := v[i]
				walk(old, fmt.Sprintf("%s/%d", path, i), func(y any) { v[i] = y }, nil)
				v[i] = old
			}
			if len(v) > 1 {
				v[0], v[1] = v[1], v[0]
				emit("reorder-array", path)
				v[0], v[1] = v[1], v[0]
				// remove an element
				last := v[len(v)-1]
				set(v[:len(v)-1])
				emit("remove-element", path)
				set(append(v[:len(v)-1], last))
			}
		case string:
			// a longer value, a fraction added (times), a trailing zero (amounts keep their precision)
			alts := []string{v + "x", v + ".5", v + "0"}
			if len(v) > 0 {
				// change one character: digits to another digit, letters to another letter
				b := []byte(v)
				c := b[len(b)-1]
				switch {
				case c >= '0' && c <= '8':
					b[len(b)-1] = c + 1
				case c == '9':
					b[len(b)-1] = '1'
				default:
					b[len(b)-1] = 'q'
				}
				alts = append(alts, string(b))
			}
			if strings.HasSuffix(path, "$schema") {
				alts = append(alts, v+"/", v+"#frag")
			}
			for _, a := range alts {
				if a != v {
					set(a)
					emit("alter-leaf", path)
				}
			}
			set(v)
		case bool:
			set(!v)
			emit("alter-leaf", path)
			set(v)
		case json.Number:
			set(json.Number(v.String() + "1"))
			emit("alter-leaf", path)
			set(v)
		}
	}
	doc, ok := m["doc"].(map[string]any)
	if !ok {
		return nil
	}
	walk(doc, "", func(y any) {}, nil)
	if cap > 0 && len(out) > cap {
		r.Shuffle(len(out), func(i, j int) { out[i], out[j] = out[j], out[i] })
		out = out[:cap]
	}
	return out
}

// origText, when set, is the serialised original: the edited text is then also read into a value that already
// holds the original (a long-lived object being refreshed), which must give the same document as a fresh read
var editOrigText []byte

func editProbe(w *tr.Writer, name, k, kind, path string, text []byte, origCanon, origDig string) {
	ev := editEvent{K: k, Doc: name, Kind: kind, Path: path, Reuse: "same"}
	defer func() {
		if p := recover(); p != nil {
			ev.Panic, ev.Err = true, fmt.Sprintf("panic:%v", p)
			w.Emit(ev)
		}
	}()
	env := new(gobl.Envelope)
	if err := json.Unmarshal(text, env); err != nil {
		ev.Err = err.Error()
		w.Emit(ev)
		return
	}
	if env.Head == nil || env.Document == nil {
		ev.Err = "incomplete envelope"
		w.Emit(ev)
		return
	}
	ev.Parse = true
	if editOrigText != nil {
		held := new(gobl.Envelope)
		if json.Unmarshal(editOrigText, held) == nil && json.Unmarshal(text, held) == nil && held.Document != nil {
			if canonOf(held.Document) != canonOf(env.Document) {
				ev.Reuse = "differs"
			}
		}
	}
	ev.Changed = canonOf(env.Document) != origCanon
	ev.Validate = outcome(env.Validate())
	if err := env.Calculate(); err != nil {
		ev.Err = err.Error()
	} else {
		ev.Recalc = true
		ev.Changed2 = canonOf(env.Document) != origCanon
		ev.DigDiff = env.Head.Digest == nil || env.Head.Digest.String() != origDig
	}
	w.Emit(ev)
}

func editRun(repo string, seed int64, ngen, capPerDoc, maxDocs int, out string) error {
	w, err := tr.NewWriter(out)
	if err != nil {
		return err
	}
	r := rand.New(rand.NewSource(seed))
	type base struct {
		name string
		data []byte
	}
	var bases []base
	var files []string
	filepath.Walk(filepath.Join(repo, "examples"), func(p string, info os.FileInfo, err error) error {
		if err == nil && !info.IsDir() && strings.Contains(p, "/out/") && strings.HasSuffix(p, ".json") {
			files = append(files, p)
		}
		return nil
	})
	sort.Strings(files)
	for _, f := range files {
		raw, err := os.ReadFile(f)
		if err != nil {
			continue
		}
		name, _ := filepath.Rel(repo, f)
		bases = append(bases, base{name, raw})
	}
	for i := 0; i < ngen; i++ {
		d := randDoc(r)
		normDoc(&d)
		b, err := docJSON(d, "invoice", "ES", true)
		if err != nil {
			continue
		}
		in, err := pipeLoad(b)
		if err != nil || in.Calculate() != nil {
			continue
		}
		data, _ := json.Marshal(in)
		bases = append(bases, base{fmt.Sprintf("generated-%d", i), data})
	}
	// documents carrying control characters, for edits between characters that are easily confused
	for i, pair := range [][2]string{{"A\u0001B", "A\u0011B"}, {"\u000bx", "\u001bx"}, {"q\u000f", "q\u001f"}, {"tab\there", "tab here"}} {
		msg := map[string]any{"$schema": "https://gobl.org/draft-0/note/message", "uuid": "0190d2c4-6e2e-7c0c-9d1e-0a1b2c3d4e60",
			"title": pair[0], "content": "content " + pair[0], "meta": map[string]any{"k": pair[0]}}
		b, _ := json.Marshal(msg)
		in, err := pipeLoad(b)
		if err != nil || in.Calculate() != nil {
			continue
		}
		data, _ := json.Marshal(in)
		name := fmt.Sprintf("control-chars-%d", i)
		bases = append(bases, base{name, data})
	}
	if maxDocs > 0 && len(bases) > maxDocs {
		// keep a seed-dependent selection but always the control-character documents
		// ... and up to three documents that embed objects with a `$schema` of their own (complements)
		keep := append([]base{}, bases[len(bases)-4:]...)
		var rest []base
		nested := 0
		for _, b := range bases[:len(bases)-4] {
			if nested < 3 && bytes.Count(b.data, []byte(`"$schema"`)) >= 3 {
				keep = append(keep, b)
				nested++
				continue
			}
			rest = append(rest, b)
		}
		r.Shuffle(len(rest), func(i, j int) { rest[i], rest[j] = rest[j], rest[i] })
		if maxDocs > len(rest) {
			maxDocs = len(rest)
		}
		bases = append(append([]base{}, rest[:maxDocs]...), keep...)
	}
	used := 0
	for _, b := range bases {
		env := new(gobl.Envelope)
		if err := json.Unmarshal(b.data, env); err != nil || env.Head == nil || env.Head.Digest == nil || env.Validate() != nil {
			continue // only calculated, valid envelopes are bases
		}
		used++
		origCanon, origDig := canonOf(env.Document), env.Head.Digest.String()
		editOrigText = b.data
		var m map[string]any
		dec := json.NewDecoder(bytes.NewReader(b.data))
		dec.UseNumber()
		if dec.Decode(&m) != nil {
			continue
		}
		for _, style := range []string{"reverse", "whitespace", "escapes", "all"} {
			var sb strings.Builder
			reencode(m, style, &sb, 0)
			editProbe(w, b.name, "reencode", style, "", []byte(sb.String()), origCanon, origDig)
		}
		for _, e := range allEdits(m, r, capPerDoc) {
			editProbe(w, b.name, "edit", e.kind, e.path, e.text, origCanon, origDig)
		}
		// edits between easily confused control characters
		if strings.HasPrefix(b.name, "control-chars-") {
			doc := m["doc"].(map[string]any)
			for _, k := range []string{"title", "content"} {
				old := doc[k].(string)
				for _, sw := range [][2]string{{"\u0001", "\u0011"}, {"\u000b", "\u001b"}, {"\u000f", "\u001f"}, {"\t", " "}} {
					if strings.Contains(old, sw[0]) {
						doc[k] = strings.ReplaceAll(old, sw[0], sw[1])
						t, _ := json.Marshal(m)
						editProbe(w, b.name, "edit", "swap-control-char", "/"+k, t, origCanon, origDig)
					}
				}
				doc[k] = old
			}
		}
	}
	// value families: documents that differ in ONE leaf, every member of the family taken in turn as the
	// original and every other member as the edit, so that two unusual values that collapse onto the same
	// canonical text (not only a value and its neighbour) are confronted with each other
	type family struct {
		name   string
		build  func(v any) map[string]any
		path   string
		values []any
		all    bool // every member is an original in the quick tier too
	}
	// characters that encoders other than the canonical one escape or drop: each with two different prefixes, so
	// that an escape which loses the text before it makes two members collide
	seps := []any{"AB", "XB"}
	for _, c := range []string{"\u2028", "\u2029", "\u0085", "\u00a0", "\ufeff", "\u007f", "<", ">", "&", "\ufffd", "\U0001F600"} {
		seps = append(seps, "A"+c+"B", "X"+c+"B", c+"B", "A"+c)
	}
	ctl := []any{}
	for c := 1; c < 0x20; c++ {
		ctl = append(ctl, "A"+string(rune(c))+"B")
	}
	for _, x := range []string{"A\u00010B", "A\u00011B", "A\u0001FB", "A\u0001fB", "A0B", "AB", "A B", `A\u0010B`, `A\nB`, "A\u007fB", "A\u0080B", "A\u2028B",
		"A\\nB", "A\\tB", "A\\\\B", "A\\\"B", "A\"B", "A\\B", "A\\u0041B", "A/B", "A\\/B"} {
		ctl = append(ctl, x)
	}
	lats := []any{}
	for _, x := range []string{"0.1", "1e-101", "1e-10", "1e-100", "1e-110", "1e-201", "1e-21", "1e-11", "1.5e-101", "1.5e-1", "1.5e-11", "1.5e-110",
		"12.5", "12.05", "12.005", "1e-7", "1.0000001e-7", "1e-300", "1e-30", "1e-3", "89.99999999999999", "89.9999999999999"} {
		lats = append(lats, json.Number(x))
	}
	fams := []family{
		{name: "control-chars", path: "/content", values: ctl, build: func(v any) map[string]any {
			return map[string]any{"$schema": "https://gobl.org/draft-0/note/message", "uuid": "0190d2c4-6e2e-7c0c-9d1e-0a1b2c3d4e60", "title": "t", "content": v}
		}},
		{name: "control-chars-key", path: "/meta/k", values: ctl, build: func(v any) map[string]any {
			return map[string]any{"$schema": "https://gobl.org/draft-0/note/message", "uuid": "0190d2c4-6e2e-7c0c-9d1e-0a1b2c3d4e60", "content": "c", "meta": map[string]any{"k": v}}
		}},
		{name: "escaped-elsewhere", path: "/content", values: seps, all: true, build: func(v any) map[string]any {
			return map[string]any{"$schema": "https://gobl.org/draft-0/note/message", "uuid": "0190d2c4-6e2e-7c0c-9d1e-0a1b2c3d4e60", "title": "t", "content": v}
		}},
		{name: "float-exponents", path: "/addresses/0/coords/lat", values: lats, build: func(v any) map[string]any {
			return map[string]any{"$schema": "https://gobl.org/draft-0/org/party", "uuid": "0190d2c4-6e2e-7c0c-9d1e-0a1b2c3d4e61", "name": "P",
				"addresses": []any{map[string]any{"locality": "L", "country": "ES", "coords": map[string]any{"lat": v, "lon": json.Number("1.5")}}}}
		}},
	}
	for _, fm := range fams {
		idx := make([]int, len(fm.values))
		for i := range idx {
			idx[i] = i
		}
		if capPerDoc > 0 && !fm.all {
			// quick tier: a seeded third of the family as originals, all members as edits
			r.Shuffle(len(idx), func(i, j int) { idx[i], idx[j] = idx[j], idx[i] })
			idx = idx[:(len(idx)+2)/3]
		}
		for _, i := range idx {
			b, _ := json.Marshal(fm.build(fm.values[i]))
			in, err := pipeLoad(b)
			if err != nil || in.Calculate() != nil || in.Validate() != nil || in.Head == nil || in.Head.Digest == nil {
				continue
			}
			used++
			origCanon, origDig := canonOf(in.Document), in.Head.Digest.String()
			data, _ := json.Marshal(in)
			editOrigText = data
			for j := range fm.values {
				if j == i {
					continue
				}
				var m map[string]any
				dec := json.NewDecoder(bytes.NewReader(data))
				dec.UseNumber()
				if dec.Decode(&m) != nil {
					continue
				}
				// set the leaf in the serialised envelope's document
				var cur any = m["doc"]
				segs := strings.Split(strings.TrimPrefix(fm.path, "/"), "/")
				for k, sg := range segs {
					last := k == len(segs)-1
					switch c := cur.(type) {
					case map[string]any:
						if last {
							c[sg] = fm.values[j]
						} else {
							cur = c[sg]
						}
					case []any:
						n := 0
						fmt.Sscan(sg, &n)
						if last {
							c[n] = fm.values[j]
						} else {
							cur = c[n]
						}
					}
				}
				t, _ := json.Marshal(m)
				editProbe(w, fmt.Sprintf("%s-%d", fm.name, i), "edit", "family-"+fm.name, fm.path, t, origCanon, origDig)
			}
		}
	}
	fmt.Printf("events=%d bases=%d\n", w.N, used)
	return w.Close()
}

func init() {
	register("edit-run", func(args []string) error {
		fs := flag.NewFlagSet("edit-run", flag.ExitOnError)
		repo := fs.String("repo", "/repo", "repository")
		seed := fs.Int64("seed", 1, "seed")
		ngen := fs.Int("gen", 10, "generated documents")
		capd := fs.Int("cap", 0, "max edits per document (0 = all)")
		maxd := fs.Int("docs", 0, "max base documents (0 = all)")
		out := fs.String("out", "", "events ndjson")
		fs.Parse(args)
		return editRun(*repo, *seed, *ngen, *capd, *maxd, *out)
	})
}
