package main

// taxid: drivers for TaxID.tla (C13).  Codes (exported by TLC, or random
// strings of the national alphabet) go through the real path: a tax identity
// is normalised by its regime and validated.

import (
	"encoding/json"
	"flag"
	"fmt"
	"github.com/invopop/gobl/cal"
	"github.com/invopop/gobl/num"
	"math/rand"
	"strings"

	"github.com/invopop/gobl/bill"
	"github.com/invopop/gobl/cbc"
	"github.com/invopop/gobl/l10n"
	"github.com/invopop/gobl/org"
	"github.com/invopop/gobl/tax"
	"goblverif/internal/tr"

	_ "github.com/invopop/gobl/regimes"
)

type idCase struct {
	CC    string `json:"cc"`
	Raw   []int  `json:"raw"`
	Norm  []int  `json:"norm"`
	Valid bool   `json:"valid"`
	Kind  string `json:"kind"`
}
type idEvent struct {
	CC       string `json:"cc"`
	Kind     string `json:"kind"`
	Raw      []int  `json:"raw"`
	Norm     []int  `json:"norm"`     // what the code normalised the raw text to
	Norm2    []int  `json:"norm2"`    // ... and normalised again
	Ok       bool   `json:"ok"`       // accepted by validation
	PartyOk  bool   `json:"party_ok"` // the same verdict through a party carrying the identity
	DocOk    bool   `json:"doc_ok"`   // the same verdict when the identity is the customer's in an invoice and in a payment
	DocWhich string `json:"doc_which"`
	AltOk    bool   `json:"alt_ok"` // ... and under the regime's alternative country codes (XI, XU for GB; GR for EL)
	AltWhich string `json:"alt_which"`
	Host     string `json:"host"`      // a document regime under which a party carrying the identity was normalised ...
	HostNorm []int  `json:"host_norm"` // ... and what the identity became (the first host that alters it, else the own normal form)
	Panic    bool   `json:"panic"`
	Err      string `json:"err"`
}

func idRun(cc string, raw []int, kind string) (ev idEvent) {
	ev = idEvent{CC: cc, Kind: kind, Raw: raw, Norm: []int{}, Norm2: []int{}}
	defer func() {
		if p := recover(); p != nil {
			ev.Panic, ev.Err = true, fmt.Sprint(p)
		}
	}()
	id := &tax.Identity{Country: l10n.TaxCountryCode(cc), Code: cbc.Code(fromCps(raw))}
	id.Normalize()
	ev.Norm = cps(string(id.Code))
	err := id.Validate()
	ev.Ok = err == nil
	if err != nil {
		ev.Err = err.Error()
	}
	id2 := &tax.Identity{Country: id.Country, Code: id.Code}
	id2.Normalize()
	ev.Norm2 = cps(string(id2.Code))
	// through a party, as documents carry it
	p := &org.Party{Name: "X", TaxID: &tax.Identity{Country: l10n.TaxCountryCode(cc), Code: cbc.Code(fromCps(raw))}}
	p.Normalize(nil)
	ev.PartyOk = p.TaxID.Validate() == nil
	// the identity as a customer's, in an invoice and in a payment: documents validate their parties
	ev.DocOk, ev.AltOk = ev.Ok, ev.Ok
	mentionsCustomer := func(err error) bool { return err != nil && strings.Contains(err.Error(), "customer") }
	cust := func() *org.Party {
		return &org.Party{Name: "Customer", TaxID: &tax.Identity{Country: l10n.TaxCountryCode(cc), Code: cbc.Code(fromCps(raw))}}
	}
	if len(raw) > 0 {
		price := num.MakeAmount(1000, 2)
		inv := &bill.Invoice{Regime: tax.WithRegime("ES"), Currency: "EUR", IssueDate: cal.MakeDate(2024, 6, 1), Code: "1",
			Supplier: &org.Party{Name: "S", TaxID: &tax.Identity{Country: "ES", Code: "B98602642"}}, Customer: cust(),
			Lines: []*bill.Line{{Quantity: num.MakeAmount(1, 0), Item: &org.Item{Name: "x", Price: &price}}}}
		if inv.Calculate() == nil {
			if got := !mentionsCustomer(inv.Validate()); got != ev.Ok {
				ev.DocOk, ev.DocWhich = got, "invoice"
			}
		}
		pmt := &bill.Payment{Regime: tax.WithRegime("ES"), Currency: "EUR", IssueDate: cal.MakeDate(2024, 6, 1), Code: "1", Type: bill.PaymentTypeReceipt,
			Supplier: &org.Party{Name: "S", TaxID: &tax.Identity{Country: "ES", Code: "B98602642"}}, Customer: cust(),
			Lines: []*bill.PaymentLine{{Debit: &price}}}
		if pmt.Calculate() == nil && ev.DocOk == ev.Ok {
			if got := !mentionsCustomer(pmt.Validate()); got != ev.Ok {
				ev.DocOk, ev.DocWhich = got, "payment"
			}
		}
	}
	rawText := strings.ToUpper(strings.TrimSpace(fromCps(raw)))
	for _, alt := range map[string][]string{"GB": {"XI", "XU"}, "EL": {"GR"}}[cc] {
		if strings.HasPrefix(rawText, cc) || strings.HasPrefix(rawText, "GR") {
			break // the text carries its own country prefix, which belongs to that spelling of the country
		}
		ai := &tax.Identity{Country: l10n.TaxCountryCode(alt), Code: cbc.Code(fromCps(raw))}
		ai.Normalize()
		if got := ai.Validate() == nil; got != ev.Ok {
			ev.AltOk, ev.AltWhich = got, alt
			break
		}
	}
	// Greece is written EL for tax purposes and GR otherwise: either prefix on the code, under either country code,
	// is removed in one pass
	if cc == "EL" && ev.Ok && ev.AltOk == ev.Ok && !strings.HasPrefix(rawText, "EL") && !strings.HasPrefix(rawText, "GR") {
		for _, cp := range [][2]string{{"GR", "EL"}, {"GR", "GR"}, {"EL", "GR"}, {"EL", "EL"}} {
			pi := &tax.Identity{Country: l10n.TaxCountryCode(cp[0]), Code: cbc.Code(cp[1] + string(fromCps(ev.Norm)))}
			pi.Normalize()
			if string(pi.Code) != string(fromCps(ev.Norm)) || pi.Validate() != nil {
				ev.AltOk, ev.AltWhich = false, cp[0]+" with prefix "+cp[1]
				break
			}
		}
	}
	// the party inside documents of other regimes: the host's normalisers must leave a foreign identity alone
	ev.Host, ev.HostNorm = cc, ev.Norm
	for _, host := range idHosts {
		hp := &org.Party{Name: "X", TaxID: &tax.Identity{Country: l10n.TaxCountryCode(cc), Code: cbc.Code(fromCps(raw))}}
		hp.Normalize(tax.ExtractNormalizers(&bill.Invoice{Regime: tax.WithRegime(l10n.TaxCountryCode(host))}))
		if got := cps(string(hp.TaxID.Code)); fmt.Sprint(got) != fmt.Sprint(ev.Norm) {
			ev.Host, ev.HostNorm = host, got
			break
		}
	}
	return ev
}

var idHosts = []string{"FR", "DE", "ES", "PT", "IT", "GB", "NL", "PL", "AT", "BE", "CH", "EL", "BR", "CO", "MX", "IN", "AE", "CA", "US"}

var idAlphabets = map[string]struct {
	lens  []int
	alpha string
}{
	"AT": {[]int{9}, "U0123456789"}, "BE": {[]int{10}, "0123456789"}, "BR": {[]int{14}, "0123456789"}, "CH": {[]int{10}, "E0123456789"},
	"CO": {[]int{9, 10}, "0123456789"}, "DE": {[]int{9}, "0123456789"}, "ES": {[]int{9}, "0123456789ABXYZTRWKLMJQ"}, "FR": {[]int{11}, "0123456789"},
	"GB": {[]int{9}, "0123456789"}, "EL": {[]int{9}, "0123456789"}, "IT": {[]int{11}, "0123456789"}, "NL": {[]int{12}, "0123456789B"},
	"PL": {[]int{10}, "0123456789"}, "PT": {[]int{9}, "0123456789"},
}

func idRandom(r *rand.Rand, cc string) []int {
	a := idAlphabets[cc]
	n := a.lens[r.Intn(len(a.lens))]
	out := make([]int, n)
	for i := range out {
		out[i] = int(a.alpha[r.Intn(len(a.alpha))])
		if r.Intn(4) > 0 {
			out[i] = int('0' + r.Intn(10))
		}
	}
	switch cc {
	case "AT":
		out[0] = 'U'
	case "CH":
		out[0] = 'E'
	case "NL":
		out[9] = 'B'
	case "ES":
		if r.Intn(2) == 0 {
			out[8] = int("TRWAGMYFPDXBNJZSQVHLCKE"[r.Intn(23)])
		}
		if r.Intn(3) == 0 {
			out[0] = int("XYZABKLM"[r.Intn(8)])
		}
	}
	return out
}

func idRunAll(in string, seed int64, nrand int, out string) error {
	w, err := tr.NewWriter(out)
	if err != nil {
		return err
	}
	if in != "" {
		err = tr.ReadLines(in, func(line []byte) error {
			var c idCase
			if err := json.Unmarshal(line, &c); err != nil {
				return err
			}
			w.Emit(idRun(c.CC, c.Raw, c.Kind))
			return nil
		})
		if err != nil {
			return err
		}
	}
	r := rand.New(rand.NewSource(seed))
	ccs := []string{}
	for cc := range idAlphabets {
		ccs = append(ccs, cc)
	}
	for i := 0; i < nrand; i++ {
		cc := ccs[i%len(ccs)]
		raw := idRandom(r, cc)
		// brute-force the last digit so that accepted codes are frequent among the random ones
		if r.Intn(2) == 0 {
			pos := len(raw) - 1
			if cc == "NL" {
				pos = 8
			}
			if cc == "FR" {
				pos = 1
			}
			for d := 0; d < 10; d++ {
				raw[pos] = '0' + d
				if ev := idRun(cc, raw, "random"); ev.Ok {
					break
				}
			}
		}
		w.Emit(idRun(cc, raw, "random"))
	}
	fmt.Printf("events=%d\n", w.N)
	return w.Close()
}

func init() {
	register("taxid-run", func(args []string) error {
		fs := flag.NewFlagSet("taxid-run", flag.ExitOnError)
		in := fs.String("in", "", "cases from TLC")
		seed := fs.Int64("seed", 1, "seed")
		n := fs.Int("n", 2000, "random codes")
		out := fs.String("out", "", "events ndjson")
		fs.Parse(args)
		return idRunAll(*in, *seed, *n, *out)
	})
}
