package main

// ver: drivers for C09 - signature verification on every entry point.
// Histories: optional covered header entries, Sign(k1), up to N
// modifications; then the serialised envelope is presented with one public
// key to the library, the bulk processor (cmd/goblverif), the HTTP server
// (gobl serve /verify) and the command line (gobl verify).  The steps are
// logged in the envelope trace format so that EnvelopeTrace.tla tracks the
// abstract state and judges each verdict with VerifyOut / VerifyViaOut.

import (
	"bufio"
	"bytes"
	"encoding/json"
	"flag"
	"fmt"
	"io"
	"net"
	"net/http"
	"os"
	"os/exec"
	"path/filepath"
	"strings"
	"time"

	"github.com/invopop/gobl"
	"github.com/invopop/gobl/dsig"
	"goblverif/internal/tr"
)

type verCase struct {
	trid  int
	n     int
	base  string
	st    envState
	data  []byte // serialised envelope
	key   string // model key name
	nokid bool
	lib   string
}

var verMods = []Op{
	{Op: "AddStamp", A: "p2", B: "a"}, {Op: "AddStamp", A: "p1", B: "b"}, {Op: "AddStamp", A: "p2", B: "b"}, {Op: "ClearStamps"},
	{Op: "AddLink", A: "l2", B: "x"}, {Op: "AddLink", A: "l1", B: "y"},
	{Op: "AddTag", A: "t2"}, {Op: "SetMeta", A: "m2", B: "a"}, {Op: "SetMeta", A: "m1", B: "b"},
	{Op: "SetNotes", A: "n2"}, {Op: "SetUUID", A: "u2"},
	{Op: "EditBenign"}, {Op: "Calculate"}, {Op: "Sign", A: "k2"}, {Op: "Unsign"},
	{Op: "SetValid", A: "false"}, {Op: "SetCode", A: "false"},
}

var verSetups = [][]Op{
	{{Op: "Sign", A: "k1"}},
	// a header with exactly one kind of entry when it is signed
	{{Op: "SetNotes", A: "n1"}, {Op: "Sign", A: "k1"}},
	{{Op: "AddTag", A: "t1"}, {Op: "Sign", A: "k1"}},
	{{Op: "SetMeta", A: "m1", B: "a"}, {Op: "Sign", A: "k1"}},
	{{Op: "AddLink", A: "l1", B: "x"}, {Op: "Sign", A: "k1"}},
	// a stamp sealed by a second signature: later changes of the header are judged against both signed headers
	{{Op: "Sign", A: "k1"}, {Op: "AddStamp", A: "p1", B: "a"}, {Op: "Sign", A: "k1"}},
	// signed after 1, 3 or 5 benign edits: the next edit then leads to a text an encoder easily confuses with the signed one
	{{Op: "EditBenign"}, {Op: "Calculate"}, {Op: "Sign", A: "k1"}},
	{{Op: "EditBenign"}, {Op: "EditBenign"}, {Op: "EditBenign"}, {Op: "Calculate"}, {Op: "Sign", A: "k1"}},
	{{Op: "EditBenign"}, {Op: "EditBenign"}, {Op: "EditBenign"}, {Op: "EditBenign"}, {Op: "EditBenign"}, {Op: "Calculate"}, {Op: "Sign", A: "k1"}},
	{{Op: "AddLink", A: "l1", B: "x"}, {Op: "AddTag", A: "t1"}, {Op: "SetMeta", A: "m1", B: "a"},
		{Op: "SetNotes", A: "n1"}, {Op: "AddStamp", A: "p1", B: "a"}, {Op: "Sign", A: "k1"}},
}

func seqs(alpha []Op, maxLen int) [][]Op {
	out := [][]Op{{}}
	level := [][]Op{{}}
	for l := 1; l <= maxLen; l++ {
		var next [][]Op
		for _, p := range level {
			for _, o := range alpha {
				next = append(next, append(append([]Op{}, p...), o))
			}
		}
		out = append(out, next...)
		level = next
	}
	return out
}

// public key JSON without the "kid" member
func pubNoKid(k *dsig.PrivateKey) (*dsig.PublicKey, error) {
	b, err := json.Marshal(k.Public())
	if err != nil {
		return nil, err
	}
	var m map[string]any
	if err := json.Unmarshal(b, &m); err != nil {
		return nil, err
	}
	delete(m, "kid")
	b, _ = json.Marshal(m)
	p := new(dsig.PublicKey)
	if err := json.Unmarshal(b, p); err != nil {
		return nil, err
	}
	return p, nil
}

// pubWithKid: the public key of k published under the key id of another key
func pubWithKid(k *dsig.PrivateKey, kid string) (*dsig.PublicKey, error) {
	b, err := json.Marshal(k.Public())
	if err != nil {
		return nil, err
	}
	var m map[string]any
	if err := json.Unmarshal(b, &m); err != nil {
		return nil, err
	}
	m["kid"] = kid
	b, _ = json.Marshal(m)
	p := new(dsig.PublicKey)
	if err := json.Unmarshal(b, p); err != nil {
		return nil, err
	}
	return p, nil
}

func freePort() int {
	l, err := net.Listen("tcp", "127.0.0.1:0")
	if err != nil {
		return 18080
	}
	defer l.Close()
	return l.Addr().(*net.TCPAddr).Port
}

func verRun(maxMods int, goblBin, bulkBin string, cliEvery int, out string, work string) error {
	r := newEnvRig()
	w, err := tr.NewWriter(out)
	if err != nil {
		return err
	}
	pubs := map[string]*dsig.PublicKey{}
	for _, k := range []string{"k1", "k2"} {
		pubs[k] = r.keys[k].Public()
		p, err := pubNoKid(r.keys[k])
		if err != nil {
			return err
		}
		pubs[k+"-nokid"] = p
	}
	// two keys that never sign anything
	for _, k := range []string{"k3", "k4"} {
		pubs[k] = dsig.NewES256Key().Public()
	}
	// somebody else's key pair published under the id of k1
	imp, err := pubWithKid(dsig.NewES256Key(), r.keys["k1"].Public().ID())
	if err != nil {
		return err
	}
	keyLists := [][]string{{"k2", "k3"}, {"k3", "k4"}, {"k3", "k1"}, {"k1", "k2"}, {"k2", "k1"}, {"k3", "k4", "k2"}, {"k1-nokid", "k3"}, {"k3", "k2-nokid"}, {"k3", "k3"}}
	var cases []verCase
	trid := 0
	for _, setup := range verSetups {
		for _, mods := range seqs(verMods, maxMods) {
			trid++
			ops := append(append([]Op{}, setup...), mods...)
			env, st, err := r.runHistory(w, trid, "inv", ops)
			if err != nil {
				return err
			}
			data, err := json.Marshal(env)
			if err != nil {
				return err
			}
			n := len(ops)
			for _, key := range []string{"k1", "k2"} {
				for _, nokid := range []bool{false, true} {
					name := key
					if nokid {
						name += "-nokid"
					}
					// library path, on a freshly parsed copy of the serialised envelope
					lib := func() (res string) {
						defer func() {
							if p := recover(); p != nil {
								res = fmt.Sprintf("panic:%v", p)
							}
						}()
						e2 := new(gobl.Envelope)
						if err := json.Unmarshal(data, e2); err != nil {
							return "error:parse"
						}
						return outcome(e2.Verify(pubs[name]))
					}()
					n++
					w.Emit(envEvent{Tr: trid, N: n, Op: "Verify", A: "lib", K: []string{key}, Out: lib, St: st, Base: "inv", B: name})
					cases = append(cases, verCase{trid: trid, n: n, st: st, data: data, key: key, nokid: nokid})
				}
			}
			// an impersonating key (another pair, the signer's key id): on a fresh object, and on an object the
			// genuine key has just been used on -- what an earlier verification found has no say
			for _, after := range []bool{false, true} {
				lib := func() (res string) {
					defer func() {
						if p := recover(); p != nil {
							res = fmt.Sprintf("panic:%v", p)
						}
					}()
					e2 := new(gobl.Envelope)
					if err := json.Unmarshal(data, e2); err != nil {
						return "error:parse"
					}
					if after {
						_ = e2.Verify(pubs["k1"])
						_ = e2.Verify(pubs["k1"], pubs["k2"])
					}
					return outcome(e2.Verify(imp))
				}()
				n++
				name := "impersonator"
				if after {
					name = "impersonator-after-genuine"
				}
				w.Emit(envEvent{Tr: trid, N: n, Op: "Verify", A: "lib", K: []string{"imp"}, Out: lib, St: st, Base: "inv", B: name})
			}
			// several keys offered at once: every signature must have been made by one of them
			for _, kl := range keyLists {
				var ks []*dsig.PublicKey
				var abs []string
				for _, k := range kl {
					ks = append(ks, pubs[k])
					abs = append(abs, strings.TrimSuffix(k, "-nokid"))
				}
				lib := func() (res string) {
					defer func() {
						if p := recover(); p != nil {
							res = fmt.Sprintf("panic:%v", p)
						}
					}()
					e2 := new(gobl.Envelope)
					if err := json.Unmarshal(data, e2); err != nil {
						return "error:parse"
					}
					return outcome(e2.Verify(ks...))
				}()
				n++
				w.Emit(envEvent{Tr: trid, N: n, Op: "Verify", A: "lib", K: abs, Out: lib, St: st, Base: "inv", B: strings.Join(kl, "+")})
			}
		}
	}
	// ---- bulk path: one process, all requests -----------------------------
	type bulkReq struct {
		Action  string `json:"action"`
		ReqID   string `json:"req_id"`
		Payload any    `json:"payload"`
	}
	type verifyPayload struct {
		Data      []byte          `json:"data"`
		PublicKey *dsig.PublicKey `json:"publickey"`
	}
	pubOf := func(c verCase) *dsig.PublicKey {
		if c.nokid {
			return pubs[c.key+"-nokid"]
		}
		return pubs[c.key]
	}
	var reqs bytes.Buffer
	enc := json.NewEncoder(&reqs)
	for i, c := range cases {
		enc.Encode(bulkReq{Action: "verify", ReqID: fmt.Sprint(i), Payload: verifyPayload{Data: c.data, PublicKey: pubOf(c)}})
	}
	cmd := exec.Command(bulkBin)
	cmd.Stdin = &reqs
	outB, err := cmd.Output()
	if err != nil {
		return fmt.Errorf("bulk process: %w", err)
	}
	bulkRes := map[string]string{}
	sc := bufio.NewScanner(bytes.NewReader(outB))
	sc.Buffer(make([]byte, 1<<20), 1<<26)
	for sc.Scan() {
		var res struct {
			ReqID   string          `json:"req_id"`
			Payload json.RawMessage `json:"payload"`
			Error   json.RawMessage `json:"error"`
			IsFinal bool            `json:"is_final"`
		}
		if err := json.Unmarshal(sc.Bytes(), &res); err != nil {
			return fmt.Errorf("bulk response: %w", err)
		}
		if res.IsFinal {
			continue
		}
		if string(res.Error) == "null" || len(res.Error) == 0 {
			bulkRes[res.ReqID] = "ok"
		} else {
			bulkRes[res.ReqID] = "fail"
		}
	}
	// ---- HTTP path ------------------------------------------------------------
	keyFile := filepath.Join(work, "serve-key.jwk")
	kb, _ := json.Marshal(r.keys["k1"])
	if err := os.WriteFile(keyFile, kb, 0o600); err != nil {
		return err
	}
	port := freePort()
	srv := exec.Command(goblBin, "serve", "-p", fmt.Sprint(port), "-k", keyFile)
	srv.Stdout, srv.Stderr = io.Discard, io.Discard
	if err := srv.Start(); err != nil {
		return fmt.Errorf("gobl serve: %w", err)
	}
	defer func() { srv.Process.Kill(); srv.Wait() }()
	base := fmt.Sprintf("http://127.0.0.1:%d", port)
	up := false
	for i := 0; i < 100; i++ {
		if resp, err := http.Get(base + "/"); err == nil {
			resp.Body.Close()
			up = true
			break
		}
		time.Sleep(50 * time.Millisecond)
	}
	if !up {
		return fmt.Errorf("gobl serve did not come up on port %d", port)
	}
	httpRes := make([]string, len(cases))
	for i, c := range cases {
		body, _ := json.Marshal(verifyPayload{Data: c.data, PublicKey: pubOf(c)})
		resp, err := http.Post(base+"/verify", "application/json", bytes.NewReader(body))
		if err != nil {
			return fmt.Errorf("POST /verify: %w", err)
		}
		io.Copy(io.Discard, resp.Body)
		resp.Body.Close()
		if resp.StatusCode == 200 {
			httpRes[i] = "ok"
		} else {
			httpRes[i] = "fail"
		}
	}
	// ---- command line path (sampled: one process per case) --------------------------
	cliRes := map[int]string{}
	for i, c := range cases {
		if cliEvery <= 0 || i%cliEvery != 0 {
			continue
		}
		ef := filepath.Join(work, "env.json")
		kf := filepath.Join(work, "pub.jwk")
		os.WriteFile(ef, c.data, 0o600)
		pb, _ := json.Marshal(pubOf(c))
		os.WriteFile(kf, pb, 0o600)
		err := exec.Command(goblBin, "verify", "-k", kf, ef).Run()
		if err == nil {
			cliRes[i] = "ok"
		} else if _, ok := err.(*exec.ExitError); ok {
			cliRes[i] = "fail"
		} else {
			return fmt.Errorf("gobl verify: %w", err)
		}
	}
	// emit the verdicts; they continue the traces (trace ids are contiguous so append in order)
	w2, err := tr.NewWriter(out + ".via")
	if err != nil {
		return err
	}
	for i, c := range cases {
		name := c.key
		if c.nokid {
			name += "-nokid"
		}
		n := c.n
		emit := func(path, res string) {
			n += 100
			w2.Emit(envEvent{Tr: c.trid, N: n, Op: "VerifyVia", A: path, B: name, K: []string{c.key}, Out: res, St: c.st, Base: "inv"})
		}
		if res, ok := bulkRes[fmt.Sprint(i)]; ok {
			emit("bulk", res)
		} else {
			emit("bulk", "missing-response")
		}
		emit("http", httpRes[i])
		if res, ok := cliRes[i]; ok {
			emit("cli", res)
		}
	}
	fmt.Printf("events=%d traces=%d cases=%d cli=%d\n", w.N+w2.N, trid, len(cases), len(cliRes))
	if err := w.Close(); err != nil {
		return err
	}
	return w2.Close()
}

func init() {
	register("ver-run", func(args []string) error {
		fs := flag.NewFlagSet("ver-run", flag.ExitOnError)
		mods := fs.Int("mods", 2, "max modifications after signing")
		goblBin := fs.String("gobl", "", "gobl binary")
		bulkBin := fs.String("bulk", "", "goblverif binary")
		cliEvery := fs.Int("cli-every", 10, "run the gobl verify process for every n-th case (0 = never)")
		out := fs.String("out", "", "events ndjson")
		work := fs.String("work", ".", "scratch dir")
		fs.Parse(args)
		return verRun(*mods, *goblBin, *bulkBin, *cliEvery, *out, *work)
	})
}
