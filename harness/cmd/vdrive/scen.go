package main

// scen: driver for Scenario.tla.  Every example invoice, and variants of it (each tag the regime or an
// addon offers added, each of its tags removed, every invoice type, simplified + type), is calculated to
// its fix-point by the real code; the notes and tax extensions it then carries are logged together with
// what the scenario filters look at (type, tags, extension maps).  ScenarioTrace.tla compares them with
// what the PUBLISHED scenarios of the regime and addons prescribe.

import (
	"bytes"
	"encoding/json"
	"flag"
	"fmt"
	"os"
	"path/filepath"
	"sort"
	"strings"

	"github.com/invopop/gobl"
	"github.com/invopop/gobl/bill"
	"github.com/invopop/gobl/cbc"
	"github.com/invopop/gobl/tax"
	"goblverif/internal/tr"
)

type scenNote struct {
	Key  string `json:"key"`
	Code string `json:"code"`
	Src  string `json:"src"`
	Text string `json:"text"`
}

type scenEvent struct {
	K        string       `json:"k"`
	Src      string       `json:"src"`
	Variant  string       `json:"variant"`
	CC       string       `json:"cc"`
	Addons   []string     `json:"addons"`
	Schema   string       `json:"schema"`
	Type     string       `json:"type"`
	Tags     []string     `json:"tags"`
	Exts     [][][]string `json:"exts"`
	Notes    []scenNote   `json:"notes"`
	TaxExt   [][]string   `json:"taxext"`
	Fixpoint bool         `json:"fixpoint"`
}

func extPairs(e tax.Extensions) [][]string {
	out := [][]string{}
	keys := make([]string, 0, len(e))
	for k := range e {
		keys = append(keys, string(k))
	}
	sort.Strings(keys)
	for _, k := range keys {
		out = append(out, []string{k, string(e[cbc.Key(k)])})
	}
	return out
}

func scenProbe(w *tr.Writer, src, variant string, raw []byte, stats map[string]int) {
	defer func() {
		if p := recover(); p != nil {
			stats["panic"]++
		}
	}()
	env := new(gobl.Envelope)
	if err := json.Unmarshal(raw, env); err != nil {
		stats["parse-refused"]++
		return
	}
	inv, ok := env.Extract().(*bill.Invoice)
	if !ok {
		return
	}
	var last []byte
	fix := false
	for n := 0; n < 4; n++ {
		if err := env.Calculate(); err != nil {
			stats["calc-refused"]++
			return
		}
		b, _ := json.Marshal(env.Document)
		if n > 0 && bytes.Equal(b, last) {
			fix = true
			break
		}
		last = b
	}
	inv, _ = env.Extract().(*bill.Invoice)
	if inv == nil {
		return
	}
	ev := scenEvent{K: "scenario", Src: src, Variant: variant, CC: string(inv.Regime.Country), Addons: []string{}, Schema: "bill/invoice",
		Type: string(inv.Type), Tags: []string{}, Exts: [][][]string{}, Notes: []scenNote{}, TaxExt: [][]string{}, Fixpoint: fix}
	for _, a := range inv.Addons.List {
		ev.Addons = append(ev.Addons, string(a))
	}
	for _, t := range inv.Tags.List {
		ev.Tags = append(ev.Tags, string(t))
	}
	if inv.Tax != nil {
		ev.TaxExt = extPairs(inv.Tax.Ext)
		if len(inv.Tax.Ext) > 0 {
			ev.Exts = append(ev.Exts, extPairs(inv.Tax.Ext))
		}
	}
	if inv.Totals != nil && inv.Totals.Taxes != nil {
		for _, c := range inv.Totals.Taxes.Categories {
			for _, r := range c.Rates {
				ev.Exts = append(ev.Exts, extPairs(r.Ext))
			}
		}
	}
	for _, n := range inv.Notes {
		if n != nil {
			ev.Notes = append(ev.Notes, scenNote{Key: string(n.Key), Code: string(n.Code), Src: string(n.Src), Text: n.Text})
		}
	}
	stats["calculated"]++
	if !fix {
		stats["not-a-fixpoint"]++
	}
	w.Emit(ev)
}

func scenRun(repo, out string) error {
	w, err := tr.NewWriter(out)
	if err != nil {
		return err
	}
	var files []string
	filepath.Walk(filepath.Join(repo, "examples"), func(p string, info os.FileInfo, err error) error {
		if err == nil && !info.IsDir() && strings.Contains(p, "/out/") && strings.HasSuffix(p, ".json") {
			files = append(files, p)
		}
		return nil
	})
	sort.Strings(files)
	stats := map[string]int{}
	types := []string{}
	for _, t := range bill.InvoiceTypes {
		types = append(types, string(t.Key))
	}
	for _, f := range files {
		raw, err := os.ReadFile(f)
		if err != nil {
			continue
		}
		var m map[string]any
		dec := json.NewDecoder(bytes.NewReader(raw))
		dec.UseNumber()
		if dec.Decode(&m) != nil {
			continue
		}
		doc, ok := m["doc"].(map[string]any)
		if !ok || !strings.HasSuffix(fmt.Sprint(doc["$schema"]), "/bill/invoice") {
			continue
		}
		delete(m, "sigs")
		rel, _ := filepath.Rel(repo, f)
		emit := func(variant string) {
			b, _ := json.Marshal(m)
			scenProbe(w, rel, variant, b, stats)
		}
		emit("none")
		// the tags on offer: those of the regime and of the document's addons (candidates only; any tag may be tried)
		offered := map[string]bool{}
		env := new(gobl.Envelope)
		if json.Unmarshal(raw, env) == nil {
			if inv, ok := env.Extract().(*bill.Invoice); ok {
				if r := inv.RegimeDef(); r != nil {
					for _, ts := range r.Tags {
						for _, t := range ts.List {
							offered[string(t.Key)] = true
						}
					}
				}
				for _, a := range inv.AddonDefs() {
					for _, ts := range a.Tags {
						for _, t := range ts.List {
							offered[string(t.Key)] = true
						}
					}
				}
			}
		}
		have, _ := doc["$tags"].([]any)
		tagNames := make([]string, 0, len(offered))
		for t := range offered {
			tagNames = append(tagNames, t)
		}
		sort.Strings(tagNames)
		origType, hadType := doc["type"]
		setTags := func(ts []any) {
			if len(ts) == 0 {
				delete(doc, "$tags")
			} else {
				doc["$tags"] = ts
			}
		}
		for _, t := range tagNames {
			setTags(append(append([]any{}, have...), t))
			emit("add-tag:" + t)
			for _, ty := range types {
				doc["type"] = ty
				emit("add-tag:" + t + "+type:" + ty)
			}
			if hadType {
				doc["type"] = origType
			} else {
				delete(doc, "type")
			}
		}
		for i := range have {
			ts := append(append([]any{}, have[:i]...), have[i+1:]...)
			setTags(ts)
			emit(fmt.Sprintf("remove-tag:%v", have[i]))
		}
		setTags(have)
		for _, ty := range types {
			doc["type"] = ty
			emit("type:" + ty)
		}
		if hadType {
			doc["type"] = origType
		} else {
			delete(doc, "type")
		}
	}
	sb, _ := json.Marshal(stats)
	if err := os.WriteFile(out+".stats.json", sb, 0o644); err != nil {
		return err
	}
	fmt.Printf("events=%d\n", w.N)
	return w.Close()
}

func init() {
	register("scen-run", func(args []string) error {
		fs := flag.NewFlagSet("scen-run", flag.ExitOnError)
		repo := fs.String("repo", "/repo", "repository")
		out := fs.String("out", "", "trace file")
		fs.Parse(args)
		return scenRun(*repo, *out)
	})
}
