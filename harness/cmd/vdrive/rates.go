package main

// rates: drivers for Rates.tla (C12).  rates-export writes the in-code rate
// tables of every registered regime (they become constants of the
// specification); rates-run performs look-ups, directly on RateDef.Value and
// end to end through a one-line invoice / order dated D.

import (
	"encoding/json"
	"flag"
	"fmt"
	"math/rand"
	"os"
	"sort"
	"strings"
	"time"

	"github.com/invopop/gobl/bill"
	"github.com/invopop/gobl/cal"
	"github.com/invopop/gobl/cbc"
	"github.com/invopop/gobl/l10n"
	"github.com/invopop/gobl/num"
	"github.com/invopop/gobl/org"
	"github.com/invopop/gobl/tax"
	"goblverif/internal/tr"

	_ "github.com/invopop/gobl/regimes"
)

type jValue struct {
	Since []int    `json:"since"` // [] or [y,m,d]
	Pct   tr.Amt   `json:"pct"`
	Sur   []tr.Amt `json:"sur"`
	Tags  []string `json:"tags"`
	Ext   []string `json:"ext"` // sorted "k=v"
}
type jRateDef struct {
	CC     string   `json:"cc"`
	Cat    string   `json:"cat"`
	Key    string   `json:"key"`
	Exempt bool     `json:"exempt"`
	Values []jValue `json:"values"`
}

func timeMonth(m int) time.Month { return time.Month(m) }
func mustAmount(s string) num.Amount {
	a, err := num.AmountFromString(s)
	if err != nil {
		panic(err)
	}
	return a
}
func lcode(cc string) l10n.TaxCountryCode { return l10n.TaxCountryCode(cc) }

func extList(e tax.Extensions) []string {
	out := []string{}
	for k, v := range e {
		out = append(out, string(k)+"="+string(v))
	}
	sort.Strings(out)
	return out
}
func dateTriple(d *cal.Date) []int {
	if d == nil || !d.IsValid() {
		return []int{}
	}
	return []int{d.Year, int(d.Month), d.Day}
}

func ratesTables() []jRateDef {
	var out []jRateDef
	for _, r := range tax.AllRegimeDefs() {
		for _, c := range r.Categories {
			for _, rt := range c.Rates {
				jr := jRateDef{CC: string(r.Country), Cat: string(c.Code), Key: string(rt.Key), Exempt: rt.Exempt, Values: []jValue{}}
				for _, v := range rt.Values {
					jv := jValue{Since: dateTriple(v.Since), Pct: pctBase(v.Percent), Sur: optPct(v.Surcharge), Tags: []string{}, Ext: extList(v.Ext)}
					for _, t := range v.Tags {
						jv.Tags = append(jv.Tags, string(t))
					}
					jr.Values = append(jr.Values, jv)
				}
				out = append(out, jr)
			}
		}
	}
	sort.Slice(out, func(i, j int) bool {
		a, b := out[i], out[j]
		return a.CC+"/"+a.Cat+"/"+a.Key < b.CC+"/"+b.Cat+"/"+b.Key
	})
	return out
}

type rateCase struct {
	CC   string   `json:"cc"`
	Cat  string   `json:"cat"`
	Key  string   `json:"key"`
	Date []int    `json:"date"`
	Tags []string `json:"tags"`
	Ext  []string `json:"ext"`
}
type rateEvent struct {
	rateCase
	Path string   `json:"path"`
	Res  string   `json:"res"` // value | none | exempt | error | unchanged
	Pct  []tr.Amt `json:"pct"`
	Sur  []tr.Amt `json:"sur"`
	Err  string   `json:"err"`
}

func extMap(l []string) tax.Extensions {
	if len(l) == 0 {
		return nil
	}
	e := tax.Extensions{}
	for _, kv := range l {
		p := strings.SplitN(kv, "=", 2)
		e[cbc.Key(p[0])] = cbc.Code(p[1])
	}
	return e
}

func rateDefFor(c rateCase) *tax.RateDef {
	for _, r := range tax.AllRegimeDefs() {
		if string(r.Country) != c.CC {
			continue
		}
		if cd := r.CategoryDef(cbc.Code(c.Cat)); cd != nil {
			return cd.RateDef(cbc.Key(c.Key))
		}
	}
	return nil
}

func rateLookup(c rateCase, path string) (ev rateEvent) {
	ev = rateEvent{rateCase: c, Path: path, Pct: []tr.Amt{}, Sur: []tr.Amt{}}
	defer func() {
		if p := recover(); p != nil {
			ev.Res, ev.Err = "panic", fmt.Sprint(p)
		}
	}()
	date := cal.MakeDate(c.Date[0], timeMonth(c.Date[1]), c.Date[2])
	tags := []cbc.Key{}
	for _, t := range c.Tags {
		tags = append(tags, cbc.Key(t))
	}
	if path == "direct" {
		rd := rateDefFor(c)
		if rd == nil {
			ev.Res, ev.Err = "error", "no such rate"
			return ev
		}
		if rd.Exempt {
			ev.Res = "exempt"
			return ev
		}
		if len(rd.Values) == 0 {
			ev.Res = "novalues"
			return ev
		}
		v := rd.Value(date, tags, extMap(c.Ext))
		if v == nil {
			ev.Res = "none"
			return ev
		}
		ev.Res, ev.Pct, ev.Sur = "value", []tr.Amt{pctBase(v.Percent)}, optPct(v.Surcharge)
		return ev
	}
	// end to end: a one-line document of the regime, dated D
	other := cal.MakeDate(2024, 6, 15)
	combo := &tax.Combo{Category: cbc.Code(c.Cat), Rate: cbc.Key(c.Key), Ext: extMap(c.Ext)}
	price := mustAmount("100.00")
	line := func() *bill.Line {
		return &bill.Line{Quantity: mustAmount("1"), Item: &org.Item{Name: "x", Price: &price}, Taxes: tax.Set{combo}}
	}
	var err error
	switch path {
	case "invoice-preset":
		// the combo already carries a percentage and a surcharge (a recalculated or hand-written document)
		pp, ps := num.MakePercentage(99, 2), num.MakePercentage(9, 2)
		combo.Percent, combo.Surcharge = &pp, &ps
		inv := &bill.Invoice{Regime: tax.WithRegime(lcode(c.CC)), IssueDate: date, Lines: []*bill.Line{line()}}
		inv.SetTags(tags...)
		err = inv.Calculate()
	case "invoice-issue":
		inv := &bill.Invoice{Regime: tax.WithRegime(lcode(c.CC)), IssueDate: date, Lines: []*bill.Line{line()}}
		inv.SetTags(tags...)
		err = inv.Calculate()
		if err == nil && combo.Percent != nil {
			// the calculated document is then reused: other data is read into the same object (as a
			// long-lived editor of documents would do).  Nothing of that may reach the rate tables;
			// the look-ups that follow and the final comparison of the tables would show it.
			pct := *combo.Percent
			var sur *num.Percentage
			if combo.Surcharge != nil {
				sv := *combo.Surcharge
				sur = &sv
			}
			if raw, e := json.Marshal(inv); e == nil {
				var m map[string]any
				if json.Unmarshal(raw, &m) == nil {
					if ls, ok := m["lines"].([]any); ok && len(ls) > 0 {
						if tx, ok := ls[0].(map[string]any)["taxes"].([]any); ok && len(tx) > 0 {
							cm := tx[0].(map[string]any)
							cm["percent"] = "77.7%"
							if sur != nil {
								cm["surcharge"] = "7.7%"
							}
							if edited, e := json.Marshal(m); e == nil {
								_ = json.Unmarshal(edited, inv)
								// this event reports what the calculation gave before the reuse
								rp := pct
								combo = &tax.Combo{Category: combo.Category, Rate: combo.Rate, Percent: &rp, Surcharge: sur}
							}
						}
					}
				}
			}
		}
	case "invoice-opdate":
		// the date of the operation is not the date the rates are taken from: a day earlier (the other side of a
		// boundary the case sits on) or long before any table starts
		od := cal.MakeDate(1990, 1, 1)
		if (c.Date[2]+len(c.Key))%2 == 0 {
			p := addDays(c.Date, -1)
			od = cal.MakeDate(p[0], timeMonth(p[1]), p[2])
		}
		inv := &bill.Invoice{Regime: tax.WithRegime(lcode(c.CC)), IssueDate: date, OperationDate: &od, Lines: []*bill.Line{line()}}
		inv.SetTags(tags...)
		err = inv.Calculate()
	case "invoice-then-plain":
		// the line under test is followed by a line that needs no look-up: what the first one gives (an error for a
		// date before the first value in particular) is what the document gives
		pp := num.MakePercentage(10, 2)
		second := &bill.Line{Quantity: mustAmount("1"), Item: &org.Item{Name: "p", Price: &price},
			Taxes: tax.Set{&tax.Combo{Category: cbc.Code(c.Cat), Percent: &pp}}}
		inv := &bill.Invoice{Regime: tax.WithRegime(lcode(c.CC)), IssueDate: date, Lines: []*bill.Line{line(), second}}
		inv.SetTags(tags...)
		err = inv.Calculate()
	case "invoice-value":
		inv := &bill.Invoice{Regime: tax.WithRegime(lcode(c.CC)), IssueDate: other, ValueDate: &date, Lines: []*bill.Line{line()}}
		inv.SetTags(tags...)
		err = inv.Calculate()
	case "invoice-mixed":
		// a line taxed in another country (explicit percentage) precedes the line under test: each combo is
		// resolved in its own regime, the one before it has no say
		oc := "PT"
		if c.CC == "PT" {
			oc = "ES"
		}
		fp := num.MakePercentage(10, 2)
		first := &bill.Line{Quantity: mustAmount("1"), Item: &org.Item{Name: "f", Price: &price},
			Taxes: tax.Set{&tax.Combo{Category: "VAT", Country: lcode(oc), Percent: &fp}}}
		inv := &bill.Invoice{Regime: tax.WithRegime(lcode(c.CC)), IssueDate: date, Lines: []*bill.Line{first, line()}}
		inv.SetTags(tags...)
		err = inv.Calculate()
	case "invoice-customer":
		// a supplier of another regime invoicing with the customer's rates: the table is the customer's
		sup := "DE"
		if c.CC == "DE" {
			sup = "ES"
		}
		inv := &bill.Invoice{Regime: tax.WithRegime(lcode(sup)), IssueDate: date, Lines: []*bill.Line{line()},
			Supplier: &org.Party{Name: "S", TaxID: &tax.Identity{Country: lcode(sup)}},
			Customer: &org.Party{Name: "C", TaxID: &tax.Identity{Country: lcode(c.CC)}}}
		inv.SetTags(append(append([]cbc.Key{}, tags...), tax.TagCustomerRates)...)
		err = inv.Calculate()
	case "delivery-value":
		dlv := &bill.Delivery{Regime: tax.WithRegime(lcode(c.CC)), IssueDate: other, ValueDate: &date, Lines: []*bill.Line{line()}}
		dlv.SetTags(tags...)
		err = dlv.Calculate()
	case "delivery-issue":
		dlv := &bill.Delivery{Regime: tax.WithRegime(lcode(c.CC)), IssueDate: date, Lines: []*bill.Line{line()}}
		dlv.SetTags(tags...)
		err = dlv.Calculate()
	case "order-issue":
		ord := &bill.Order{Regime: tax.WithRegime(lcode(c.CC)), IssueDate: date, Lines: []*bill.Line{line()}}
		od := cal.MakeDate(2001, 1, 1)
		ord.OperationDate = &od
		ord.SetTags(tags...)
		err = ord.Calculate()
	case "order-value":
		ord := &bill.Order{Regime: tax.WithRegime(lcode(c.CC)), IssueDate: other, ValueDate: &date, Lines: []*bill.Line{line()}}
		od := cal.MakeDate(2001, 1, 1)
		ord.OperationDate = &od
		ord.SetTags(tags...)
		err = ord.Calculate()
	}
	if err != nil {
		ev.Res, ev.Err = "error", err.Error()
		if strings.Contains(err.Error(), "rate value unavailable") {
			ev.Res = "none"
		}
		return ev
	}
	if rd := rateDefFor(c); rd != nil && !rd.Exempt && len(rd.Values) == 0 {
		ev.Res = "novalues" // a key without a table leaves the combo as it was
		return ev
	}
	if combo.Percent == nil {
		ev.Res = "exempt"
		return ev
	}
	ev.Res, ev.Pct, ev.Sur = "value", optPct(combo.Percent), optPct(combo.Surcharge)
	return ev
}

func addDays(d []int, n int) []int {
	t := cal.MakeDate(d[0], timeMonth(d[1]), d[2]).Time().AddDate(0, 0, n)
	return []int{t.Year(), int(t.Month()), t.Day()}
}

func ratesRun(seed int64, nrand int, in, out string) error {
	w, err := tr.NewWriter(out)
	if err != nil {
		return err
	}
	paths := []string{"direct", "invoice-issue", "invoice-value", "order-value", "invoice-preset", "invoice-mixed", "invoice-customer", "delivery-value", "delivery-issue", "order-issue", "invoice-opdate", "invoice-then-plain"}
	emit := func(c rateCase) {
		for _, p := range paths {
			w.Emit(rateLookup(c, p))
		}
	}
	if in != "" {
		err = tr.ReadLines(in, func(line []byte) error {
			var c rateCase
			if err := json.Unmarshal(line, &c); err != nil {
				return err
			}
			if c.Tags == nil {
				c.Tags = []string{}
			}
			if c.Ext == nil {
				c.Ext = []string{}
			}
			emit(c)
			return nil
		})
		if err != nil {
			return err
		}
	}
	tables := ratesTables()
	before, _ := json.Marshal(tables)
	r := rand.New(rand.NewSource(seed))
	for i := 0; i < nrand; i++ {
		rd := tables[r.Intn(len(tables))]
		c := rateCase{CC: rd.CC, Cat: rd.Cat, Key: rd.Key, Tags: []string{}, Ext: []string{}}
		c.Date = []int{1990 + r.Intn(46), 1 + r.Intn(12), 1 + r.Intn(28)}
		if len(rd.Values) > 0 && r.Intn(2) == 0 {
			v := rd.Values[r.Intn(len(rd.Values))]
			c.Ext = v.Ext
			if len(v.Since) == 3 && r.Intn(2) == 0 {
				c.Date = addDays(v.Since, r.Intn(5)-2)
			}
		}
		emit(c)
	}
	// the tables are what they were when the run started
	after, _ := json.Marshal(ratesTables())
	intact := rateEvent{rateCase: rateCase{Date: []int{0, 0, 0}, Tags: []string{}, Ext: []string{}}, Path: "tables-intact", Res: "same", Pct: []tr.Amt{}, Sur: []tr.Amt{}}
	if string(before) != string(after) {
		intact.Res = "changed"
		now := ratesTables()
		for i := range tables {
			a, _ := json.Marshal(tables[i])
			b, _ := json.Marshal(now[i])
			if string(a) != string(b) {
				intact.CC, intact.Cat, intact.Key = tables[i].CC, tables[i].Cat, tables[i].Key
				intact.Err = fmt.Sprintf("%s -> %s", a, b)
				break
			}
		}
	}
	w.Emit(intact)
	fmt.Printf("events=%d\n", w.N)
	return w.Close()
}

func init() {
	register("rates-export", func(args []string) error {
		fs := flag.NewFlagSet("rates-export", flag.ExitOnError)
		out := fs.String("out", "", "tables json")
		fs.Parse(args)
		b, err := json.Marshal(map[string]any{"rates": ratesTables()})
		if err != nil {
			return err
		}
		return os.WriteFile(*out, b, 0o644)
	})
	register("rates-run", func(args []string) error {
		fs := flag.NewFlagSet("rates-run", flag.ExitOnError)
		seed := fs.Int64("seed", 1, "seed")
		n := fs.Int("n", 500, "random look-ups")
		in := fs.String("in", "", "cases ndjson from TLC")
		out := fs.String("out", "", "events ndjson")
		fs.Parse(args)
		return ratesRun(*seed, *n, *in, *out)
	})
}
