package main

// bulk: drivers for Bulk.tla / Shared.tla (C15).
//  bulk-run: streams of mixed requests with varied latencies through the bulk
//            processor (cmd/goblverif); the response stream is the trace.
//  conc-run: goroutines using the library concurrently on documents of every
//            regime x addon combination (built with -race by the check);
//            results are compared with a sequential pass, the registries are
//            fingerprinted before and after.

import (
	"bufio"
	"bytes"
	"crypto/sha256"
	"encoding/hex"
	"encoding/json"
	"flag"
	"fmt"
	"io"
	"math/rand"
	"net/http"
	"os"
	"os/exec"
	"path/filepath"
	"reflect"
	"runtime"
	"sort"
	"strings"
	"sync"
	"time"

	"github.com/invopop/gobl"
	"github.com/invopop/gobl/bill"
	"github.com/invopop/gobl/dsig"
	"github.com/invopop/gobl/num"
	"github.com/invopop/gobl/schema"
	"github.com/invopop/gobl/tax"
	"goblverif/internal/tr"
)

type bulkRequest struct {
	Action  string `json:"action"`
	ReqID   string `json:"req_id"`
	Payload any    `json:"payload,omitempty"`
	Indent  bool   `json:"indent,omitempty"`
}
type bulkResponse struct {
	ReqID   string          `json:"req_id"`
	SeqID   int             `json:"seq_id"`
	Payload json.RawMessage `json:"payload"`
	Error   json.RawMessage `json:"error"`
	IsFinal bool            `json:"is_final"`
}
type bulkEvent struct {
	Tr     int      `json:"tr"`
	N      int      `json:"n"`
	Kind   string   `json:"kind"` // start | resp | final | end
	NReq   int      `json:"nreq"`
	Bad    int      `json:"bad"` // position of a malformed request, 0 = none
	IDs    []string `json:"ids"`
	Seq    int      `json:"seq"`
	Req    string   `json:"req"`
	Err    bool     `json:"err"`  // the response (or final marker) carries an error
	Cmp    bool     `json:"cmp"`  // payload bulkComparable with the standalone result
	Same   bool     `json:"same"` // ... and equal to it
	Action string   `json:"action"`
}

func sha(b []byte) string {
	h := sha256.Sum256(b)
	return hex.EncodeToString(h[:8])
}

func exampleEnvelopes(repo string) (names []string, data [][]byte) {
	var files []string
	filepath.Walk(filepath.Join(repo, "examples"), func(p string, info os.FileInfo, err error) error {
		if err == nil && !info.IsDir() && strings.Contains(p, "/out/") && strings.HasSuffix(p, ".json") {
			files = append(files, p)
		}
		return nil
	})
	sort.Strings(files)
	for _, f := range files {
		raw, err := os.ReadFile(f)
		if err != nil {
			continue
		}
		env := new(gobl.Envelope)
		if json.Unmarshal(raw, env) != nil || env.Head == nil || env.Document == nil {
			continue
		}
		rel, _ := filepath.Rel(repo, f)
		names = append(names, rel)
		data = append(data, raw)
	}
	return
}

var bulkComparable = map[string]bool{"ping": true, "sleep": true, "schemas": true, "schema": true, "regime": true, "validate": true, "build": true, "verify": true, "bogus": true}

func bulkGenStream(r *rand.Rand, docs [][]byte, signed []byte, pub *dsig.PublicKey, trid int) ([]bulkRequest, int) {
	n := 1 + r.Intn(12)
	if r.Intn(6) == 0 {
		n = 20 + r.Intn(40)
	}
	reqs := make([]bulkRequest, n)
	for i := range reqs {
		id := fmt.Sprintf("t%d-r%d", trid, i+1)
		var q bulkRequest
		switch r.Intn(12) {
		case 0:
			q = bulkRequest{Action: "ping"}
		case 1, 2:
			q = bulkRequest{Action: "sleep", Payload: fmt.Sprintf("%dms", []int{0, 1, 3, 8, 15, 30}[r.Intn(6)])}
		case 3, 4:
			q = bulkRequest{Action: "build", Payload: map[string]any{"data": docs[r.Intn(len(docs))]}}
		case 5:
			q = bulkRequest{Action: "validate", Payload: map[string]any{"data": docs[r.Intn(len(docs))]}}
		case 6:
			q = bulkRequest{Action: "schemas"}
		case 7:
			q = bulkRequest{Action: "schema", Payload: map[string]any{"path": []string{"bill/invoice", "envelope", "org/party", "nope"}[r.Intn(4)]}}
		case 8:
			q = bulkRequest{Action: "regime", Payload: map[string]any{"code": []string{"ES", "pt", "MX", "XX"}[r.Intn(4)]}}
		case 9:
			q = bulkRequest{Action: "verify", Payload: map[string]any{"data": signed, "publickey": pub}}
		case 10:
			q = bulkRequest{Action: []string{"replicate", "correct", "keygen", "sign"}[r.Intn(4)], Payload: map[string]any{"data": docs[r.Intn(len(docs))]}}
		default:
			q = bulkRequest{Action: "bogus", Payload: map[string]any{"x": 1}}
		}
		q.ReqID = id
		q.Indent = r.Intn(3) == 0
		reqs[i] = q
	}
	bad := 0
	if r.Intn(5) == 0 {
		bad = 1 + r.Intn(n+1) // malformed text at this position (n+1 = after the last request)
	}
	return reqs, bad
}

func encodeStream(reqs []bulkRequest, bad int) []byte {
	var buf bytes.Buffer
	enc := json.NewEncoder(&buf)
	for i, q := range reqs {
		if bad == i+1 {
			buf.WriteString("{\"action\": \"ping\", \"req_id\": 12, !!! not json\n")
			return buf.Bytes()
		}
		enc.Encode(q)
	}
	if bad == len(reqs)+1 {
		buf.WriteString("]]]\n")
	}
	return buf.Bytes()
}

func runBulkProc(bin string, in []byte, slow bool) ([]bulkResponse, error) {
	cmd := exec.Command(bin)
	stdin, err := cmd.StdinPipe()
	if err != nil {
		return nil, err
	}
	stdout, err := cmd.StdoutPipe()
	if err != nil {
		return nil, err
	}
	if err := cmd.Start(); err != nil {
		return nil, err
	}
	go func() {
		if slow {
			// feed line by line so that early requests finish before later ones are read
			for _, line := range bytes.SplitAfter(in, []byte("\n")) {
				stdin.Write(line)
				runtime.Gosched()
			}
		} else {
			stdin.Write(in)
		}
		stdin.Close()
	}()
	var out []bulkResponse
	sc := bufio.NewScanner(stdout)
	sc.Buffer(make([]byte, 1<<20), 1<<27)
	for sc.Scan() {
		var res bulkResponse
		if err := json.Unmarshal(sc.Bytes(), &res); err != nil {
			return nil, fmt.Errorf("unreadable response line: %w", err)
		}
		out = append(out, res)
	}
	io.Copy(io.Discard, stdout)
	if err := cmd.Wait(); err != nil {
		return out, fmt.Errorf("bulk process: %w", err)
	}
	return out, nil
}

func hasErr(raw json.RawMessage) bool { return len(raw) > 0 && string(raw) != "null" }

func bulkRun(repo, bin string, seed int64, streams int, out string) error {
	w, err := tr.NewWriter(out)
	if err != nil {
		return err
	}
	r := rand.New(rand.NewSource(seed))
	_, docs := exampleEnvelopes(repo)
	if len(docs) == 0 {
		return fmt.Errorf("no example envelopes")
	}
	// a signed envelope for verify requests
	key := dsig.NewES256Key()
	var signed []byte
	for _, d := range docs {
		env := new(gobl.Envelope)
		if json.Unmarshal(d, env) == nil && env.Sign(key) == nil {
			signed, _ = json.Marshal(env)
			break
		}
	}
	standalone := map[string]string{}
	for t := 1; t <= streams; t++ {
		reqs, bad := bulkGenStream(r, docs, signed, key.Public(), t)
		ids := make([]string, len(reqs))
		for i, q := range reqs {
			ids[i] = q.ReqID
		}
		n := 0
		emit := func(ev bulkEvent) {
			ev.Tr, ev.N = t, n
			if ev.IDs == nil {
				ev.IDs = []string{}
			}
			n++
			w.Emit(ev)
		}
		emit(bulkEvent{Kind: "start", NReq: len(reqs), Bad: bad, IDs: ids})
		res, err := runBulkProc(bin, encodeStream(reqs, bad), r.Intn(2) == 0)
		if err != nil {
			emit(bulkEvent{Kind: "end", Err: true, Action: err.Error()})
			continue
		}
		byID := map[string]bulkRequest{}
		for _, q := range reqs {
			byID[q.ReqID] = q
		}
		for _, rs := range res {
			if rs.IsFinal {
				emit(bulkEvent{Kind: "final", Seq: rs.SeqID, Req: rs.ReqID, Err: hasErr(rs.Error)})
				continue
			}
			q, known := byID[rs.ReqID]
			ev := bulkEvent{Kind: "resp", Seq: rs.SeqID, Req: rs.ReqID, Err: hasErr(rs.Error), Action: q.Action, Same: true}
			if known && bulkComparable[q.Action] {
				// the same request processed alone (one-request stream), cached
				qb, _ := json.Marshal(bulkRequest{Action: q.Action, Payload: q.Payload, Indent: q.Indent})
				k := sha(qb)
				if _, ok := standalone[k]; !ok {
					alone, err := runBulkProc(bin, append(qb, '\n'), false)
					if err != nil || len(alone) < 1 {
						standalone[k] = "standalone-failed"
					} else {
						standalone[k] = sha(append(append([]byte{}, alone[0].Payload...), alone[0].Error...))
					}
				}
				ev.Cmp = true
				ev.Same = standalone[k] == sha(append(append([]byte{}, rs.Payload...), rs.Error...))
			}
			emit(ev)
		}
		emit(bulkEvent{Kind: "end"})
	}
	if bulkGobl != "" {
		if err := bulkHTTPSign(w, out, r, docs, streams); err != nil {
			return err
		}
	}
	fmt.Printf("events=%d streams=%d\n", w.N, streams)
	return w.Close()
}

// bulkGobl, when set, is the gobl command: streams of sign requests are also sent to `gobl serve`, whose bulk
// end point signs with the server's key unless a request brings its own
var bulkGobl string

// bulkHTTPSign: sign requests with and without a key of their own, mixed in one stream.  Signatures differ from
// run to run, so "equal to the standalone output" is judged by who signed: the request's key when it names one,
// the server's key otherwise.
func bulkHTTPSign(w *tr.Writer, out string, r *rand.Rand, docs [][]byte, streams int) error {
	dir, err := os.MkdirTemp(filepath.Dir(out), "serve")
	if err != nil {
		return err
	}
	defer os.RemoveAll(dir)
	serverKey, ownKey := dsig.NewES256Key(), dsig.NewES256Key()
	kb, _ := json.Marshal(serverKey)
	keyFile := filepath.Join(dir, "key.jwk")
	if err := os.WriteFile(keyFile, kb, 0o600); err != nil {
		return err
	}
	port := freePort()
	srv := exec.Command(bulkGobl, "serve", "-p", fmt.Sprint(port), "-k", keyFile)
	srv.Stdout, srv.Stderr = io.Discard, io.Discard
	if err := srv.Start(); err != nil {
		return fmt.Errorf("gobl serve: %w", err)
	}
	defer func() { srv.Process.Kill(); srv.Wait() }()
	base := fmt.Sprintf("http://127.0.0.1:%d", port)
	up := false
	for i := 0; i < 100; i++ {
		if resp, err := http.Get(base + "/"); err == nil {
			resp.Body.Close()
			up = true
			break
		}
		time.Sleep(50 * time.Millisecond)
	}
	if !up {
		return fmt.Errorf("gobl serve did not come up on port %d", port)
	}
	// unsigned, valid envelopes
	var signable [][]byte
	for _, d := range docs {
		env := new(gobl.Envelope)
		if json.Unmarshal(d, env) == nil && !env.Signed() && env.Validate() == nil {
			signable = append(signable, d)
		}
		if len(signable) >= 12 {
			break
		}
	}
	if len(signable) == 0 {
		return nil
	}
	n := streams / 10
	if n < 6 {
		n = 6
	}
	for t := 1; t <= n; t++ {
		trid := 1000000 + t
		cnt := 2 + r.Intn(10)
		if t%6 == 1 {
			// a long stream: the first answers are on their way while most of the requests are still to be read
			cnt = 100 + r.Intn(60)
		}
		want := map[string]string{}
		var ids []string
		var body bytes.Buffer
		enc := json.NewEncoder(&body)
		for i := 0; i < cnt; i++ {
			id := fmt.Sprintf("h%d-r%d", t, i+1)
			ids = append(ids, id)
			pl := map[string]any{"data": signable[r.Intn(len(signable))]}
			want[id] = serverKey.ID()
			if r.Intn(2) == 0 {
				pl["privatekey"] = ownKey
				want[id] = ownKey.ID()
			}
			enc.Encode(bulkRequest{Action: "sign", ReqID: id, Payload: pl})
		}
		k := 0
		emit := func(ev bulkEvent) {
			ev.Tr, ev.N = trid, k
			if ev.IDs == nil {
				ev.IDs = []string{}
			}
			k++
			w.Emit(ev)
		}
		emit(bulkEvent{Kind: "start", NReq: cnt, IDs: ids})
		resp, err := http.Post(base+"/bulk", "application/json", &body)
		if err != nil {
			emit(bulkEvent{Kind: "end", Err: true, Action: err.Error()})
			continue
		}
		sc := bufio.NewScanner(resp.Body)
		sc.Buffer(make([]byte, 1<<20), 1<<27)
		for sc.Scan() {
			var rs bulkResponse
			if json.Unmarshal(sc.Bytes(), &rs) != nil {
				continue
			}
			if rs.IsFinal {
				emit(bulkEvent{Kind: "final", Seq: rs.SeqID, Req: rs.ReqID, Err: hasErr(rs.Error)})
				continue
			}
			ev := bulkEvent{Kind: "resp", Seq: rs.SeqID, Req: rs.ReqID, Err: hasErr(rs.Error), Action: "sign", Cmp: true}
			env := new(gobl.Envelope)
			if !ev.Err && json.Unmarshal(rs.Payload, env) == nil && len(env.Signatures) == 1 && env.Signatures[0] != nil {
				ev.Same = env.Signatures[0].KeyID() == want[rs.ReqID]
			}
			emit(ev)
		}
		resp.Body.Close()
		emit(bulkEvent{Kind: "end"})
	}
	return nil
}

// ---- concurrent library use ---------------------------------------------------------------------------

type concEvent struct {
	K    string `json:"k"` // registry | result
	G    int    `json:"g"`
	Op   string `json:"op"`
	Doc  string `json:"doc"`
	Same bool   `json:"same"`
	Seq  string `json:"seq"`
	Got  string `json:"got"`
}

func registryFingerprint() string {
	h := sha256.New()
	for _, r := range tax.AllRegimeDefs() {
		if doc, err := schema.NewObject(r); err == nil {
			b, _ := json.Marshal(doc)
			h.Write(b)
		}
		// tag lists: also what lies beyond their length (spare capacity is where a stray append lands)
		for _, ts := range r.Tags {
			full := ts.List[:cap(ts.List)]
			for _, t := range full {
				if t != nil {
					h.Write([]byte(t.Key))
				} else {
					h.Write([]byte{0})
				}
			}
		}
	}
	for _, a := range tax.AllAddonDefs() {
		if doc, err := schema.NewObject(a); err == nil {
			b, _ := json.Marshal(doc)
			h.Write(b)
		}
	}
	return hex.EncodeToString(h.Sum(nil)[:10])
}

var concKey = dsig.NewES256Key()

var (
	taintAmount  = num.MakeAmount(987654321, 3)
	taintPercent = num.MakePercentage(987, 3)
	typAmount    = reflect.TypeOf(num.Amount{})
	typPercent   = reflect.TypeOf(num.Percentage{})
)

// taint overwrites, in place, everything reachable from a document through exported fields: strings,
// amounts, percentages, map values and slice elements.  Returns the number of values written.
func taint(v reflect.Value, seen map[uintptr]bool, depth int) int {
	if depth > 40 || !v.IsValid() {
		return 0
	}
	n := 0
	switch v.Kind() {
	case reflect.Ptr, reflect.Interface:
		if v.IsNil() {
			return 0
		}
		if v.Kind() == reflect.Ptr {
			if seen[v.Pointer()] {
				return 0
			}
			seen[v.Pointer()] = true
		}
		return taint(v.Elem(), seen, depth+1)
	case reflect.Struct:
		if v.CanSet() {
			switch v.Type() {
			case typAmount:
				v.Set(reflect.ValueOf(taintAmount))
				return 1
			case typPercent:
				v.Set(reflect.ValueOf(taintPercent))
				return 1
			}
		}
		for i := 0; i < v.NumField(); i++ {
			if v.Type().Field(i).PkgPath != "" { // unexported
				continue
			}
			n += taint(v.Field(i), seen, depth+1)
		}
	case reflect.String:
		if v.CanSet() && v.Len() > 0 {
			v.SetString("TAINT")
			n++
		}
	case reflect.Slice:
		for i := 0; i < v.Len(); i++ {
			n += taint(v.Index(i), seen, depth+1)
		}
	case reflect.Map:
		for _, k := range v.MapKeys() {
			e := v.MapIndex(k)
			switch e.Kind() {
			case reflect.String:
				nv := reflect.New(e.Type()).Elem()
				nv.SetString("TAINT")
				v.SetMapIndex(k, nv)
				n++
			case reflect.Ptr, reflect.Interface, reflect.Slice, reflect.Map:
				n += taint(e, seen, depth+1)
			}
		}
	}
	return n
}

// concOps runs the life-cycle on one document and returns a fingerprint per operation
func concOps(raw []byte) map[string]string {
	out := map[string]string{}
	rec := func(op string, f func() string) {
		defer func() {
			if p := recover(); p != nil {
				out[op] = fmt.Sprintf("panic:%v", p)
			}
		}()
		out[op] = f()
	}
	env := new(gobl.Envelope)
	rec("parse", func() string {
		if err := json.Unmarshal(raw, env); err != nil {
			return "err:" + err.Error()
		}
		return "ok"
	})
	if out["parse"] != "ok" {
		return out
	}
	rec("calculate", func() string {
		if err := env.Calculate(); err != nil {
			return "err:" + outcome(err)
		}
		b, _ := json.Marshal(env)
		return sha(b)
	})
	rec("validate", func() string { return outcome(env.Validate()) })
	rec("tags", func() string {
		if inv, ok := env.Extract().(*bill.Invoice); ok {
			js, _ := json.Marshal(inv.Tags)
			// validation of tags consults the merged tag sets of regime and addons
			return sha(js) + ":" + outcome(inv.Validate())
		}
		return "-"
	})
	rec("sign-verify", func() string {
		e2 := new(gobl.Envelope)
		json.Unmarshal(raw, e2)
		if err := e2.Sign(concKey); err != nil {
			return "sign:" + outcome(err)
		}
		return "verify:" + outcome(e2.Verify(concKey.Public()))
	})
	rec("correct", func() string {
		if _, ok := env.Extract().(*bill.Invoice); !ok {
			return "-"
		}
		js, err := env.CorrectionOptionsSchema()
		sj, _ := json.Marshal(js)
		res, err2 := env.Correct(bill.Credit, bill.WithReason("r"), bill.WithCopyTax())
		s := sha(sj) + fmt.Sprint(err == nil) + ":" + outcome(err2)
		if err2 == nil {
			if inv, ok := res.Extract().(*bill.Invoice); ok && inv.Totals != nil {
				s += ":" + inv.Totals.Payable.String()
			}
		}
		return s
	})
	rec("replicate", func() string {
		res, err := env.Replicate()
		if err != nil {
			return outcome(err)
		}
		if inv, ok := res.Extract().(*bill.Invoice); ok && inv.Totals != nil {
			return "ok:" + inv.Totals.Payable.String()
		}
		return "ok"
	})
	return out
}

func concRun(repo string, seed int64, goroutines, rounds int, out string) error {
	w, err := tr.NewWriter(out)
	if err != nil {
		return err
	}
	names, docs := exampleEnvelopes(repo)
	// every regime x addon combination: each invoice also with every registered addon switched on
	var addons []string
	for _, a := range tax.AllAddonDefs() {
		addons = append(addons, string(a.Key))
	}
	sort.Strings(addons)
	nbase := len(docs)
	for i := 0; i < nbase; i++ {
		var m map[string]any
		if json.Unmarshal(docs[i], &m) != nil {
			continue
		}
		doc, ok := m["doc"].(map[string]any)
		if !ok || !strings.HasSuffix(fmt.Sprint(doc["$schema"]), "/bill/invoice") {
			continue
		}
		for k, a := range addons {
			if (i+k)%3 != int(seed)%3 { // a third of the combinations per seed
				continue
			}
			have, _ := doc["$addons"].([]any)
			doc["$addons"] = append(append([]any{}, have...), a)
			b, _ := json.Marshal(m)
			docs = append(docs, b)
			names = append(names, names[i]+"+"+a)
			doc["$addons"] = have
			if have == nil {
				delete(doc, "$addons")
			}
		}
	}
	// documents in older spellings that the regime rewrites while calculating (PT: exemption reasons once written as
	// rate keys and migrated through a table), with and without a foreign country on the tax combination
	legacy, raceOnly := map[int]bool{}, map[int]bool{}
	for i := 0; i < nbase; i++ {
		if !strings.Contains(names[i], "/pt/") {
			continue
		}
		var m map[string]any
		if json.Unmarshal(docs[i], &m) != nil {
			continue
		}
		doc, ok := m["doc"].(map[string]any)
		lines, _ := doc["lines"].([]any)
		if !ok || !strings.HasSuffix(fmt.Sprint(doc["$schema"]), "/bill/invoice") || len(lines) == 0 {
			continue
		}
		orig, _ := json.Marshal(lines)
		for _, key := range []string{"exempt+outlay", "exempt+exports", "exempt+small-retail-scheme", "exempt+reverse-charge+b2b", "exempt+non-taxable"} {
			for _, country := range []string{"", "ES"} {
				var ls []any
				json.Unmarshal(orig, &ls)
				for _, l := range ls {
					combo := map[string]any{"cat": "VAT", "rate": key}
					if country != "" {
						combo["country"] = country
					}
					l.(map[string]any)["taxes"] = []any{combo}
				}
				doc["lines"] = ls
				delete(doc, "totals")
				b, _ := json.Marshal(m)
				legacy[len(docs)] = true
				docs = append(docs, b)
				names = append(names, names[i]+"+legacy:"+key+":"+country)
			}
		}
		json.Unmarshal(orig, &lines)
		doc["lines"] = lines
	}
	// documents without an issue date: the calculation takes today's date in the regime's time zone
	for i := 0; i < nbase; i++ {
		if i%4 != int(seed)%4 {
			continue
		}
		var m map[string]any
		if json.Unmarshal(docs[i], &m) != nil {
			continue
		}
		doc, ok := m["doc"].(map[string]any)
		if !ok || doc["issue_date"] == nil {
			continue
		}
		delete(doc, "issue_date")
		delete(doc, "value_date")
		b, _ := json.Marshal(m)
		// (only the race detector looks at these: their results depend on the day, which may change during a run)
		legacy[len(docs)], raceOnly[len(docs)] = true, true
		docs = append(docs, b)
		names = append(names, names[i]+"+no-issue-date")
	}
	before := registryFingerprint()
	w.Emit(concEvent{K: "registry", Op: "before", Same: true, Got: before})
	// the concurrent phase comes first, in a cold process: lazily initialised shared state (caches,
	// compiled patterns, merged definitions) is then first touched by several goroutines at once
	type obs struct {
		g, i int
		got  map[string]string
	}
	// no lock is shared between the goroutines while they work: a mutex here would order their
	// accesses (happens-before) and hide exactly the races the detector is meant to see
	perG := make([][]obs, goroutines)
	var wg sync.WaitGroup
	// first of all, document by document, all goroutines parse + validate the SAME document at the same moment
	// (released together by closing a channel).  Whatever shared state that document's regime, addons or
	// extensions initialise lazily is then first touched by several goroutines with nothing ordering them, so
	// the race detector sees the conflicting accesses next to each other (its per-location history is short).
	for _, i := range rand.New(rand.NewSource(seed)).Perm(len(docs)) {
		start := make(chan struct{})
		var bw sync.WaitGroup
		for g := 0; g < goroutines; g++ {
			bw.Add(1)
			go func() {
				defer bw.Done()
				defer func() { recover() }()
				<-start
				env := new(gobl.Envelope)
				if json.Unmarshal(docs[i], env) == nil {
					if legacy[i] {
						_ = env.Calculate() // the rewriting happens here
					}
					_ = env.Validate()
				}
			}()
		}
		close(start)
		bw.Wait()
	}
	for g := 0; g < goroutines; g++ {
		wg.Add(1)
		go func(g int) {
			defer wg.Done()
			r := rand.New(rand.NewSource(seed*1000 + int64(g)))
			for round := 0; round < rounds; round++ {
				order := r.Perm(len(docs))
				for _, i := range order {
					if r.Intn(4) == 0 {
						runtime.Gosched()
					}
					perG[g] = append(perG[g], obs{g, i, concOps(docs[i])})
				}
			}
		}(g)
	}
	wg.Wait()
	var all []obs
	for _, l := range perG {
		all = append(all, l...)
	}
	mid := registryFingerprint()
	w.Emit(concEvent{K: "registry", Op: "after-concurrent", Same: mid == before, Seq: before, Got: mid})
	// sequential reference, afterwards
	seq := make([]map[string]string, len(docs))
	for i, d := range docs {
		seq[i] = concOps(d)
	}
	for _, o := range all {
		if raceOnly[o.i] {
			continue
		}
		for op, want := range seq[o.i] {
			w.Emit(concEvent{K: "result", G: o.g, Op: op, Doc: names[o.i], Same: o.got[op] == want, Seq: want, Got: o.got[op]})
		}
	}
	after := registryFingerprint()
	w.Emit(concEvent{K: "registry", Op: "after-sequential", Same: after == before, Seq: before, Got: after})
	// documents are independent of the definitions and of each other: after a document has been calculated,
	// corrected and replicated, everything the caller can reach in it is overwritten in place (as an
	// application editing its own document may do).  The definitions must not notice, and documents
	// processed afterwards must give what they gave before.
	tainted := 0
	for _, d := range docs {
		func() {
			defer func() { recover() }()
			env := new(gobl.Envelope)
			if json.Unmarshal(d, env) != nil || env.Calculate() != nil {
				return
			}
			objs := []any{env.Extract()}
			if _, ok := env.Extract().(*bill.Invoice); ok {
				if c, err := env.Correct(bill.Credit, bill.WithReason("r"), bill.WithCopyTax()); err == nil {
					objs = append(objs, c.Extract())
				}
				if c, err := env.Replicate(); err == nil {
					objs = append(objs, c.Extract())
				}
			}
			for _, o := range objs {
				tainted += taint(reflect.ValueOf(o), map[uintptr]bool{}, 0)
			}
		}()
	}
	edited := registryFingerprint()
	w.Emit(concEvent{K: "registry", Op: "after-editing-documents", Same: edited == before, Seq: before, Got: edited})
	for i, d := range docs {
		if raceOnly[i] {
			continue
		}
		got := concOps(d)
		for op, want := range seq[i] {
			if got[op] != want {
				w.Emit(concEvent{K: "result", G: -1, Op: op, Doc: names[i] + " (after other documents were edited)", Same: false, Seq: want, Got: got[op]})
			}
		}
	}
	fmt.Printf("tainted=%d\n", tainted)
	fmt.Printf("events=%d docs=%d\n", w.N, len(docs))
	return w.Close()
}

func init() {
	register("bulk-run", func(args []string) error {
		fs := flag.NewFlagSet("bulk-run", flag.ExitOnError)
		repo := fs.String("repo", "/repo", "repository")
		bin := fs.String("bulk", "", "goblverif binary")
		seed := fs.Int64("seed", 1, "seed")
		n := fs.Int("streams", 50, "streams")
		out := fs.String("out", "", "events ndjson")
		goblBin := fs.String("gobl", "", "gobl command (for the HTTP bulk end point)")
		fs.Parse(args)
		bulkGobl = *goblBin
		return bulkRun(*repo, *bin, *seed, *n, *out)
	})
	register("conc-run", func(args []string) error {
		fs := flag.NewFlagSet("conc-run", flag.ExitOnError)
		repo := fs.String("repo", "/repo", "repository")
		seed := fs.Int64("seed", 1, "seed")
		g := fs.Int("g", 8, "goroutines")
		rounds := fs.Int("rounds", 1, "rounds per goroutine")
		out := fs.String("out", "", "events ndjson")
		fs.Parse(args)
		return concRun(*repo, *seed, *g, *rounds, *out)
	})
}
