package main

// dec: drivers for Decimal.tla (C05).  Every event is one call of the real
// num.Amount / num.Percentage API with its arguments and result:
//   {"op":..,"a":{v,e},"b":{v,e},"k":..,"r":{t:..}}
// replay: cases come from TLC (MCDecimal Export); record: seeded generator
// over the 2^52 domain, tie-directed.

import (
	"encoding/json"
	"fmt"
	"math/big"
	"math/rand"

	"github.com/invopop/gobl/num"
	"goblverif/internal/tr"
)

type decCase struct {
	Op string `json:"op"`
	A  tr.Amt `json:"a"`
	B  tr.Amt `json:"b"`
	K  int    `json:"k"`
}

type decEvent struct {
	Op string         `json:"op"`
	A  tr.Amt         `json:"a"`
	B  tr.Amt         `json:"b"`
	K  int            `json:"k"`
	R  map[string]any `json:"r"`
}

func amtOf(a num.Amount) tr.Amt { return tr.Amt{V: tr.BigOfInt(a.Value()), E: int(a.Exp())} }
func toAmount(a tr.Amt) num.Amount {
	return num.MakeAmount(a.V.Int().Int64(), uint32(a.E))
}
func toPct(a tr.Amt) num.Percentage {
	return num.MakePercentage(a.V.Int().Int64(), uint32(a.E))
}
func pctBase(p num.Percentage) tr.Amt { return tr.Amt{V: tr.BigOfInt(p.Value()), E: int(p.Exp())} }

func rA(a num.Amount) map[string]any {
	x := amtOf(a)
	return map[string]any{"t": "a", "v": x.V, "e": x.E}
}
func rPct(p num.Percentage) map[string]any {
	x := pctBase(p)
	return map[string]any{"t": "a", "v": x.V, "e": x.E}
}
func rI(i int) map[string]any  { return map[string]any{"t": "i", "i": i} }
func rB(b bool) map[string]any { return map[string]any{"t": "b", "b": b} }

// decApply calls the real code.  A panic is reported as result kind "panic",
// which no specification result equals.
func decApply(c decCase) (res map[string]any) {
	defer func() {
		if r := recover(); r != nil {
			res = map[string]any{"t": "panic", "msg": fmt.Sprint(r)}
		}
	}()
	a, b := toAmount(c.A), toAmount(c.B)
	k := uint32(c.K)
	switch c.Op {
	case "Add":
		return rA(a.Add(b))
	case "Subtract":
		return rA(a.Subtract(b))
	case "Multiply":
		return rA(a.Multiply(b))
	case "Divide":
		return rA(a.Divide(b))
	case "Compare":
		return rI(a.Compare(b))
	case "Equals":
		return rB(a.Equals(b))
	case "MatchPrecision":
		return rA(a.MatchPrecision(b))
	case "Rescale":
		return rA(a.Rescale(k))
	case "RescaleUp":
		return rA(a.RescaleUp(k))
	case "RescaleDown":
		return rA(a.RescaleDown(k))
	case "RescaleRange":
		return rA(a.RescaleRange(k, uint32(c.B.E)))
	case "Upscale":
		return rA(a.Upscale(k))
	case "Downscale":
		return rA(a.Downscale(k))
	case "Split":
		x, y := a.Split(c.K)
		ax, ay := amtOf(x), amtOf(y)
		return map[string]any{"t": "p", "v": ax.V, "e": ax.E, "v2": ay.V, "e2": ay.E}
	case "Negate":
		return rA(a.Negate())
	case "Invert":
		return rA(a.Invert())
	case "Abs":
		return rA(a.Abs())
	case "IsZero":
		return rB(a.IsZero())
	case "IsNegative":
		return rB(a.IsNegative())
	case "IsPositive":
		return rB(a.IsPositive())
	case "PctFromAmount":
		return rPct(num.PercentageFromAmount(a))
	case "PctAmount":
		return rA(toPct(c.A).Amount())
	case "PctFactor":
		return rA(toPct(c.A).Factor())
	case "PctNegate":
		return rPct(toPct(c.A).Negate())
	case "PctRescale":
		return rPct(toPct(c.A).Rescale(k))
	case "PctOf":
		return rA(toPct(c.A).Of(b))
	case "PctFrom":
		return rA(toPct(c.A).From(b))
	case "PctRemove":
		return rA(b.Remove(toPct(c.A)))
	case "PctCompare":
		return rI(toPct(c.A).Compare(toPct(c.B)))
	case "PctEquals":
		return rB(toPct(c.A).Equals(toPct(c.B)))
	case "min":
		return rB(num.Min(b).Validate(a) == nil)
	case "minx":
		return rB(num.Min(b).Exclusive().Validate(a) == nil)
	case "max":
		return rB(num.Max(b).Validate(a) == nil)
	case "maxx":
		return rB(num.Max(b).Exclusive().Validate(a) == nil)
	case "notzero":
		return rB(num.NotZero.Validate(a) == nil)
	case "positive":
		return rB(num.Positive.Validate(a) == nil)
	case "negative":
		return rB(num.Negative.Validate(a) == nil)
	}
	return map[string]any{"t": "unknown-op"}
}

func decReplay(in, out string) error {
	w, err := tr.NewWriter(out)
	if err != nil {
		return err
	}
	err = tr.ReadLines(in, func(line []byte) error {
		var c decCase
		if err := json.Unmarshal(line, &c); err != nil {
			return err
		}
		w.Emit(decEvent{Op: c.Op, A: c.A, B: c.B, K: c.K, R: decApply(c)})
		return nil
	})
	if err != nil {
		return err
	}
	fmt.Printf("events=%d\n", w.N)
	return w.Close()
}

// ---- generator over the 2^52 domain -------------------------------------

var two52 = new(big.Int).Lsh(big.NewInt(1), 52)

func w52(x *big.Int) bool { return new(big.Int).Abs(x).Cmp(two52) <= 0 }
func pow10(k int) *big.Int {
	return new(big.Int).Exp(big.NewInt(10), big.NewInt(int64(k)), nil)
}

func randMag(r *rand.Rand, limit *big.Int) *big.Int {
	if limit.Sign() <= 0 {
		return big.NewInt(0) // nothing but zero fits (exponents far apart)
	}
	// magnitude classes: tiny, small, medium, large, near the limit
	var v *big.Int
	switch r.Intn(6) {
	case 0:
		v = big.NewInt(int64(r.Intn(20)))
	case 1:
		v = big.NewInt(int64(r.Intn(10000)))
	case 2:
		v = big.NewInt(r.Int63n(100000000))
	case 3:
		v = new(big.Int).Rand(r, limit)
	case 4:
		v = new(big.Int).Sub(limit, big.NewInt(int64(r.Intn(3))))
	default:
		// round numbers and numbers ending in 5 / 49 / 50 / 51
		base := big.NewInt(r.Int63n(1000000))
		base.Mul(base, pow10(r.Intn(6)))
		tails := []int64{0, 5, 49, 50, 51, 499, 500, 501, 45, 55}
		base.Add(base, big.NewInt(tails[r.Intn(len(tails))]))
		v = base
	}
	if v.Cmp(limit) > 0 {
		v.Mod(v, limit)
	}
	if r.Intn(2) == 0 {
		v.Neg(v)
	}
	return v
}

func amtBig(v *big.Int, e int) tr.Amt { return tr.Amt{V: tr.BigOf(v), E: e} }

// isTie reports whether num/den lies exactly half way between two integers.
func isTie(n, d *big.Int) bool {
	if d.Sign() == 0 {
		return false
	}
	x := new(big.Int).Mul(n, big.NewInt(2))
	x.Abs(x)
	dd := new(big.Int).Abs(d)
	m := new(big.Int).Mod(x, new(big.Int).Mul(dd, big.NewInt(2)))
	return m.Cmp(dd) == 0
}

var decRandOps = []string{"Add", "Subtract", "Multiply", "Divide", "Compare", "Equals", "MatchPrecision",
	"Rescale", "RescaleUp", "RescaleDown", "RescaleRange", "Upscale", "Downscale", "Split", "Negate", "Abs",
	"PctFromAmount", "PctAmount", "PctFactor", "PctRescale", "PctOf", "PctFrom", "PctRemove", "PctCompare",
	"Multiply", "Divide", "Rescale", "PctOf", "PctRemove", "PctFrom", "Split", "min", "maxx"}

// decGen produces one in-domain case (the domain of the property: operands and
// exact intermediates within 2^52 units).  TLC re-checks the domain.
func decGen(r *rand.Rand) (decCase, bool) {
	op := decRandOps[r.Intn(len(decRandOps))]
	ea, eb := r.Intn(10), r.Intn(10)
	wide := r.Intn(5) == 0
	if wide {
		// every exponent an int64 amount can have; the operands are kept small so that the results stay in the domain
		ea, eb = r.Intn(19), r.Intn(19)
	}
	c := decCase{Op: op}
	switch op {
	case "Multiply", "PctOf":
		// x * y with |x*y| <= 2^52; y carries the exponent that is divided out
		x := randMag(r, two52)
		var lim *big.Int
		if x.Sign() == 0 {
			lim = new(big.Int).Set(two52)
		} else {
			lim = new(big.Int).Quo(two52, new(big.Int).Abs(x))
		}
		if lim.Sign() == 0 {
			return c, false
		}
		y := randMag(r, lim)
		// tie direction: nudge x so that x*y / 10^ey is a tie
		if r.Intn(3) == 0 {
			den := pow10(eb)
			for d := int64(0); d < 64; d++ {
				x2 := new(big.Int).Add(x, big.NewInt(d))
				if isTie(new(big.Int).Mul(x2, y), den) && w52(new(big.Int).Mul(x2, y)) {
					x = x2
					break
				}
			}
		}
		if op == "Multiply" {
			c.A, c.B = amtBig(x, ea), amtBig(y, eb)
		} else {
			c.A, c.B = amtBig(y, eb), amtBig(x, ea) // a = percentage, b = amount
		}
	case "Divide", "PctRemove", "PctFrom":
		// n * 10^ed / d, |n*10^ed| <= 2^52
		ed := eb
		lim := new(big.Int).Quo(two52, pow10(ed))
		n := randMag(r, lim)
		var d *big.Int
		if op == "Divide" {
			d = randMag(r, two52)
			if r.Intn(3) == 0 { // factors GOBL uses
				fs := []int64{121, 1055, 100, 2, 3, 4, 6, 7, 8, 12, 110, 1210, 104, 1052}
				d = big.NewInt(fs[r.Intn(len(fs))])
			}
		} else {
			// percentage p at exponent ed; factor = p + 10^ed
			ps := []int64{21, 10, 4, 105, 52, 7, 16, 0, 200, 1, 55, 25, 175}
			p := big.NewInt(ps[r.Intn(len(ps))])
			if r.Intn(3) == 0 {
				p = randMag(r, pow10(ed+1))
			}
			d = new(big.Int).Add(p, pow10(ed))
		}
		if d.Sign() == 0 {
			return c, false
		}
		if r.Intn(3) == 0 {
			sc := pow10(ed)
			for k := int64(0); k < 64; k++ {
				n2 := new(big.Int).Add(n, big.NewInt(k))
				if isTie(new(big.Int).Mul(n2, sc), d) && w52(new(big.Int).Mul(n2, sc)) {
					n = n2
					break
				}
			}
		}
		if op == "Divide" {
			c.A, c.B = amtBig(n, ea), amtBig(d, ed)
		} else {
			p := new(big.Int).Sub(d, pow10(ed))
			if !w52(p) || !w52(d) {
				return c, false
			}
			c.A, c.B = amtBig(p, ed), amtBig(n, ea)
		}
	case "Add", "Subtract", "Compare", "Equals", "PctCompare", "min", "maxx", "MatchPrecision":
		// both operands must fit after rescaling to the larger exponent
		em := ea
		if eb > em {
			em = eb
		}
		la := new(big.Int).Quo(two52, pow10(em-ea))
		lb := new(big.Int).Quo(two52, pow10(em-eb))
		la.Quo(la, big.NewInt(2))
		lb.Quo(lb, big.NewInt(2))
		x, y := randMag(r, la), randMag(r, lb)
		if r.Intn(3) == 0 && eb > ea {
			// make b a tie when rescaled down to a's precision
			half := new(big.Int).Quo(pow10(eb-ea), big.NewInt(2))
			y = new(big.Int).Mul(big.NewInt(r.Int63n(1000)-500), pow10(eb-ea))
			y.Add(y, half)
			y.Add(y, big.NewInt(int64(r.Intn(3)-1)))
			if r.Intn(2) == 0 {
				y.Neg(y)
			}
		}
		if r.Intn(4) == 0 {
			// nearly equal values at different precisions
			y = new(big.Int).Mul(x, pow10(em-ea))
			y.Quo(y, pow10(em-eb))
			y.Add(y, big.NewInt(int64(r.Intn(3)-1)))
		}
		c.A, c.B = amtBig(x, ea), amtBig(y, eb)
	case "Split":
		c.K = 1 + r.Intn(12)
		lim := new(big.Int).Quo(two52, big.NewInt(2))
		c.A, c.B = amtBig(randMag(r, lim), ea), amtBig(big.NewInt(0), 0)
	default:
		// unary / precision operations
		c.K = r.Intn(10)
		x := randMag(r, two52)
		if wide {
			c.K = r.Intn(19)
			x = big.NewInt(int64(r.Intn(9000)) - 4500)
		}
		if r.Intn(2) == 0 && ea > 0 {
			// tie at a random lower precision
			j := 1 + r.Intn(ea)
			half := new(big.Int).Quo(pow10(j), big.NewInt(2))
			x = new(big.Int).Mul(big.NewInt(r.Int63n(100000)), pow10(j))
			x.Add(x, half)
			x.Add(x, big.NewInt(int64(r.Intn(3)-1)))
			if r.Intn(2) == 0 {
				x.Neg(x)
			}
			if r.Intn(2) == 0 {
				c.K = ea - j
			}
		}
		// the result of raising precision must stay in the domain
		te := c.K
		if op == "Upscale" {
			te = ea + c.K
		}
		if op == "PctAmount" || op == "PctFromAmount" {
			x = randMag(r, new(big.Int).Quo(two52, big.NewInt(100)))
		}
		if op == "PctFactor" {
			x = randMag(r, new(big.Int).Sub(two52, pow10(ea)))
		}
		c.B = amtBig(big.NewInt(0), 0)
		if op == "RescaleRange" {
			c.B = amtBig(big.NewInt(0), c.K+r.Intn(4))
			te = c.K
		}
		if te > ea && op != "RescaleDown" && op != "Downscale" && op != "Negate" && op != "Abs" &&
			op != "PctFromAmount" && op != "PctAmount" && op != "PctFactor" {
			lim := new(big.Int).Quo(two52, pow10(te-ea))
			if lim.Sign() == 0 {
				x = big.NewInt(0)
			} else if new(big.Int).Abs(x).Cmp(lim) > 0 {
				x.Mod(x, lim)
			}
		}
		c.A = amtBig(x, ea)
	}
	if !w52(c.A.V.Int()) || !w52(c.B.V.Int()) {
		return c, false
	}
	return c, true
}

func decRecord(seed int64, n int, out string) error {
	r := rand.New(rand.NewSource(seed))
	w, err := tr.NewWriter(out)
	if err != nil {
		return err
	}
	for w.N < n {
		c, ok := decGen(r)
		if !ok {
			continue
		}
		w.Emit(decEvent{Op: c.Op, A: c.A, B: c.B, K: c.K, R: decApply(c)})
	}
	fmt.Printf("events=%d\n", w.N)
	return w.Close()
}
