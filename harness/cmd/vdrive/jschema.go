package main

// jschema: drivers for JsonSchema.tla (C11) - published JSON Schemas are valid
// and every valid document conforms.  schema-export hands the published schema
// files to TLC as tagged JSON (strings also as code points), with two
// mechanical tables: every $ref split into (target file, pointer segments) and
// every regular expression parsed into a syntax tree (regexp/syntax; matching
// is done by the specification).  schema-run produces the instances: every
// example envelope, the documents derived from them (corrections) and
// field-level mutations of them (variants of every string leaf, removal of
// every member), keeps those the real code calculates and validates, and logs
// the serialised envelope for TLC to evaluate against the published schemas.

import (
	"bytes"
	"encoding/json"
	"flag"
	"fmt"
	"math/rand"
	"os"
	"path/filepath"
	"reflect"
	"regexp"
	"regexp/syntax"
	"sort"
	"strings"
	"sync"
	"unicode/utf8"

	"github.com/invopop/gobl"
	"github.com/invopop/gobl/bill"
	"github.com/invopop/gobl/schema"
	"github.com/invopop/jsonschema"
	"goblverif/internal/tr"
)

func codes(s string) []int {
	out := make([]int, 0, len(s))
	for _, r := range s {
		out = append(out, int(r))
	}
	return out
}

// tagged value with code points: strings carry "c", objects carry "kc"
func tagValueC(x any) any {
	switch v := x.(type) {
	case map[string]any:
		keys := make([]string, 0, len(v))
		for k := range v {
			keys = append(keys, k)
		}
		sort.Strings(keys)
		vals := make([]any, len(keys))
		kc := make([][]int, len(keys))
		for i, k := range keys {
			vals[i] = tagValueC(v[k])
			kc[i] = codes(k)
		}
		return map[string]any{"t": "o", "k": keys, "kc": kc, "v": vals}
	case []any:
		vals := make([]any, len(v))
		for i, y := range v {
			vals[i] = tagValueC(y)
		}
		return map[string]any{"t": "a", "k": []string{}, "v": vals}
	case string:
		return map[string]any{"t": "s", "k": []string{}, "v": v, "c": codes(v)}
	case json.Number:
		s := v.String()
		isInt := !strings.ContainsAny(s, ".eE")
		n := -1 // small non-negative integers also as a number TLC can compare
		if isInt && len(s) <= 9 && !strings.HasPrefix(s, "-") {
			fmt.Sscan(s, &n)
		}
		return map[string]any{"t": "n", "k": []string{}, "v": s, "int": isInt, "n": n}
	case bool:
		return map[string]any{"t": "b", "k": []string{}, "v": fmt.Sprint(v)}
	}
	return map[string]any{"t": "z", "k": []string{}, "v": ""}
}

type reNode struct {
	Op  string    `json:"op"`
	R   []int     `json:"r"`
	S   []*reNode `json:"s"`
	Min int       `json:"min"`
	Max int       `json:"max"`
}

func reTree(re *syntax.Regexp) (*reNode, error) {
	n := &reNode{R: []int{}, S: []*reNode{}}
	sub := func() error {
		for _, s := range re.Sub {
			c, err := reTree(s)
			if err != nil {
				return err
			}
			n.S = append(n.S, c)
		}
		return nil
	}
	switch re.Op {
	case syntax.OpEmptyMatch:
		n.Op = "empty"
	case syntax.OpLiteral:
		if re.Flags&syntax.FoldCase != 0 {
			return nil, fmt.Errorf("case folding not supported")
		}
		n.Op = "lit"
		for _, r := range re.Rune {
			n.R = append(n.R, int(r))
		}
	case syntax.OpCharClass:
		n.Op = "cc"
		for _, r := range re.Rune {
			n.R = append(n.R, int(r))
		}
	case syntax.OpAnyCharNotNL:
		n.Op = "cc"
		n.R = []int{0, 9, 11, 0x10ffff}
	case syntax.OpAnyChar:
		n.Op = "cc"
		n.R = []int{0, 0x10ffff}
	case syntax.OpBeginText:
		n.Op = "bol"
	case syntax.OpEndText:
		n.Op = "eol"
	case syntax.OpCapture:
		n.Op = "cap"
		return n, sub()
	case syntax.OpStar:
		n.Op = "rep"
		n.Min, n.Max = 0, -1
		return n, sub()
	case syntax.OpPlus:
		n.Op = "rep"
		n.Min, n.Max = 1, -1
		return n, sub()
	case syntax.OpQuest:
		n.Op = "rep"
		n.Min, n.Max = 0, 1
		return n, sub()
	case syntax.OpRepeat:
		n.Op = "rep"
		n.Min, n.Max = re.Min, re.Max
		return n, sub()
	case syntax.OpConcat:
		n.Op = "cat"
		return n, sub()
	case syntax.OpAlternate:
		n.Op = "alt"
		return n, sub()
	default:
		return nil, fmt.Errorf("regular expression operator %v not supported", re.Op)
	}
	return n, nil
}

func collectSchemaStrings(x any, refs, pats map[string]bool) {
	switch v := x.(type) {
	case map[string]any:
		for k, y := range v {
			if s, ok := y.(string); ok {
				if k == "$ref" {
					refs[s] = true
				}
				if k == "pattern" {
					pats[s] = true
				}
			}
			if k == "patternProperties" {
				if m, ok := y.(map[string]any); ok {
					for p := range m {
						pats[p] = true
					}
				}
			}
			collectSchemaStrings(y, refs, pats)
		}
	case []any:
		for _, y := range v {
			collectSchemaStrings(y, refs, pats)
		}
	}
}

func schemaExport(repo, out string) error {
	if err := os.MkdirAll(out, 0o755); err != nil {
		return err
	}
	type entry struct {
		Name string `json:"name"`
		ID   string `json:"id"`
		Pub  string `json:"pub"`
	}
	var list []entry
	refs, pats := map[string]bool{}, map[string]bool{}
	files := listData(filepath.Join(repo, "data"))
	var names []string
	for name := range files {
		if strings.HasPrefix(name, "schemas/") {
			names = append(names, name)
		}
	}
	sort.Strings(names)
	ids := map[string]int{}
	for i, name := range names {
		raw, err := os.ReadFile(files[name])
		if err != nil {
			return err
		}
		dec := json.NewDecoder(bytes.NewReader(raw))
		dec.UseNumber()
		var x any
		if err := dec.Decode(&x); err != nil {
			return fmt.Errorf("%s: %w", name, err)
		}
		collectSchemaStrings(x, refs, pats)
		id := ""
		if m, ok := x.(map[string]any); ok {
			id, _ = m["$id"].(string)
		}
		b, _ := json.Marshal(tagValueC(x))
		dst := filepath.Join(out, fmt.Sprintf("schema-%04d.json", i+1))
		if err := os.WriteFile(dst, b, 0o644); err != nil {
			return err
		}
		list = append(list, entry{Name: name, ID: id, Pub: dst})
		if id != "" {
			ids[id] = i + 1
		}
	}
	// $ref table: reference text -> (file index or 0 for "same file", or -1 when no file has that $id; pointer segments)
	type refEntry struct {
		Ref  string   `json:"ref"`
		File int      `json:"file"`
		Segs []string `json:"segs"`
	}
	var rt []refEntry
	for r := range refs {
		e := refEntry{Ref: r, Segs: []string{}}
		base, frag := r, ""
		if i := strings.Index(r, "#"); i >= 0 {
			base, frag = r[:i], r[i+1:]
		}
		if base != "" {
			if idx, ok := ids[base]; ok {
				e.File = idx
			} else {
				e.File = -1
			}
		}
		for _, seg := range strings.Split(strings.TrimPrefix(frag, "/"), "/") {
			if seg != "" {
				seg = strings.ReplaceAll(strings.ReplaceAll(seg, "~1", "/"), "~0", "~")
				e.Segs = append(e.Segs, seg)
			}
		}
		rt = append(rt, e)
	}
	sort.Slice(rt, func(i, j int) bool { return rt[i].Ref < rt[j].Ref })
	type patEntry struct {
		Src  string  `json:"src"`
		OK   bool    `json:"ok"`
		Tree *reNode `json:"tree"`
	}
	var pt []patEntry
	for p := range pats {
		e := patEntry{Src: p, Tree: &reNode{Op: "empty", R: []int{}, S: []*reNode{}}}
		if re, err := syntax.Parse(p, syntax.Perl); err == nil {
			if t, err := reTree(re); err == nil {
				e.OK, e.Tree = true, t
			}
		}
		pt = append(pt, e)
	}
	sort.Slice(pt, func(i, j int) bool { return pt[i].Src < pt[j].Src })
	b, _ := json.Marshal(map[string]any{"files": list, "refs": rt, "patterns": pt})
	return os.WriteFile(filepath.Join(out, "manifest.json"), b, 0o644)
}

var (
	reUUID = regexp.MustCompile(`^[0-9a-fA-F]{8}-[0-9a-fA-F]{4}-[0-9a-fA-F]{4}-[0-9a-fA-F]{4}-[0-9a-fA-F]{12}$`)
	reNum  = regexp.MustCompile(`^-?[0-9]+(\.[0-9]+)?%?$`)
	reDate = regexp.MustCompile(`^[0-9]{4}-[0-9]{2}-[0-9]{2}$`)
)

type variant struct{ kind, v string }

func stringVariants(v string) []variant {
	out := []variant{
		{"trail-space", v + " "}, {"lead-space", " " + v}, {"trail-dash", v + "-"}, {"lead-dash", "-" + v},
		{"lead-slash", "/" + v}, {"trail-dot", v + "."}, {"upper", strings.ToUpper(v)}, {"lower", strings.ToLower(v)},
		{"long", v + strings.Repeat("0", 40)}, {"empty", ""}, {"inner-colon", v + ":x"}, {"inner-double", v + "--x"},
		{"newline", v + "\n"}, {"unicode", v + "é"}, {"plus", v + "+x"}, {"underscore", v + "_x"},
	}
	if strings.ContainsAny(v, ".-/") {
		// the separators of a formatted code replaced by white space
		rep := func(by string) string {
			return strings.NewReplacer(".", by, "-", by, "/", by).Replace(v)
		}
		out = append(out, variant{"sep-tab", rep("\t")}, variant{"sep-two-spaces", rep("  ")}, variant{"sep-space", rep(" ")}, variant{"sep-newline", rep("\n")})
	}
	switch {
	case reUUID.MatchString(v):
		out = append(out, variant{"uuid-braced", "{" + v + "}"}, variant{"uuid-urn", "urn:uuid:" + v},
			variant{"uuid-compact", strings.ReplaceAll(v, "-", "")}, variant{"uuid-upper", strings.ToUpper(v)})
	case reNum.MatchString(v):
		pct := strings.HasSuffix(v, "%")
		body := strings.TrimSuffix(v, "%")
		sfx := ""
		if pct {
			sfx = "%"
		}
		dec := body
		if !strings.Contains(dec, ".") {
			dec += "."
		}
		have := len(dec) - strings.Index(dec, ".") - 1
		for _, want := range []int{17, 18, 19, 20, 25} {
			if want > have {
				out = append(out, variant{fmt.Sprintf("decimals-%d", want), dec + strings.Repeat("0", want-have-1) + "1" + sfx})
			}
		}
		out = append(out, variant{"num-negative", "-" + v}, variant{"num-plus", "+" + v}, variant{"num-exp", body + "e2" + sfx},
			variant{"num-nodigit", "." + body + sfx}, variant{"num-trailing-dot", body + "." + sfx}, variant{"num-percent-toggle", map[bool]string{true: body, false: body + "%"}[pct]},
			variant{"num-zero-small", "0.0000000000000000009" + sfx}, variant{"num-leading-zero", "00" + v})
	case reDate.MatchString(v):
		out = append(out, variant{"date-short", strings.Replace(v, "-0", "-", 1)}, variant{"date-month13", v[:5] + "13" + v[7:]},
			variant{"date-compact", strings.ReplaceAll(v, "-", "")}, variant{"date-time", v + "T00:00:00"}, variant{"date-feb30", v[:5] + "02-30"})
	}
	return out
}

type leafPos struct {
	path []any
	cur  string
}

func walkLeaves(x any, path []any, leaves *[]leafPos, members *[][]any) {
	switch v := x.(type) {
	case map[string]any:
		for k, y := range v {
			p := append(append([]any{}, path...), k)
			*members = append(*members, p)
			walkLeaves(y, p, leaves, members)
		}
	case []any:
		for i, y := range v {
			walkLeaves(y, append(append([]any{}, path...), i), leaves, members)
		}
	case string:
		*leaves = append(*leaves, leafPos{path: path, cur: v})
	}
}

func setAt(doc any, path []any, val any, del bool) any {
	d := cloneJSON(doc)
	cur := d
	for i := 0; i < len(path)-1; i++ {
		switch k := path[i].(type) {
		case string:
			cur = cur.(map[string]any)[k]
		case int:
			cur = cur.([]any)[k]
		}
	}
	switch k := path[len(path)-1].(type) {
	case string:
		if del {
			delete(cur.(map[string]any), k)
		} else {
			cur.(map[string]any)[k] = val
		}
	case int:
		cur.([]any)[k] = val
	}
	return d
}

func pathClass(path []any) string {
	parts := make([]string, len(path))
	for i, p := range path {
		if _, ok := p.(int); ok {
			parts[i] = "N"
		} else {
			parts[i] = fmt.Sprint(p)
		}
	}
	return strings.Join(parts, ".")
}

type schemaEvent struct {
	K      string `json:"k"` // instance
	Src    string `json:"src"`
	Mut    string `json:"mut"`   // mutation kind ("none", "derived:...", variant kind, "remove")
	At     string `json:"at"`    // path class
	Where  string `json:"where"` // exact path
	New    string `json:"new"`
	Schema string `json:"schema"` // $schema of the document
	Env    any    `json:"env"`    // tagged serialised envelope
	Job    string `json:"job"`
}

type schemaJob struct {
	File string `json:"file"`
	Path []any  `json:"path"`
	Mut  string `json:"mut"`
	New  string `json:"new"`
	Del  bool   `json:"del"`
}

// enumEvent: one value that the running library itself enumerates for a schema location (reflection of the
// registered types, as the repository's generator does it); the published schema must accept it there.
type enumEvent struct {
	K    string   `json:"k"` // enum
	ID   string   `json:"id"`
	Segs []string `json:"segs"`
	Val  any      `json:"val"`
	Text string   `json:"text"`
}

func collectEnums(x any, segs []string, emit func(segs []string, v any)) {
	switch v := x.(type) {
	case map[string]any:
		for _, kw := range []string{"oneOf", "anyOf"} {
			if arr, ok := v[kw].([]any); ok {
				for _, e := range arr {
					if em, ok := e.(map[string]any); ok {
						if c, has := em["const"]; has {
							emit(segs, c)
						}
					}
				}
			}
		}
		if arr, ok := v["enum"].([]any); ok {
			for _, c := range arr {
				emit(segs, c)
			}
		}
		for k, y := range v {
			collectEnums(y, append(append([]string{}, segs...), k), emit)
		}
	case []any:
		for i, y := range v {
			collectEnums(y, append(append([]string{}, segs...), fmt.Sprint(i)), emit)
		}
	}
}

func reflectedEnums(w *tr.Writer) (int, error) {
	r := new(jsonschema.Reflector)
	r.AllowAdditionalProperties = true
	typs := schema.Types()
	r.Lookup = func(t reflect.Type) jsonschema.ID {
		if id, ok := typs[t]; ok {
			return jsonschema.ID(id.String())
		}
		return jsonschema.EmptyID
	}
	n := 0
	type entry struct {
		t  reflect.Type
		id string
	}
	var list []entry
	for t, id := range typs {
		list = append(list, entry{t, id.String()})
	}
	sort.Slice(list, func(i, j int) bool { return list[i].id < list[j].id })
	for _, e := range list {
		js := r.ReflectFromType(e.t)
		raw, err := json.Marshal(js)
		if err != nil {
			return n, err
		}
		dec := json.NewDecoder(bytes.NewReader(raw))
		dec.UseNumber()
		var x any
		if err := dec.Decode(&x); err != nil {
			return n, err
		}
		collectEnums(x, nil, func(segs []string, v any) {
			n++
			w.Emit(enumEvent{K: "enum", ID: e.id, Segs: append([]string{}, segs...), Val: tagValueC(v), Text: fmt.Sprint(v)})
		})
	}
	return n, nil
}

func schemaRun(repo, out string, seed int64, maxInst, maxDocs int, only string) error {
	var one *schemaJob
	if only != "" {
		one = new(schemaJob)
		if err := json.Unmarshal([]byte(only), one); err != nil {
			return err
		}
		for i, p := range one.Path {
			if f, ok := p.(float64); ok {
				one.Path[i] = int(f)
			}
		}
	}
	var files []string
	filepath.Walk(repo, func(p string, info os.FileInfo, err error) error {
		if err == nil && !info.IsDir() && strings.Contains(p, "/out/") && strings.Contains(p, "examples/") && strings.HasSuffix(p, ".json") {
			files = append(files, p)
		}
		return nil
	})
	sort.Strings(files)
	rng := rand.New(rand.NewSource(seed))
	if maxDocs > 0 && len(files) > maxDocs {
		rng.Shuffle(len(files), func(i, j int) { files[i], files[j] = files[j], files[i] })
		files = files[:maxDocs]
		sort.Strings(files)
	}
	type accepted struct {
		ev  schemaEvent
		key string
	}
	var mu sync.Mutex
	var acc []accepted
	stats := map[string]int{}
	seenCanon := map[string]bool{}
	record := func(src, mut, at, where, nw string, job []byte, env *gobl.Envelope) {
		raw, err := json.Marshal(env)
		if err != nil {
			mu.Lock()
			stats["marshal-failed"]++
			mu.Unlock()
			return
		}
		if !utf8.Valid(raw) {
			return
		}
		dec := json.NewDecoder(bytes.NewReader(raw))
		dec.UseNumber()
		var x map[string]any
		if dec.Decode(&x) != nil {
			return
		}
		mu.Lock()
		defer mu.Unlock()
		if seenCanon[string(raw)] {
			stats["duplicate-output"]++
			return
		}
		seenCanon[string(raw)] = true
		sch := ""
		if d, ok := x["doc"].(map[string]any); ok {
			sch, _ = d["$schema"].(string)
		}
		acc = append(acc, accepted{ev: schemaEvent{K: "instance", Src: src, Mut: mut, At: at, Where: where, New: nw, Schema: sch, Env: tagValueC(x), Job: string(job)},
			key: mut + "\x00" + at + "\x00" + sch})
	}
	type job struct {
		file string
		env  map[string]any
		j    schemaJob
	}
	jobs := make(chan job, 256)
	var wg sync.WaitGroup
	try := func(j job) {
		defer func() {
			if r := recover(); r != nil {
				mu.Lock()
				stats["panic"]++
				mu.Unlock()
			}
		}()
		rel, _ := filepath.Rel(repo, j.file)
		var envm any
		if j.j.Mut == "none" {
			envm = cloneJSON(j.env)
		} else {
			envm = setAt(j.env, append([]any{"doc"}, j.j.Path...), j.j.New, j.j.Del)
		}
		m := envm.(map[string]any)
		delete(m, "sigs")
		raw, err := json.Marshal(m)
		if err != nil {
			return
		}
		env := new(gobl.Envelope)
		if err := json.Unmarshal(raw, env); err != nil {
			mu.Lock()
			stats["parse-refused"]++
			mu.Unlock()
			return
		}
		if err := env.Calculate(); err != nil {
			mu.Lock()
			stats["calc-refused"]++
			mu.Unlock()
			return
		}
		if err := env.Validate(); err != nil {
			mu.Lock()
			stats["invalid"]++
			mu.Unlock()
			return
		}
		mu.Lock()
		stats["valid"]++
		mu.Unlock()
		j.j.File = rel
		jb, _ := json.Marshal(j.j)
		record(rel, j.j.Mut, pathClass(j.j.Path), fmt.Sprint(j.j.Path), j.j.New, jb, env)
		if j.j.Mut == "none" {
			// documents derived from the example by the library itself
			if _, ok := env.Extract().(*bill.Invoice); ok {
				for _, name := range []string{"credit", "corrective"} {
					func() {
						defer func() { recover() }()
						var e2 *gobl.Envelope
						var err error
						if name == "credit" {
							e2, err = env.Correct(bill.Credit, bill.WithReason("x"))
						} else {
							e2, err = env.Correct(bill.Corrective, bill.WithReason("x"))
						}
						if err == nil && e2 != nil && e2.Validate() == nil {
							jb, _ := json.Marshal(schemaJob{File: rel, Mut: "derived:" + name})
							record(rel, "derived:"+name, "", "", "", jb, e2)
						}
					}()
				}
				if e3, err := env.Replicate(); err == nil && e3 != nil && e3.Validate() == nil {
					jb, _ := json.Marshal(schemaJob{File: rel, Mut: "derived:replicate"})
					record(rel, "derived:replicate", "", "", "", jb, e3)
				}
			}
		}
	}
	for i := 0; i < 16; i++ {
		wg.Add(1)
		go func() {
			defer wg.Done()
			for j := range jobs {
				try(j)
			}
		}()
	}
	for _, f := range files {
		raw, err := os.ReadFile(f)
		if err != nil {
			continue
		}
		var envm map[string]any
		dec := json.NewDecoder(bytes.NewReader(raw))
		dec.UseNumber()
		if dec.Decode(&envm) != nil {
			continue
		}
		doc, ok := envm["doc"].(map[string]any)
		if !ok {
			continue
		}
		rel, _ := filepath.Rel(repo, f)
		if one != nil {
			if rel == one.File {
				jobs <- job{file: f, env: envm, j: *one}
			}
			continue
		}
		jobs <- job{file: f, env: envm, j: schemaJob{Mut: "none"}}
		var leaves []leafPos
		var members [][]any
		walkLeaves(doc, nil, &leaves, &members)
		for _, l := range leaves {
			if len(l.path) > 0 && (l.path[0] == "totals" || l.path[0] == "$schema") {
				continue
			}
			for _, v := range stringVariants(l.cur) {
				if v.v == l.cur {
					continue
				}
				jobs <- job{file: f, env: envm, j: schemaJob{Path: l.path, Mut: v.kind, New: v.v}}
			}
		}
		for _, m := range members {
			if len(m) > 0 && (m[0] == "totals" || m[0] == "$schema") {
				continue
			}
			jobs <- job{file: f, env: envm, j: schemaJob{Path: m, Mut: "remove", Del: true}}
		}
	}
	close(jobs)
	wg.Wait()
	// selection: the unmutated and derived documents, then one instance per (mutation, field, type) class, then a seeded fill
	sort.Slice(acc, func(i, j int) bool {
		if acc[i].key != acc[j].key {
			return acc[i].key < acc[j].key
		}
		return acc[i].ev.Src+acc[i].ev.Where < acc[j].ev.Src+acc[j].ev.Where
	})
	var chosen, rest []accepted
	seenKey := map[string]bool{}
	for _, a := range acc {
		if a.ev.Mut == "none" || strings.HasPrefix(a.ev.Mut, "derived:") || !seenKey[a.key] {
			seenKey[a.key] = true
			chosen = append(chosen, a)
		} else {
			rest = append(rest, a)
		}
	}
	stats["accepted-distinct"] = len(acc)
	stats["classes"] = len(seenKey)
	if one == nil && maxInst > 0 {
		if len(chosen) > maxInst {
			// keep the plain documents, sample the classes
			var plain, cls []accepted
			for _, a := range chosen {
				if a.ev.Mut == "none" || strings.HasPrefix(a.ev.Mut, "derived:") {
					plain = append(plain, a)
				} else {
					cls = append(cls, a)
				}
			}
			rng.Shuffle(len(cls), func(i, j int) { cls[i], cls[j] = cls[j], cls[i] })
			if n := maxInst - len(plain); n > 0 && n < len(cls) {
				cls = cls[:n]
			} else if n <= 0 {
				cls = nil
			}
			chosen = append(plain, cls...)
		} else {
			rng.Shuffle(len(rest), func(i, j int) { rest[i], rest[j] = rest[j], rest[i] })
			if n := maxInst - len(chosen); n < len(rest) {
				rest = rest[:n]
			}
			chosen = append(chosen, rest...)
		}
	} else {
		chosen = append(chosen, rest...)
	}
	w, err := tr.NewWriter(out)
	if err != nil {
		return err
	}
	for _, a := range chosen {
		w.Emit(a.ev)
	}
	if one == nil {
		n, err := reflectedEnums(w)
		if err != nil {
			return err
		}
		stats["enumerated-values"] = n
	}
	if err := w.Close(); err != nil {
		return err
	}
	stats["documents"] = len(files)
	stats["instances"] = len(chosen)
	sb, _ := json.Marshal(stats)
	return os.WriteFile(out+".stats.json", sb, 0o644)
}

func init() {
	register("schema-export", func(args []string) error {
		fs := flag.NewFlagSet("schema-export", flag.ExitOnError)
		repo := fs.String("repo", "/repo", "repository")
		out := fs.String("out", "", "output directory")
		fs.Parse(args)
		return schemaExport(*repo, *out)
	})
	register("schema-run", func(args []string) error {
		fs := flag.NewFlagSet("schema-run", flag.ExitOnError)
		repo := fs.String("repo", "/repo", "repository")
		out := fs.String("out", "", "trace file")
		seed := fs.Int64("seed", 1, "seed")
		max := fs.Int("max", 600, "at most this many instances (0: all)")
		docs := fs.Int("docs", 0, "at most this many source documents (0: all)")
		only := fs.String("only", "", "run exactly this job (JSON, as logged in an event)")
		fs.Parse(args)
		return schemaRun(*repo, *out, *seed, *max, *docs, *only)
	})
}
