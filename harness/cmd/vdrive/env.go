package main

// env: drivers for Envelope.tla (C10).  A history is a sequence of abstract
// operations; each is realised on a real gobl.Envelope with real ES256 keys and
// logged with its outcome and the projected state after the step.

import (
	"encoding/json"
	"errors"
	"flag"
	"fmt"
	"math/rand"
	"sort"
	"strings"

	"github.com/invopop/gobl"
	"github.com/invopop/gobl/bill"
	"github.com/invopop/gobl/cbc"
	"github.com/invopop/gobl/dsig"
	"github.com/invopop/gobl/head"
	"github.com/invopop/gobl/note"
	"github.com/invopop/gobl/uuid"
	"goblverif/internal/tr"
)

const baseInvoice = `{
 "$schema": "https://gobl.org/draft-0/bill/invoice",
 "uuid": "0190d2c4-6e2e-7c0c-9d1e-0a1b2c3d4e5f",
 "currency": "EUR", "issue_date": "2022-02-01", "series": "SAMPLE", "code": "001",
 "supplier": {"tax_id": {"country": "ES", "code": "B98602642"}, "name": "Provide One S.L.",
   "addresses": [{"num": "42", "street": "Calle Pradillo", "locality": "Madrid", "region": "Madrid", "code": "28002", "country": "ES"}]},
 "customer": {"tax_id": {"country": "ES", "code": "54387763P"}, "name": "Sample Consumer"},
 "lines": [{"quantity": "20", "item": {"name": "Development services", "price": "90.00", "unit": "h"},
   "discounts": [{"percent": "10%", "reason": "Special discount"}],
   "taxes": [{"cat": "VAT", "rate": "standard"}]}]
}`

const baseNote = `{"$schema": "https://gobl.org/draft-0/note/message", "uuid": "0190d2c4-6e2e-7c0c-9d1e-0a1b2c3d4e60", "title": "Hello", "content": "A message to sign"}`

// Op is one abstract operation with its arguments.
type Op struct {
	Op string   `json:"op"`
	A  string   `json:"a,omitempty"`
	B  string   `json:"b,omitempty"`
	K  []string `json:"k"` // key sequence for Verify
}

type sigProj struct {
	Key      string     `json:"key"`
	UUID     string     `json:"uuid"`
	HasDig   bool       `json:"hasdig"`
	SameDig  bool       `json:"samedig"` // snapshot digest equals the current header digest
	Dig      string     `json:"dig"`     // label of the snapshot digest (see envRig.labels)
	Stamps   [][]string `json:"stamps"`
	Links    [][]string `json:"links"`
	Tags     []string   `json:"tags"`
	Meta     [][]string `json:"meta"`
	Notes    string     `json:"notes"`
	Contains bool       `json:"contains"` // real head.Contains(snapshot)
	Real     bool       `json:"real"`     // the entry carries an actual signature
}

type envState struct {
	Kind   string     `json:"kind"`
	Code   bool       `json:"code"`
	Valid  bool       `json:"valid"` // the harness's own view of the feature it toggles
	Name   int        `json:"name"`  // number of benign edits visible in the document
	D      bool       `json:"D"`
	HasDig bool       `json:"hasdig"`
	Dig    string     `json:"dig"` // label of the header digest: the document features it was computed over
	UUID   string     `json:"uuid"`
	Stamps [][]string `json:"stamps"`
	Links  [][]string `json:"links"`
	Tags   []string   `json:"tags"`
	Meta   [][]string `json:"meta"`
	Notes  string     `json:"notes"`
	Sigs   []sigProj  `json:"sigs"`
}

type envEvent struct {
	Tr   int      `json:"tr"`
	N    int      `json:"n"`
	Op   string   `json:"op"`
	A    string   `json:"a"`
	B    string   `json:"b"`
	K    []string `json:"k"`
	Out  string   `json:"out"`
	St   envState `json:"st"`
	Base string   `json:"base"`
}

type envRig struct {
	keys  map[string]*dsig.PrivateKey
	uuids map[string]uuid.UUID
	// labels names every digest value by the document features (kind/name/code/valid) of the
	// document it was first seen to match; digests are a function of content, so this gives
	// each content a stable, seed-independent name that the specification can compute too.
	labels map[string]string
}

func (r *envRig) label(d *dsig.Digest) string {
	if d == nil {
		return "none"
	}
	if l, ok := r.labels[d.String()]; ok {
		return l
	}
	return "unknown"
}

func newEnvRig() *envRig {
	r := &envRig{keys: map[string]*dsig.PrivateKey{}, uuids: map[string]uuid.UUID{}, labels: map[string]string{}}
	for _, k := range []string{"k1", "k2"} {
		r.keys[k] = dsig.NewES256Key()
	}
	r.uuids["u1"] = uuid.MustParse("0190d2c4-0000-7000-8000-000000000001")
	r.uuids["u2"] = uuid.MustParse("0190d2c4-0000-7000-8000-000000000002")
	return r
}

func baseDoc(name string) (any, error) {
	switch name {
	case "note":
		m := new(note.Message)
		if err := json.Unmarshal([]byte(baseNote), m); err != nil {
			return nil, err
		}
		return m, nil
	}
	inv := new(bill.Invoice)
	if err := json.Unmarshal([]byte(baseInvoice), inv); err != nil {
		return nil, err
	}
	switch name {
	case "invnocode":
		inv.Code = ""
	case "invinvalid":
		inv.Supplier.Name = ""
	}
	return inv, nil
}

func outcome(err error) string {
	if err == nil {
		return "ok"
	}
	var ge *gobl.Error
	if errors.As(err, &ge) {
		return ge.Key().String()
	}
	if strings.Contains(err.Error(), "no signatures to verify") {
		return "no-signatures"
	}
	return "error:" + err.Error()
}

func pairsStamps(ss []*head.Stamp) [][]string {
	out := [][]string{}
	for _, s := range ss {
		ap, av := absStamp(string(s.Provider), s.Value)
		out = append(out, []string{ap, av})
	}
	return out
}
func pairsLinks(ls []*head.Link) [][]string {
	out := [][]string{}
	for _, l := range ls {
		u := strings.TrimPrefix(l.URL, "https://example.com/")
		out = append(out, []string{string(l.Key), u})
	}
	return out
}
func pairsMeta(m cbc.Meta) [][]string {
	out := [][]string{}
	for k, v := range m {
		out = append(out, []string{string(k), v})
	}
	sort.Slice(out, func(i, j int) bool { return out[i][0] < out[j][0] })
	return out
}
func sortedTags(t []string) []string {
	out := append([]string{}, t...)
	sort.Strings(out)
	// the model keeps tags as a set
	ded := []string{}
	for i, x := range out {
		if i == 0 || out[i-1] != x {
			ded = append(ded, x)
		}
	}
	return ded
}

func (r *envRig) uuidName(u uuid.UUID) string {
	for n, x := range r.uuids {
		if x == u {
			return n
		}
	}
	return "other:" + u.String()
}

// benign edits: the n-th edit replaces the text's suffix by benignSuffix[n].  The suffixes are pairwise different
// contents, chosen so that neighbours are easily confused by an encoder (control characters that differ in one
// bit, a five-digit escape, a backslash sequence and the character it names): every edit is a change of content.
var benignSuffix = []string{"", "\u001b", "\u000b", "\u0010", "\u00010", "\\n", "\n", "x", "xx", "xxx", "xxxx"}

func benignCount(s string) int {
	n := 0
	for i, sf := range benignSuffix {
		if i > 0 && strings.HasSuffix(s, sf) && len(sf) >= len(benignSuffix[n]) {
			n = i
		}
	}
	return n
}

func benignNext(s string) string {
	n := benignCount(s)
	base := strings.TrimSuffix(s, benignSuffix[n])
	if n+1 < len(benignSuffix) {
		return base + benignSuffix[n+1]
	}
	return s + "x"
}

// concrete spellings of the model's stamp providers and values: different (provider, value) pairs may have the
// same concatenation ("prov"+"ab" = "prova"+"b"); a comparison that glues the two fields confuses them
var (
	stampProv    = map[string]string{"p1": "prov", "p2": "prova"}
	stampVal     = map[string]string{"a": "ab", "b": "b"}
	stampProvInv = map[string]string{"prov": "p1", "prova": "p2"}
	stampValInv  = map[string]string{"ab": "a", "b": "b"}
)

func concStamp(p, v string) (string, string) {
	if c, ok := stampProv[p]; ok {
		p = c
	}
	if c, ok := stampVal[v]; ok {
		v = c
	}
	return p, v
}

func absStamp(p, v string) (string, string) {
	if c, ok := stampProvInv[p]; ok {
		p = c
	}
	if c, ok := stampValInv[v]; ok {
		v = c
	}
	return p, v
}

func (r *envRig) project(env *gobl.Envelope) envState {
	st := envState{Stamps: [][]string{}, Links: [][]string{}, Tags: []string{}, Meta: [][]string{}, Sigs: []sigProj{}}
	switch d := env.Extract().(type) {
	case *bill.Invoice:
		st.Kind = "inv"
		st.Code = d.Code != ""
		st.Valid = d.Supplier != nil && d.Supplier.Name != ""
		if len(d.Lines) > 0 && d.Lines[0].Item != nil {
			st.Name = benignCount(d.Lines[0].Item.Name)
		}
	case *note.Message:
		st.Kind = "note"
		st.Valid = d.Content != ""
		st.Name = benignCount(d.Title)
	default:
		st.Kind = fmt.Sprintf("%T", d)
	}
	h := env.Head
	if h == nil {
		return st
	}
	st.UUID = r.uuidName(h.UUID)
	st.HasDig = h.Digest != nil
	if dg, err := env.Digest(); err == nil {
		st.D = h.Digest != nil && h.Digest.Equals(dg) == nil
		if _, ok := r.labels[dg.String()]; !ok {
			r.labels[dg.String()] = fmt.Sprintf("%s/%d/%v/%v", st.Kind, st.Name, st.Code, st.Valid)
		}
	}
	st.Dig = r.label(h.Digest)
	st.Stamps, st.Links, st.Tags, st.Meta, st.Notes = pairsStamps(h.Stamps), pairsLinks(h.Links), sortedTags(h.Tags), pairsMeta(h.Meta), h.Notes
	for _, s := range env.Signatures {
		sp := sigProj{Stamps: [][]string{}, Links: [][]string{}, Tags: []string{}, Meta: [][]string{}}
		if s == nil || s.JSONWebSignature() == nil {
			st.Sigs = append(st.Sigs, sp)
			continue
		}
		sp.Real = true
		for name, k := range r.keys {
			if _, err := s.Verify(k.Public()); err == nil {
				sp.Key = name
			}
		}
		g := new(head.Header)
		if err := s.UnsafePayload(g); err == nil {
			sp.UUID = r.uuidName(g.UUID)
			sp.HasDig = g.Digest != nil
			sp.SameDig = g.Digest != nil && h.Digest != nil && g.Digest.Equals(h.Digest) == nil
			sp.Dig = r.label(g.Digest)
			sp.Stamps, sp.Links, sp.Tags, sp.Meta, sp.Notes = pairsStamps(g.Stamps), pairsLinks(g.Links), sortedTags(g.Tags), pairsMeta(g.Meta), g.Notes
			sp.Contains = h.Contains(g)
		}
		st.Sigs = append(st.Sigs, sp)
	}
	return st
}

// apply realises one abstract operation on the real envelope.
func (r *envRig) apply(env **gobl.Envelope, op Op) (out string) {
	defer func() {
		if p := recover(); p != nil {
			out = fmt.Sprintf("panic:%v", p)
		}
	}()
	e := *env
	switch op.Op {
	case "Insert":
		d, err := baseDoc(op.A)
		if err != nil {
			return "harness:" + err.Error()
		}
		return outcome(e.Insert(d))
	case "Calculate":
		return outcome(e.Calculate())
	case "EditBenign":
		switch d := e.Extract().(type) {
		case *bill.Invoice:
			d.Lines[0].Item.Name = benignNext(d.Lines[0].Item.Name)
		case *note.Message:
			d.Title = benignNext(d.Title)
		}
		return "ok"
	case "SetCode":
		if d, ok := e.Extract().(*bill.Invoice); ok {
			if op.A == "true" {
				d.Code = "001"
			} else {
				d.Code = ""
			}
		}
		return "ok"
	case "SetValid":
		switch d := e.Extract().(type) {
		case *bill.Invoice:
			if op.A == "true" {
				d.Supplier.Name = "Provide One S.L."
			} else {
				d.Supplier.Name = ""
			}
		case *note.Message:
			if op.A == "true" {
				d.Content = "A message to sign"
			} else {
				d.Content = "" // content is required
			}
		}
		return "ok"
	case "Sign":
		return outcome(e.Sign(r.keys[op.A]))
	case "Unsign":
		e.Unsign()
		return "ok"
	case "AddStamp":
		cp, cv := concStamp(op.A, op.B)
		e.Head.AddStamp(&head.Stamp{Provider: cbc.Key(cp), Value: cv})
		return "ok"
	case "DupStamp":
		cp, cv := concStamp(op.A, op.B)
		e.Head.Stamps = append(e.Head.Stamps, &head.Stamp{Provider: cbc.Key(cp), Value: cv})
		return "ok"
	case "ClearStamps":
		e.Head.Stamps = nil
		return "ok"
	case "AddLink":
		e.Head.AddLink(&head.Link{Key: cbc.Key(op.A), URL: "https://example.com/" + op.B})
		return "ok"
	case "DupLink":
		e.Head.Links = append(e.Head.Links, &head.Link{Key: cbc.Key(op.A), URL: "https://example.com/" + op.B})
		return "ok"
	case "AddTag":
		e.Head.Tags = append(e.Head.Tags, op.A)
		return "ok"
	case "SetMeta":
		if e.Head.Meta == nil {
			e.Head.Meta = cbc.Meta{}
		}
		e.Head.Meta[cbc.Key(op.A)] = op.B
		return "ok"
	case "SetNotes":
		e.Head.Notes = op.A
		return "ok"
	case "SetUUID":
		e.Head.UUID = r.uuids[op.A]
		return "ok"
	case "Validate":
		return outcome(e.Validate())
	case "Verify":
		ks := []*dsig.PublicKey{}
		for _, k := range op.K {
			ks = append(ks, r.keys[k].Public())
		}
		return outcome(e.Verify(ks...))
	case "Reserialise":
		data, err := json.Marshal(e)
		if err != nil {
			return outcome(err)
		}
		ne := new(gobl.Envelope)
		if err := json.Unmarshal(data, ne); err != nil {
			return outcome(err)
		}
		*env = ne
		return "ok"
	case "ParseEmptySig":
		// the serialised envelope with an empty entry appended to its signature list
		data, err := json.Marshal(e)
		if err != nil {
			return outcome(err)
		}
		var m map[string]json.RawMessage
		if err := json.Unmarshal(data, &m); err != nil {
			return "harness:" + err.Error()
		}
		var sigs []json.RawMessage
		if raw, ok := m["sigs"]; ok {
			_ = json.Unmarshal(raw, &sigs)
		}
		sigs = append(sigs, json.RawMessage(`""`))
		m["sigs"], _ = json.Marshal(sigs)
		data, _ = json.Marshal(m)
		ne := new(gobl.Envelope)
		if err := json.Unmarshal(data, ne); err != nil {
			return "rejected"
		}
		if err := ne.Validate(); err != nil {
			return "rejected"
		}
		// accepted: report what the result looks like
		return fmt.Sprintf("accepted:sigs=%d,signed=%v", len(ne.Signatures), ne.Signed())
	}
	return "harness:unknown-op"
}

func (r *envRig) fresh(base string) (*gobl.Envelope, error) {
	d, err := baseDoc(base)
	if err != nil {
		return nil, err
	}
	env := gobl.NewEnvelope()
	env.Head.UUID = r.uuids["u1"]
	if err := env.Insert(d); err != nil {
		return nil, fmt.Errorf("base %s: %w", base, err)
	}
	return env, nil
}

// runHistory executes a history and emits its trace.
func (r *envRig) runHistory(w *tr.Writer, trid int, base string, ops []Op) (*gobl.Envelope, envState, error) {
	env, err := r.fresh(base)
	if err != nil {
		return nil, envState{}, err
	}
	var st envState
	if w != nil {
		w.Emit(envEvent{Tr: trid, N: 0, Op: "Init", K: []string{}, Out: "ok", St: r.project(env), Base: base})
	}
	for i, op := range ops {
		out := r.apply(&env, op)
		st = r.project(env)
		if w != nil {
			k := op.K
			if k == nil {
				k = []string{}
			}
			w.Emit(envEvent{Tr: trid, N: i + 1, Op: op.Op, A: op.A, B: op.B, K: k, Out: out, St: st, Base: base})
		}
	}
	if len(ops) == 0 {
		st = r.project(env)
	}
	return env, st, nil
}

var envBases = []string{"inv", "invnocode", "invinvalid", "note"}

func envAlphabet(full bool) []Op {
	ops := []Op{
		{Op: "Calculate"}, {Op: "EditBenign"},
		{Op: "SetCode", A: "true"}, {Op: "SetCode", A: "false"},
		{Op: "SetValid", A: "true"}, {Op: "SetValid", A: "false"},
		{Op: "Sign", A: "k1"}, {Op: "Sign", A: "k2"}, {Op: "Unsign"},
		{Op: "AddStamp", A: "p1", B: "a"}, {Op: "AddStamp", A: "p1", B: "b"},
		{Op: "DupStamp", A: "p1", B: "b"}, {Op: "ClearStamps"},
		{Op: "AddLink", A: "l1", B: "x"}, {Op: "AddLink", A: "l1", B: "y"}, {Op: "DupLink", A: "l1", B: "y"},
		{Op: "AddTag", A: "t1"}, {Op: "SetMeta", A: "m1", B: "a"}, {Op: "SetMeta", A: "m1", B: "b"},
		{Op: "SetNotes", A: "n1"}, {Op: "SetNotes", A: "n2"}, {Op: "SetUUID", A: "u2"},
		{Op: "Validate"}, {Op: "Verify", K: []string{}}, {Op: "Verify", K: []string{"k1"}},
		{Op: "Verify", K: []string{"k2"}}, {Op: "Verify", K: []string{"k2", "k1"}},
		{Op: "Reserialise"},
	}
	if full {
		ops = append(ops, Op{Op: "AddStamp", A: "p2", B: "a"}, Op{Op: "AddStamp", A: "p2", B: "b"},
			Op{Op: "Insert", A: "inv"}, Op{Op: "Insert", A: "invnocode"}, Op{Op: "Insert", A: "invinvalid"}, Op{Op: "Insert", A: "note"},
			Op{Op: "ParseEmptySig"})
	}
	return ops
}

func observer(op Op) bool {
	return op.Op == "Validate" || op.Op == "Verify" || op.Op == "Reserialise" || op.Op == "ParseEmptySig"
}

// envExplore: breadth-first exploration of the real implementation's state
// graph under the projection: every operation of the alphabet is applied in
// every distinct projected state reachable within depth; one trace per
// transition (the shortest history reaching the state, plus the operation).
func envExplore(depth, max int, out string) error {
	r := newEnvRig()
	w, err := tr.NewWriter(out)
	if err != nil {
		return err
	}
	alpha := envAlphabet(true)
	type node struct {
		base string
		path []Op
	}
	seen := map[string]bool{}
	var frontier []node
	key := func(base string, st envState) string {
		b, _ := json.Marshal(st)
		return string(b)
	}
	trid := 0
	for _, b := range envBases {
		_, st, err := r.runHistory(nil, 0, b, nil)
		if err != nil {
			return err
		}
		seen[key(b, st)] = true
		frontier = append(frontier, node{b, nil})
	}
	transitions := 0
	for d := 0; d < depth && len(frontier) > 0; d++ {
		var next []node
		for _, n := range frontier {
			for _, op := range alpha {
				if transitions >= max {
					break
				}
				path := append(append([]Op{}, n.path...), op)
				trid++
				transitions++
				_, st, err := r.runHistory(w, trid, n.base, path)
				if err != nil {
					return err
				}
				if observer(op) {
					continue
				}
				k := key(n.base, st)
				if !seen[k] {
					seen[k] = true
					next = append(next, node{n.base, path})
				}
			}
		}
		frontier = next
	}
	fmt.Printf("events=%d traces=%d distinct_states=%d depth=%d\n", w.N, trid, len(seen), depth)
	return w.Close()
}

// envRandom: seeded long random histories.
func envRandom(seed int64, n, length int, out string) error {
	r := newEnvRig()
	rnd := rand.New(rand.NewSource(seed))
	w, err := tr.NewWriter(out)
	if err != nil {
		return err
	}
	alpha := envAlphabet(true)
	for t := 1; t <= n; t++ {
		base := envBases[rnd.Intn(len(envBases))]
		l := 3 + rnd.Intn(length)
		ops := make([]Op, l)
		for i := range ops {
			ops[i] = alpha[rnd.Intn(len(alpha))]
			// bias towards signing so that interesting states are frequent
			if rnd.Intn(6) == 0 {
				ops[i] = Op{Op: "Sign", A: []string{"k1", "k2"}[rnd.Intn(2)]}
			}
		}
		if _, _, err := r.runHistory(w, t, base, ops); err != nil {
			return err
		}
	}
	fmt.Printf("events=%d traces=%d\n", w.N, n)
	return w.Close()
}

// envReplay: histories given explicitly ({"base":..,"ops":[..]} per line).
func envReplay(in, out string) error {
	r := newEnvRig()
	w, err := tr.NewWriter(out)
	if err != nil {
		return err
	}
	t := 0
	err = tr.ReadLines(in, func(line []byte) error {
		var h struct {
			Base string `json:"base"`
			Ops  []Op   `json:"ops"`
		}
		if err := json.Unmarshal(line, &h); err != nil {
			return err
		}
		t++
		_, _, err := r.runHistory(w, t, h.Base, h.Ops)
		return err
	})
	if err != nil {
		return err
	}
	fmt.Printf("events=%d traces=%d\n", w.N, t)
	return w.Close()
}

func init() {
	register("env-explore", func(args []string) error {
		fs := flag.NewFlagSet("env-explore", flag.ExitOnError)
		depth := fs.Int("depth", 3, "depth")
		max := fs.Int("max", 20000, "max transitions")
		out := fs.String("out", "", "events ndjson")
		fs.Parse(args)
		return envExplore(*depth, *max, *out)
	})
	register("env-random", func(args []string) error {
		fs := flag.NewFlagSet("env-random", flag.ExitOnError)
		seed := fs.Int64("seed", 1, "seed")
		n := fs.Int("n", 100, "histories")
		l := fs.Int("len", 20, "max length")
		out := fs.String("out", "", "events ndjson")
		fs.Parse(args)
		return envRandom(*seed, *n, *l, *out)
	})
	register("env-replay", func(args []string) error {
		fs := flag.NewFlagSet("env-replay", flag.ExitOnError)
		in := fs.String("in", "", "histories ndjson")
		out := fs.String("out", "", "events ndjson")
		fs.Parse(args)
		return envReplay(*in, *out)
	})
}
