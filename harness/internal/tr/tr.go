// Package tr holds the trace I/O helpers shared by all drivers: ndjson
// writers/readers and the limb encoding of big integers used by BigInt.tla.
package tr

import (
	"bufio"
	"encoding/json"
	"fmt"
	"math/big"
	"os"
)

// Big is the JSON form of a BigInt.tla integer: n=1 negative, m little-endian
// base-10^4 limbs without leading zero limbs.
type Big struct {
	N int   `json:"n"`
	M []int `json:"m"`
}

var base = big.NewInt(10000)

// BigOf converts any integer to limb form.
func BigOf(x *big.Int) Big {
	b := Big{M: []int{}}
	if x.Sign() == 0 {
		return b
	}
	if x.Sign() < 0 {
		b.N = 1
	}
	v := new(big.Int).Abs(x)
	r := new(big.Int)
	for v.Sign() != 0 {
		v.QuoRem(v, base, r)
		b.M = append(b.M, int(r.Int64()))
	}
	return b
}

// BigOfInt converts an int64.
func BigOfInt(x int64) Big { return BigOf(big.NewInt(x)) }

// Int converts back.
func (b Big) Int() *big.Int {
	v := new(big.Int)
	for i := len(b.M) - 1; i >= 0; i-- {
		v.Mul(v, base)
		v.Add(v, big.NewInt(int64(b.M[i])))
	}
	if b.N == 1 {
		v.Neg(v)
	}
	return v
}

// Amt is an amount in trace form.
type Amt struct {
	V Big `json:"v"`
	E int `json:"e"`
}

// Writer writes ndjson.
type Writer struct {
	f *os.File
	w *bufio.Writer
	N int
}

// NewWriter creates the file.
func NewWriter(path string) (*Writer, error) {
	f, err := os.Create(path)
	if err != nil {
		return nil, err
	}
	return &Writer{f: f, w: bufio.NewWriterSize(f, 1<<20)}, nil
}

// Emit writes one event.
func (w *Writer) Emit(ev any) {
	b, err := json.Marshal(ev)
	if err != nil {
		panic(fmt.Sprintf("trace marshal: %v", err))
	}
	w.w.Write(b)
	w.w.WriteByte('\n')
	w.N++
}

// Close flushes.
func (w *Writer) Close() error {
	if err := w.w.Flush(); err != nil {
		return err
	}
	return w.f.Close()
}

// ReadLines streams an ndjson file.
func ReadLines(path string, fn func(line []byte) error) error {
	f, err := os.Open(path)
	if err != nil {
		return err
	}
	defer f.Close()
	sc := bufio.NewScanner(f)
	sc.Buffer(make([]byte, 1<<20), 1<<28)
	for sc.Scan() {
		if len(sc.Bytes()) == 0 {
			continue
		}
		if err := fn(sc.Bytes()); err != nil {
			return err
		}
	}
	return sc.Err()
}
