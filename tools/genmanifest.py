#!/usr/bin/env python3
"""Regenerates MANIFEST.json from tools/checks.json (one entry per claimed
property) and properties.jsonl (everything else is listed not_applicable)."""
import json, os
V = os.path.dirname(os.path.dirname(os.path.abspath(__file__)))
checks = json.load(open(os.path.join(V, "tools", "checks.json")))
props = [json.loads(l)["id"] for l in open(os.path.join(V, "properties.jsonl"))]
m = {
    "version": 1,
    "setup_cmd": "bin/setup",
    "hooks": {"guard": "verif", "enable": "go build -tags verif (harness module /verif/harness, replace github.com/invopop/gobl => /repo)",
              "baseline_off_cmd": "cd /repo && GOFLAGS=-mod=mod go test -json -vet=off -count=1 -timeout 25m ./...",
              "source_commits": checks.get("hook_commits", []), "add_only": True},
    "engines": [{"name": "tlc", "path": "/opt/veriftools/tla/tla2tools.jar", "serves_properties": sorted(checks["checks"]),
                 "kind_free_text": "TLA+ specification suite under /verif/spec checked with TLC; bound to the code by replaying TLC-exported cases/behaviours into the real code and validating recorded traces against *Trace.tla"}],
    "checks": [], "not_applicable": [],
    "notes": checks.get("notes", ""),
}
for pid in props:
    c = checks["checks"].get(pid)
    if not c:
        m["not_applicable"].append({"property_id": pid, "reason": checks["not_applicable"].get(pid, "check not built yet in this round; see DESIGN.md section 5 for the planned decision procedure")})
        continue
    m["checks"].append({
        "property_id": pid,
        "quick_cmd": "bin/check %s --tier quick" % pid,
        "thorough_cmd": "bin/check %s --tier thorough" % pid,
        "evidence_file": "/verif/evidence/%s.json" % pid,
        "replay_cmd_template": "bin/check %s --replay {path}" % pid,
        "engine": "tlc",
        "level_claimed": {"category": c.get("level", "model_checking"), "text": c["text"], "design_ref": c.get("design_ref", "DESIGN.md section 5, " + pid)},
        "level_note": c["note"],
        "technique": c["technique"],
    })
json.dump(m, open(os.path.join(V, "MANIFEST.json"), "w"), indent=1)
print("claimed:", [c["property_id"] for c in m["checks"]])
