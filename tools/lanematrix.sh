#!/bin/bash
# lanematrix.sh <lanes> <tier> [seed-name ...]
# The seed matrix, several seeds at a time.  Each lane is a private copy of /verif next to a private worktree of
# /repo's HEAD (the harness module of the copy is pointed at that worktree, VERIF_REPO tells the checks where it is),
# so seeded changes are applied to the lane's worktree and /repo itself is never touched.  The outcome
# (seeded/<id>/meta.json) is copied back and MATRIX.json/MATRIX.md are rebuilt from all meta files.
# Registered checks and committed evidence never come from a lane: lanes only answer "does the check notice this change".
set -u
N=$1; tier=$2; shift 2
V=$(cd "$(dirname "$0")/.." && pwd)
L=${LANE_ROOT:-/tmp/lanes}
if [ -n "$(git -C /repo status --short | grep -v '^??')" ]; then echo "/repo working tree not clean"; exit 2; fi
names=("$@")
if [ ${#names[@]} -eq 0 ]; then
  names=($(ls $V/seeded | grep -E '^C[0-9][0-9]-[0-9]+$' | sort))
fi
# order by property so that neighbouring seeds (same check, same cost) spread over the lanes
rm -rf $L; mkdir -p $L
for i in $(seq 1 $N); do
  git -C /repo worktree add --detach $L/repo$i HEAD >/dev/null 2>&1 || { echo "worktree failed"; exit 2; }
  mkdir -p $L/verif$i
  rsync -a --exclude .git --exclude .work --exclude replays $V/ $L/verif$i/
  sed -i "s#=> /repo#=> $L/repo$i#" $L/verif$i/harness/go.mod
  : > $L/names$i
done
k=0
for n in "${names[@]}"; do
  i=$(( k % N + 1 )); echo $n >> $L/names$i; k=$((k+1))
done
pids=()
for i in $(seq 1 $N); do
  ( cd $L/verif$i && VERIF_REPO=$L/repo$i VERIF_COMMIT=$(git -C $V rev-parse --short HEAD) python3 tools/seedmatrix.py $tier $(cat $L/names$i) > $L/lane$i.log 2>&1 ) &
  pids+=($!)
done
for p in "${pids[@]}"; do wait $p; done
for i in $(seq 1 $N); do
  for n in $(cat $L/names$i); do
    cp $L/verif$i/seeded/$n/meta.json $V/seeded/$n/meta.json
  done
  cat $L/lane$i.log
  git -C /repo worktree remove --force $L/repo$i >/dev/null 2>&1
done
git -C /repo worktree prune
# every seeded change leaves its own compiled packages in Go's build cache: drop what the lanes left behind
find "$(go env GOCACHE)" -type f -mmin +75 -delete 2>/dev/null
python3 $V/tools/seedmatrix.py --merge
rm -rf $L
echo "lanes done: ${#names[@]} seeds"
