#!/usr/bin/env python3
"""Runs every seeded change against its property's check (and a few related
checks), on the current /repo, and records the outcome in seeded/<id>/meta.json
(detected_by) and seeded/MATRIX.md.  /repo must be clean and nothing else may
use it meanwhile.  usage: seedmatrix.py [tier] [seed-name ...]"""
import json, os, re, subprocess, sys, time
V = os.path.dirname(os.path.dirname(os.path.abspath(__file__)))
EXTRA = {"C01-2": ["C05", "C17"], "C17-2": ["C05"], "C08-1": ["C07"], "C08-2": ["C07"], "C09-1": ["C10"], "C09-2": ["C10"],
         "C10-2": ["C09"], "C10-3": ["C09"], "C10-9": ["C09"], "C10-7": ["C09"], "C20-3": ["C02"], "C05-1": ["C01"], "C19-3": ["C15"], "C15-2": ["C19"]}
tier = sys.argv[1] if len(sys.argv) > 1 else "quick"
if tier == "--merge":
    # rebuild MATRIX.json / MATRIX.md from the meta.json files (after lanes have been copied back)
    tier, names = "merge", []
    for name in sorted(d for d in os.listdir(os.path.join(V, "seeded")) if re.match(r"C\d\d-\d+$", d)):
        m = json.load(open(os.path.join(V, "seeded", name, "meta.json")))
        if "checked_at" in m:
            names.append((name, m["property"], m.get("detected_by") or [], m.get("not_detected_by", []), m.get("run_notes", [])))
    rows_merge = names
    names = []
else:
    rows_merge = []
names = (sys.argv[2:] if tier != "merge" else []) or ([] if tier == "merge" else sorted(d for d in os.listdir(os.path.join(V, "seeded")) if re.match(r"C\d\d-\d+$", d)))
rows = list(rows_merge)
for name in names:
    d = os.path.join(V, "seeded", name)
    meta = json.load(open(os.path.join(d, "meta.json")))
    own = meta["property"]
    det, missed, notes = [], [], []
    for prop in [own] + EXTRA.get(name, []):
        t0 = time.time()
        p = subprocess.run([os.path.join(V, "bin", "seedrun"), name, tier, prop], capture_output=True, text=True)
        out = p.stdout + p.stderr
        cls = re.findall(r"^  class=(\S.*?) count=", out, re.M)
        if p.returncode == 1:
            det.append({"check": prop, "tier": tier, "classes": cls[:4], "wall_s": round(time.time() - t0)})
        elif p.returncode == 0:
            missed.append(prop)
        else:
            notes.append("%s: rc=%d %s" % (prop, p.returncode, out.strip().splitlines()[-1][:200] if out.strip() else ""))
        print(name, prop, "rc=%d" % p.returncode, cls[:1], flush=True)
    meta["checked_at"] = {"repo": subprocess.run(["git", "-C", os.environ.get("VERIF_REPO", "/repo"), "rev-parse", "--short", "HEAD"], capture_output=True, text=True).stdout.strip(),
                          "verif": os.environ.get("VERIF_COMMIT") or subprocess.run(["git", "-C", V, "rev-parse", "--short", "HEAD"], capture_output=True, text=True).stdout.strip(),
                          "time": time.strftime("%Y-%m-%dT%H:%M:%SZ", time.gmtime())}
    meta["detected_by"] = det or None
    meta["not_detected_by"] = missed
    if notes:
        meta["run_notes"] = notes
    meta["patch_used"] = "patch.ported.diff" if os.path.exists(os.path.join(d, "patch.ported.diff")) else "patch.diff"
    json.dump(meta, open(os.path.join(d, "meta.json"), "w"), indent=1)
    rows.append((name, own, det, missed, notes))
allrows = {}
mp = os.path.join(V, "seeded", "MATRIX.json")
if os.path.exists(mp):
    allrows = json.load(open(mp))
for name, own, det, missed, notes in rows:
    allrows[name] = {"property": own, "detected_by": det, "not_detected_by": missed, "notes": notes,
                     "neutralised": json.load(open(os.path.join(V, "seeded", name, "meta.json"))).get("neutralised", "")}
json.dump(allrows, open(mp, "w"), indent=1)
with open(os.path.join(V, "seeded", "MATRIX.md"), "w") as f:
    f.write("| seed | property | detected by (tier) | first class | not detected by |\n|---|---|---|---|---|\n")
    for name in sorted(allrows):
        r = allrows[name]
        f.write("| %s | %s | %s | %s | %s |\n" % (name, r["property"], ", ".join("%s (%s)" % (d["check"], d["tier"]) for d in r["detected_by"]) or "**none**",
                                              (r["detected_by"][0]["classes"][0][:90] if r["detected_by"] and r["detected_by"][0]["classes"] else ""),
                                              ", ".join(r["not_detected_by"]) + ("; " + "; ".join(r["notes"]) if r["notes"] else "") + (" [neutralised: " + r.get("neutralised", "")[:60] + "]" if r.get("neutralised") else "")))
