"""C19 - published definition files are what the code defines, and are coherent.

Spec: Published.tla.  Each run (1) copies /repo's working tree to a scratch
directory outside /repo and /verif, marks every published file as stale, runs
the repository's own generators (go generate .) and keeps what they rewrote;
(2) dumps the definitions held by the running library after a workload over all
examples; (3) fetches every schema and regime through the bulk actions; (4) TLC
compares published = generated = library = served as JSON values for every file
(both file sets must be equal) and evaluates the coherence predicates over
every regime and addon (currency, time zone, tags, extensions, categories,
correction types all defined; definition validates); (5) behaviour: every example
invoice and its variants (each offered tag added, each tag removed, every
invoice type) is calculated to its fix-point and ScenarioTrace.tla compares the
notes and tax extensions it carries with what the published scenarios prescribe."""
import json, os, shutil, subprocess, tempfile
from . import core


def run(ctx):
    vd, bulk = ctx.vdrive(), ctx.goblverif()
    scratch = tempfile.mkdtemp(prefix="verif-c19-")
    try:
        gen = os.path.join(scratch, "repo")
        ctx.run(["rsync", "-a", "--exclude", ".git", core.REPO + "/", gen + "/"])
        stale = []
        for sub in ("regimes", "addons", "catalogues", "schemas"):
            for root, _, files in os.walk(os.path.join(gen, "data", sub)):
                for f in files:
                    if f.endswith(".json"):
                        p = os.path.join(root, f)
                        os.utime(p, (1, 1))
                        stale.append(p)
        p = subprocess.run(["go", "generate", "."], cwd=gen, env=core.GOENV, capture_output=True, text=True, timeout=1500)
        if p.returncode != 0:
            raise core.Infra("the repository's generators fail:\n" + (p.stdout + p.stderr)[-2000:])
        kept = 0
        for sp in stale:
            if os.path.getmtime(sp) <= 1:
                os.remove(sp)       # not rewritten by any generator
            else:
                kept += 1
        out = ctx.path("pub")
        ctx.run([vd, "pub-export", "-repo", core.REPO, "-gen", gen, "-bulk", bulk, "-out", out], timeout=1500)
    finally:
        shutil.rmtree(scratch, ignore_errors=True)
    res = ctx.path("published.json")
    r = ctx.tlc("MCPublished", "MCPublished.cfg", env={"MANIFEST": os.path.join(out, "manifest.json"), "RESULT": res}, workers=8, timeout=2400, heap="12g")
    if not os.path.exists(res):
        raise core.Infra("Published.tla produced no result:\n" + r["out"][-2000:])
    data = json.load(open(res))
    data = data[0] if isinstance(data, list) else data
    man = json.load(open(os.path.join(out, "manifest.json")))
    for name, what in data["findings"]:
        ctx.disagreements.append({"cls": "pub-%s:%s" % (what, name), "what": "%s: %s" % (name, what), "family": "pub",
                                  "replay": {"file": name, "finding": what}})
    # behaviour: the scenarios the published files describe are the ones the library applies (Scenario.tla)
    defs = ctx.path("defs")
    ctx.run([vd, "refs-export", "-repo", core.REPO, "-out", defs])
    strace = ctx.path("scenarios.ndjson")
    ctx.run([vd, "scen-run", "-repo", core.REPO, "-out", strace], timeout=1500)
    scen = {"events": 0, "matched": 0}
    for sp, chunk, r2, _ in ctx.validate_trace("ScenarioTrace", strace, shards=8, env={"MANIFEST": os.path.join(defs, "manifest.json")}):
        scen["events"] += r2["events"]
        scen["matched"] += r2["matched"]
        for idx, verdict in r2["bad"]:
            ev = json.loads(chunk[idx - 1])
            ctx.disagreements.append({"cls": "scenario-%s:%s:%s" % (verdict, ev["cc"], "+".join(ev["addons"])),
                                      "what": "%s (%s): regime %s addons %s type %s tags %s -> notes %s tax.ext %s; published scenarios say: %s" % (
                                          ev["src"], ev["variant"], ev["cc"], ev["addons"], ev["type"], ev["tags"],
                                          [(n["key"], n["code"], n["src"]) for n in ev["notes"]], ev["taxext"], verdict),
                                      "family": "scenario", "replay": {"src": ev["src"], "variant": ev["variant"], "verdict": verdict}})
    if scen["events"] < 100 or scen["matched"] < 100:
        raise core.Infra("the scenario sweep is vacuous: %s" % scen)
    kinds = {}
    for f in man["files"]:
        k = f["name"].split("/")[0]
        kinds[k] = kinds.get(k, 0) + 1
    cov = {"traces_validated_against_impl": len(man["files"]),
           "samples": ["%s: published=%s generated=%s library=%s served=%s" % (f["name"], bool(f["pub"]), bool(f["gen"]), bool(f["mem"]), bool(f["served"]))
                       for f in (man["files"][0], man["files"][len(man["files"]) // 2], man["files"][-1])],
           "evaluations": len(man["files"]), "distinct_nontrivial": sum(1 for f in man["files"] if f["mem"] or f["served"]),
           "rule": "one comparison per definition file (published vs regenerated vs library-after-workload vs served); non-trivial = files that are "
                   "also compared with the running library or the served copy (regimes, addons, schemas)",
           "files_by_kind": kinds, "scenario_events": scen["events"], "scenario_matches_evaluated": scen["matched"], "regenerated_files": kept, "workload_documents": man["workload"], "exhaustive": True}
    return core.finish(ctx, "model_checking", cov, [
        "TLC and Published.tla are trusted; files are re-encoded mechanically (every value tagged) before TLC reads them",
        "the repository's own generators are run in a scratch copy of the working tree (removed afterwards)",
        "a tag used by an addon scenario counts as defined when the addon or any regime offers it",
        "scenario conformance (Scenario.tla) is judged at the fix-point of calculation; the one scenario with a code-only filter (pt-saft invoice-receipt) is not judged"])


def replay(ctx, path):
    rc = run(ctx)
    rp = json.load(open(path))
    hits = [d for d in ctx.disagreements if d["cls"] == rp["class"]]
    if hits:
        print("REPRODUCED %s" % hits[0]["what"])
        print("VIOLATION property=%s replay=%s" % (ctx.pid, path))
        return 1
    print("not reproduced")
    return 0
