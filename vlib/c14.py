"""C14 - no input crashes the library; failures are structured errors.

Spec: Outcome.tla (total-outcome automaton, documented keys, mutation plan).
TLC enumerates the plan (target kind x mutation) and checks the automaton; the
harness applies every plan item at every matching position of every example
document (quick: a seeded sample per document; thorough: all), runs each mutant
through parse -> validate -> calculate -> validate -> digest -> sign -> verify ->
correct -> replicate -> marshal under recover with a watchdog, feeds seeded
arbitrary bytes / JSON / YAML to the parsers and a ninth of the mutants to the
bulk processor (build, validate, correct, replicate).  OutcomeTrace.tla judges
every behaviour: each step returns ok or an error with a documented key."""
import json, re
from . import core

SITE = re.compile(r"\[([^ \]]*)\]")


def validate(ctx, trace, shards):
    res = ctx.validate_trace("OutcomeTrace", trace, shards=shards)
    tot = {"events": 0, "failing": 0}
    for sp, chunk, r, _ in res:
        tot["events"] += r["events"]
        tot["failing"] += r["failing"]
        for idx, verdict in r["bad"]:
            ev = json.loads(chunk[idx - 1])
            st = next((s for s in ev["steps"] if (verdict.split(":")[0] == s["out"] and verdict.endswith(s["op"]))), ev["steps"][-1])
            if st["out"] == "panic":
                m = SITE.search(st["msg"])
                cls = "crash-panic:" + (m.group(1) if m else "unknown-site")
            else:
                cls = "crash-%s:%s" % (st["out"], st["op"])
            ctx.disagreements.append({"cls": cls,
                                      "what": "%s %s at %s (%s): %s -> %s %s" % (ev["src"], ev["mut"], ev["path"], ev["k"], st["op"], st["out"], st["msg"][:200]),
                                      "family": "crash", "replay": {"src": ev["src"], "mut": ev["mut"], "path": ev["path"], "op": st["op"]}})
    return tot


def run(ctx):
    vd, bulk = ctx.vdrive(), ctx.goblverif()
    q = ctx.quick()
    plan = ctx.path("plan.ndjson")
    ctx.model_check("MCOutcome", "MCOutcome.cfg", workers=4, env={"OUT": plan})
    ctx.run([vd, "crash-run", "-repo", core.REPO, "-plan", plan, "-seed", str(ctx.seed), "-cap", "45" if q else "0",
             "-bytes", "1000" if q else "60000", "-bulk", bulk, "-out", ctx.path("trace.ndjson")], timeout=3400)
    tot = validate(ctx, ctx.path("trace.ndjson"), 16)
    lines = open(ctx.path("trace.ndjson")).read().splitlines()
    samples = []
    for i in (3, len(lines) // 2, len(lines) - 5):
        e = json.loads(lines[i])
        samples.append("%s %s at %s: %s" % (e["src"], e["mut"], e["path"], " ".join("%s=%s" % (s["op"], s["out"]) for s in e["steps"])))
    cov = {"evaluations": tot["events"], "distinct_nontrivial": tot["failing"],
           "rule": "one behaviour per input; inputs = (example document, plan item, position) mutants, seeded arbitrary bytes/JSON/YAML, bulk "
                   "requests; non-trivial = behaviours in which at least one operation refused the input (returned an error), counted by TLC",
           "samples": samples, "plan_items": sum(1 for _ in open(plan)), "traces_validated_against_impl": tot["events"],
           "exhaustive": not q}
    return core.finish(ctx, "exploration", cov, [
        "TLC contributes the outcome automaton and the mutation plan; the inputs come from the structure-aware sweep and a seeded generator (exploration, not a proof)",
        "a panic is attributed to its innermost library function and that function's caller (no line numbers)",
        "known findings: arrays of objects containing null elements make many call sites dereference nil; each site is listed separately in known_findings.json"])


def replay(ctx, path):
    ctx.tier = "thorough"
    rp = json.load(open(path))
    vd, bulk = ctx.vdrive(), ctx.goblverif()
    plan = ctx.path("plan.ndjson")
    ctx.model_check("MCOutcome", "MCOutcome.cfg", workers=4, env={"OUT": plan})
    ctx.run([vd, "crash-run", "-repo", core.REPO, "-plan", plan, "-seed", str(ctx.seed), "-cap", "0", "-bytes", "0", "-bulk", bulk,
             "-out", ctx.path("trace.ndjson")], timeout=3400)
    validate(ctx, ctx.path("trace.ndjson"), 16)
    hits = [d for d in ctx.disagreements if d["cls"] == rp["class"]]
    if hits:
        print("REPRODUCED %s" % hits[0]["what"])
        print("VIOLATION property=%s replay=%s" % (ctx.pid, path))
        return 1
    print("not reproduced")
    return 0
