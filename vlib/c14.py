"""C14 - no input crashes the library; failures are structured errors.

Spec: Outcome.tla (total-outcome automaton, documented keys, mutation plan).
TLC enumerates the plan (target kind x mutation) and checks the automaton; the
harness applies every plan item at every matching position of every example
document (quick: a seeded sample per document; thorough: all), runs each mutant
through parse -> validate -> calculate -> validate -> digest -> sign -> verify ->
correct -> replicate -> marshal under recover with a watchdog, feeds seeded
arbitrary bytes / JSON / YAML to the parsers and a ninth of the mutants to the
bulk processor (build, validate, correct, replicate).  OutcomeTrace.tla judges
every behaviour: each step returns ok or an error with a documented key."""
import json, os, re
from . import core

SITE = re.compile(r"\[([^ \]]*)\]")


def validate(ctx, trace, shards):
    res = ctx.validate_trace("OutcomeTrace", trace, shards=shards)
    tot = {"events": 0, "failing": 0}
    for sp, chunk, r, _ in res:
        tot["events"] += r["events"]
        tot["failing"] += r["failing"]
        for idx, verdict in r["bad"]:
            ev = json.loads(chunk[idx - 1])
            st = next((s for s in ev["steps"] if (verdict.split(":")[0] == s["out"] and verdict.endswith(s["op"]))), ev["steps"][-1])
            if st["out"] == "panic":
                m = SITE.search(st["msg"])
                cls = "crash-panic:" + (m.group(1) if m else "unknown-site")
            else:
                cls = "crash-%s:%s" % (st["out"], st["op"])
            ctx.disagreements.append({"cls": cls,
                                      "what": "%s %s at %s (%s): %s -> %s %s" % (ev["src"], ev["mut"], ev["path"], ev["k"], st["op"], st["out"], st["msg"][:200]),
                                      "family": "crash", "replay": {"src": ev["src"], "mut": ev["mut"], "path": ev["path"], "op": st["op"]}})
    return tot


def supervised(ctx, cmd):
    """Runs the crash driver; if the process is aborted by a fatal runtime error (stack overflow, concurrent map
    write, out of memory ...) that is a violation of the property, attributed to the input it was processing."""
    import base64, re
    cur = ctx.path("current-input")
    p = ctx.run(cmd + ["-cur", cur], timeout=3400, check=False)
    if p.returncode == 0:
        return
    m = re.search(r"^fatal error: (.*)$", p.stderr, re.M)
    if not m:
        raise core.Infra("command failed (%d): %s\n%s" % (p.returncode, " ".join(cmd[:4]), p.stderr[-2000:]))
    data = open(cur, "rb").read() if os.path.exists(cur) else b""
    frames = [f for f in re.findall(r"^(github\.com/invopop/gobl[^\s(]*)\(", p.stderr, re.M)]
    site = frames[0].replace("github.com/invopop/gobl/", "").replace("github.com/invopop/gobl.", "") if frames else "?"
    # confirm with the input alone
    one = ctx.path("abort-input")
    open(one, "wb").write(data)
    p2 = ctx.run([cmd[0], "crash-one", "-file", one], timeout=600, check=False)
    confirmed = p2.returncode != 0 and "fatal error" in p2.stderr
    ctx.disagreements.append({"cls": "crash-abort:%s:%s" % (m.group(1).strip(), site),
                              "what": "the process was aborted (fatal error: %s) in %s while processing an input of %d bytes%s: %s" % (
                                  m.group(1).strip(), site, len(data), " (confirmed with the input alone)" if confirmed else " (NOT reproduced with the input alone)",
                                  data[:200].decode("utf-8", "replace")),
                              "family": "abort", "replay": {"abort": True, "input_b64": base64.b64encode(data).decode()}})
    if not confirmed:
        raise core.Infra("the crash driver was aborted (%s) but the recorded input does not reproduce it" % m.group(1))
    ctx.notes.append("the crash driver was aborted by a fatal error; the inputs after that point were not explored in this run")


def run(ctx):
    vd, bulk = ctx.vdrive(), ctx.goblverif()
    cli = ctx.gobl()
    q = ctx.quick()
    plan = ctx.path("plan.ndjson")
    ctx.model_check("MCOutcome", "MCOutcome.cfg", workers=4, env={"OUT": plan})
    supervised(ctx, [vd, "crash-run", "-repo", core.REPO, "-plan", plan, "-seed", str(ctx.seed), "-cap", "45" if q else "0",
                     "-bytes", "1000" if q else "60000", "-bulk", bulk, "-cli", cli, "-cli-every", "40" if q else "12",
                     "-out", ctx.path("trace.ndjson")])
    tot = validate(ctx, ctx.path("trace.ndjson"), 16)
    lines = open(ctx.path("trace.ndjson")).read().splitlines()
    samples = []
    for i in (3, len(lines) // 2, len(lines) - 5):
        e = json.loads(lines[i])
        samples.append("%s %s at %s: %s" % (e["src"], e["mut"], e["path"], " ".join("%s=%s" % (s["op"], s["out"]) for s in e["steps"])))
    cov = {"evaluations": tot["events"], "distinct_nontrivial": tot["failing"],
           "rule": "one behaviour per input; inputs = (example document, plan item, position) mutants, seeded arbitrary bytes/JSON/YAML, bulk "
                   "requests; non-trivial = behaviours in which at least one operation refused the input (returned an error), counted by TLC",
           "samples": samples, "plan_items": sum(1 for _ in open(plan)), "traces_validated_against_impl": tot["events"],
           "exhaustive": not q}
    return core.finish(ctx, "exploration", cov, [
        "TLC contributes the outcome automaton and the mutation plan; the inputs come from the structure-aware sweep and a seeded generator (exploration, not a proof)",
        "a panic is attributed to its innermost library function and that function's caller (no line numbers)",
        "known findings: arrays of objects containing null elements make many call sites dereference nil; each site is listed separately in known_findings.json"])


def replay(ctx, path):
    ctx.tier = "thorough"
    rp = json.load(open(path))
    vd, bulk = ctx.vdrive(), ctx.goblverif()
    if rp["cases"] and rp["cases"][0] and rp["cases"][0].get("abort"):
        import base64
        one = ctx.path("abort-input")
        open(one, "wb").write(base64.b64decode(rp["cases"][0]["input_b64"]))
        p = ctx.run([vd, "crash-one", "-file", one], timeout=600, check=False)
        if p.returncode != 0 and "fatal error" in p.stderr:
            print("REPRODUCED the process is aborted: %s" % [l for l in p.stderr.splitlines() if l.startswith("fatal error")][:1])
            print("VIOLATION property=%s replay=%s" % (ctx.pid, path))
            return 1
        print("not reproduced")
        return 0
    plan = ctx.path("plan.ndjson")
    ctx.model_check("MCOutcome", "MCOutcome.cfg", workers=4, env={"OUT": plan})
    ctx.run([vd, "crash-run", "-repo", core.REPO, "-plan", plan, "-seed", str(ctx.seed), "-cap", "0", "-bytes", "0", "-bulk", bulk,
             "-out", ctx.path("trace.ndjson")], timeout=3400)
    validate(ctx, ctx.path("trace.ndjson"), 16)
    hits = [d for d in ctx.disagreements if d["cls"] == rp["class"]]
    if hits:
        print("REPRODUCED %s" % hits[0]["what"])
        print("VIOLATION property=%s replay=%s" % (ctx.pid, path))
        return 1
    print("not reproduced")
    return 0
