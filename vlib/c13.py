"""C13 - tax identity codes are accepted exactly when the national check allows.

Spec: TaxID.tla - 14 national rules (AT BE BR CH CO DE ES FR GB EL IT NL PL PT)
written from the published algorithms, and the normal form.  TLC generates
valid codes (structured bodies, check characters found by searching the rule's
candidates), all single-character substitutions, the swap of the last two
characters and formatted variants, checks the single-digit-error law and the
normal-form laws on the specification, and exports the cases; each goes through
the real path (tax identity normalised and validated by its regime, directly
and through a party).  Seeded random strings of each national alphabet are
added (last digit brute-forced by the code itself to find accepted ones).
TaxIDTrace.tla recomputes normal form and verdict for every event."""
import json
from . import core


def s(cps):
    return "".join(chr(c) for c in cps)


def validate(ctx, trace, shards):
    res = ctx.validate_trace("TaxIDTrace", trace, shards=shards)
    tot = {"events": 0, "accepted": 0}
    for sp, chunk, r, _ in res:
        tot["events"] += r["events"]
        tot["accepted"] += r["accepted"]
        for idx, verdict in r["bad"]:
            ev = json.loads(chunk[idx - 1])
            ctx.disagreements.append({"cls": "taxid-%s:%s" % (verdict, ev["cc"]),
                                      "what": "%s %r (%s) -> normal form %r, accepted=%s %s: %s" % (ev["cc"], s(ev["raw"]), ev["kind"], s(ev["norm"]), ev["ok"], ev["err"][:80], verdict),
                                      "family": "taxid", "replay": {"cc": ev["cc"], "raw": ev["raw"], "norm": ev["norm"], "valid": ev["ok"], "kind": ev["kind"]}})
    return tot


def run(ctx):
    vd = ctx.vdrive()
    q = ctx.quick()
    cases = ctx.path("ids.ndjson")
    ctx.model_check("MCTaxID", "MCTaxID_quick.cfg" if q else "MCTaxID_thorough.cfg", workers=16, env={"OUT": cases}, timeout=3000)
    ctx.run([vd, "taxid-run", "-in", cases, "-seed", str(ctx.seed), "-n", "8000" if q else "400000", "-out", ctx.path("trace.ndjson")], timeout=3000)
    tot = validate(ctx, ctx.path("trace.ndjson"), 16)
    lines = open(ctx.path("trace.ndjson")).read().splitlines()
    samples = []
    for i in (3, len(lines) // 2, len(lines) - 2):
        e = json.loads(lines[i])
        samples.append("%s %r (%s) -> %r accepted=%s" % (e["cc"], s(e["raw"]), e["kind"], s(e["norm"]), e["ok"]))
    cov = {"traces_validated_against_impl": tot["events"], "samples": samples, "evaluations": tot["events"],
           "distinct_nontrivial": tot["accepted"],
           "rule": "one event per (regime, code); codes = TLC-generated valid codes, every single-character substitution, last-two swap, "
                   "6-8 formatted variants, plus seeded random strings; non-trivial = codes the implementation accepted (each must satisfy the "
                   "published rule), counted by TLC",
           "model_cases": sum(1 for _ in open(cases)), "regimes": 14, "exhaustive": False}
    return core.finish(ctx, "model_checking", cov, [
        "TLC and TaxID.tla are trusted - i.e. my transcription of 14 national algorithms; where public sources disagree on the FORMAT "
        "(BE leading digit, GB number ranges, PT prefixes, PL office prefix, CO lengths, ES spelling of the control character, all-zero codes) "
        "the specification adopts the format the regime documents and adjudicates only the check-digit arithmetic and the normal form",
        "IN (GSTIN), AE and MX are not covered; GB government/health and 12-digit forms are not covered"])


def replay(ctx, path):
    vd = ctx.vdrive()
    rp = json.load(open(path))
    open(ctx.path("ids.ndjson"), "w").write("\n".join(json.dumps(c) for c in rp["cases"] if c) + "\n")
    ctx.run([vd, "taxid-run", "-in", ctx.path("ids.ndjson"), "-seed", "1", "-n", "0", "-out", ctx.path("trace.ndjson")])
    validate(ctx, ctx.path("trace.ndjson"), 1)
    for d in ctx.disagreements[:5]:
        print("REPRODUCED %s" % d["what"])
    if ctx.disagreements:
        print("VIOLATION property=%s replay=%s" % (ctx.pid, path))
        return 1
    print("not reproduced")
    return 0
