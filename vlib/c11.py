"""C11 - published JSON Schemas are valid and every valid document conforms.

Spec: JsonSchema.tla - an evaluator for the part of JSON Schema draft 2020-12
the published files use ($ref local and by $id, type, properties, required,
items, patternProperties, additionalProperties, oneOf/anyOf/allOf/not, const,
enum, pattern, min/maxLength, format uuid/date/uri), a matcher for regular
expression syntax trees, and well-formedness of a schema file.  MCJsonSchema
checks the evaluator and the matcher against hand-written cases with known
answers, and reports the problems of every published file (not draft 2020-12,
unknown keyword, unresolvable $ref, malformed keyword).  Instances are produced
by the real code: every example envelope, the corrections and replicas the
library derives from them, and field-level mutations (16+ variants of every
string leaf - other textual forms of uuids, amounts with up to 25 decimals,
codes with leading/trailing/doubled separators, over-long values - and the
removal of every member); those that calculate and validate are serialised and
SchemaTrace.tla evaluates each against the published envelope schema and the
published schema of its document type."""
import json, os, re
from . import core

CODE_OK = re.compile(r"[A-Za-z0-9.\-/ _:]")


def signature(value):
    """what is unusual about a rejected string, so that a recorded finding is tied to its input shape"""
    if value is None:
        return "-"
    odd = sorted({c if c.isprintable() and not c.isspace() or c == " " else "U+%04X" % ord(c) for c in value if not CODE_OK.match(c)})
    flags = []
    if value == "":
        flags.append("empty")
    if len(value) > 32:
        flags.append("long")
    if value[:1] in tuple(".-/ _:"):
        flags.append("lead-sep")
    if value[-1:] in tuple(".-/ _:"):
        flags.append("trail-sep")
    if re.search(r"[.\-/ _:]{2}", value):
        flags.append("double-sep")
    return ",".join(odd + flags) or "plain"


def cls_of(verdict):
    m = re.match(r"(.*?) value=(.*)$", verdict, re.S)
    path, value = (m.group(1), m.group(2)) if m else (verdict, None)
    # drop the $ref hops, keep property names and the failing keyword
    parts = [p for p in path.split(" > ") if not p.startswith("https://") and not p.startswith("#/")]
    head = path.split(":")[0]
    return "schema-%s|sig=%s" % (" > ".join(parts), signature(value)) if value is not None else "schema-%s" % " > ".join(parts), head


def validate(ctx, trace, man, shards):
    res = ctx.validate_trace("SchemaTrace", trace, shards=shards, env={"MANIFEST": man}, timeout=3000)
    tot = {"events": 0, "types": set()}
    for sp, chunk, r, _ in res:
        tot["events"] += r["events"]
        tot["types"] |= set(r["types"])
        for idx, verdict in r["bad"]:
            ev = json.loads(chunk[idx - 1])
            if ev["k"] == "enum":
                where = "%s#/%s" % (ev["id"].split("/draft-0/")[-1], "/".join(ev["segs"]))
                ctx.disagreements.append({"cls": "schema-enum:%s:%s" % (verdict, where),
                                          "what": "the library enumerates %r at %s but the published schema does not accept it there (%s)" % (ev["text"], where, verdict),
                                          "family": "schema", "replay": {"enum": True, "id": ev["id"], "segs": ev["segs"], "text": ev["text"]}})
                continue
            cls, _ = cls_of(verdict)
            ctx.disagreements.append({"cls": cls,
                                      "what": "the library calculated and validated %s (%s at %s -> %r) but the published schema rejects it: %s" % (
                                          ev["src"], ev["mut"], ev["where"], ev["new"][:60], verdict[:300]),
                                      "family": "schema", "replay": {"job": ev["job"], "verdict": verdict}})
    return tot


def export(ctx, vd):
    out = ctx.path("schemas")
    ctx.run([vd, "schema-export", "-repo", core.REPO, "-out", out])
    return os.path.join(out, "manifest.json")


def model(ctx, man):
    res = ctx.path("schemas.json")
    r = ctx.tlc("MCJsonSchema", "MCJsonSchema.cfg", env={"MANIFEST": man, "RESULT": res}, workers=4, timeout=1500)
    if r["violation"]:
        raise core.Infra("JsonSchema.tla fails its own laws:\n" + r["out"][-3000:])
    if not os.path.exists(res):
        raise core.Infra("MCJsonSchema produced no result:\n" + r["out"][-2000:])
    data = json.load(open(res))
    data = data[0] if isinstance(data, list) else data
    if data["unknown_formats"]:
        raise core.Infra("the schemas use formats the specification does not model: %s" % data["unknown_formats"])
    for name, what in data["findings"]:
        ctx.disagreements.append({"cls": "schema-file:%s:%s" % (name, what), "what": "%s is not a valid draft 2020-12 schema: %s" % (name, what),
                                  "family": "schema-file", "replay": {"file": name, "finding": what}})
    return data


def run(ctx):
    vd = ctx.vdrive()
    q = ctx.quick()
    man = export(ctx, vd)
    data = model(ctx, man)
    trace = ctx.path("trace.ndjson")
    ctx.run([vd, "schema-run", "-repo", core.REPO, "-out", trace, "-seed", str(ctx.seed), "-max", "1200" if q else "0"], timeout=3000)
    st = json.load(open(trace + ".stats.json"))
    tot = validate(ctx, trace, man, 16)
    if len(tot["types"]) < 5:
        raise core.Infra("only %d document types were accepted: the instance generator is not working" % len(tot["types"]))
    lines = [l for l in open(trace).read().splitlines() if '"k":"instance"' in l]
    samples = []
    for i in (0, len(lines) // 2, len(lines) - 1):
        e = json.loads(lines[i])
        samples.append("%s %s at %s -> %r (%s)" % (e["src"], e["mut"], e["where"], e["new"][:40], e["schema"].split("/draft-0/")[-1]))
    cov = {"traces_validated_against_impl": tot["events"], "samples": samples, "evaluations": st.get("valid", 0) + st.get("invalid", 0) + st.get("calc-refused", 0) + st.get("parse-refused", 0),
           "distinct_nontrivial": tot["events"],
           "rule": "evaluations = mutated documents run through the real code; accepted documents with distinct serialisations are the candidates; all unmutated "
                   "and library-derived documents, one per (mutation kind, field, document type) class, then a seeded fill up to the tier's bound are evaluated "
                   "by TLC against the published schemas (whole envelope + whole document each)",
           "schema_files": data["files"], "enumerated_values_checked": st.get("enumerated-values"), "patterns": data["patterns"], "outcomes": st, "document_types": sorted(tot["types"]),
           "classes_available": st.get("classes"), "exhaustive": False}
    return core.finish(ctx, "model_checking", cov, [
        "TLC and JsonSchema.tla are trusted: the evaluator covers the keywords the published files use (an unknown keyword is reported as a problem of "
        "the file); annotations (title, description, calculated, recommended, contentEncoding, examples) are ignored as the standard says",
        "regular expressions are parsed mechanically (Go regexp/syntax) into syntax trees; matching is done by the specification; the dialect "
        "differences between RE2 and ECMA-262 do not arise for the published expressions",
        "format is treated as an assertion for uuid, date and uri (the property asks for it), uri as 'has an RFC 3986 scheme and no white space'",
        "numbers are compared by their text; no published schema constrains a number's magnitude"])


def replay(ctx, path):
    vd = ctx.vdrive()
    rp = json.load(open(path))
    man = export(ctx, vd)
    if rp.get("family") == "schema-file":
        model(ctx, man)
    elif rp["cases"] and rp["cases"][0] and rp["cases"][0].get("enum"):
        trace = ctx.path("replay.ndjson")
        ctx.run([vd, "schema-run", "-repo", core.REPO, "-out", trace, "-max", "1", "-docs", "1"])
        validate(ctx, trace, man, 1)
    else:
        trace = ctx.path("replay.ndjson")
        open(trace, "w").close()
        for n, c in enumerate([c for c in rp["cases"] if c][:20]):
            one = ctx.path("one-%d.ndjson" % n)
            ctx.run([vd, "schema-run", "-repo", core.REPO, "-out", one, "-max", "0", "-only", c["job"]])
            with open(trace, "a") as f:
                f.write(open(one).read())
        if os.path.getsize(trace):
            validate(ctx, trace, man, 1)
    hits = [d for d in ctx.disagreements if d["cls"] == rp["class"]]
    for d in hits[:5]:
        print("REPRODUCED %s" % d["what"])
    if hits:
        print("VIOLATION property=%s replay=%s" % (ctx.pid, path))
        return 1
    print("not reproduced")
    return 0
