"""Shared implementation of C01, C03 and C17 (Calc.tla, MCCalc.tla, CalcTrace.tla)."""
import json
from . import core
from .taxfam import amt


def fmt_doc(d):
    def adj(x):
        s = ("%s%%" % amt({"v": x["pct"][0]["v"], "e": x["pct"][0]["e"] - 2}) if x.get("pct") and x["pct"][0]["e"] >= 2 else
             ("pct " + amt(x["pct"][0])) if x.get("pct") else amt(x["amount"]))
        if x.get("base"):
            s += " of " + amt(x["base"][0])
        if x.get("rate"):
            s = "rate %s x %s" % (amt(x["rate"][0]), amt(x["q"][0]) if x.get("q") else "qty")
        return s
    ls = []
    for l in d["lines"]:
        t = ",".join("%s %s" % (c["cat"], amt(c["pct"][0]) if c["pct"] else "exempt") for c in l["taxes"])
        ls.append("%s x %s%s%s%s [%s]" % (amt(l["qty"]), amt(l["price"]), " fx " + amt(l["fx"][0]) if l["fx"] else "",
                                          " disc(" + "; ".join(adj(x) for x in l["discounts"]) + ")" if l["discounts"] else "",
                                          " chg(" + "; ".join(adj(x) for x in l["charges"]) + ")" if l["charges"] else "", t))
    extra = ""
    if d["discounts"]:
        extra += " discounts(" + "; ".join(adj(x) for x in d["discounts"]) + ")"
    if d["charges"]:
        extra += " charges(" + "; ".join(adj(x) for x in d["charges"]) + ")"
    if d["advances"]:
        extra += " advances(" + "; ".join(adj(x) for x in d["advances"]) + ")"
    if d["rounding"]:
        extra += " rounding " + amt(d["rounding"][0])
    return "cd=%d rule=%s inc=%r lines: %s%s" % (d["cd"], d["rr"], d["inc"], " | ".join(ls), extra)


def fmt_res(r):
    return "sum %s total %s tax %s total_with_tax %s payable %s%s" % (
        amt(r["sum"]), amt(r["total"]), amt(r["tax"]), amt(r["twt"]), amt(r["payable"]),
        " due " + amt(r["due"][0]) if r["due"] else "")


def belongs(pid, ev, verdict):
    if pid == "C17":
        return ev["k"] in ("invert", "invert2", "permute", "removeinc", "convert-invert")
    if pid == "C01" and ev["k"] == "convert":
        return True
    if ev["k"] == "stale":
        return pid in ("C01", "C03")
    if pid == "C03" and ev["k"] == "removeinc":
        return verdict == "removeinc-due"
    if ev["k"] != "calc":
        return False
    if pid == "C03":
        return verdict.startswith("c03-") or ev["d"]["rr"] == "currency"
    return not verdict.startswith("c03-")    # C01


def validate(ctx, trace, shards, pid):
    res = ctx.validate_trace("CalcTrace", trace, shards=shards, timeout=3000)
    tot = {"events": 0, "nontrivial": 0}
    for sp, chunk, r, _ in res:
        tot["events"] += r["events"]
        tot["nontrivial"] += r["nontrivial"]
        for idx, verdict in r["bad"]:
            ev = json.loads(chunk[idx - 1])
            if not belongs(pid, ev, verdict):
                continue
            err = ev["err"] + ev["err2"]
            if err.startswith("panic"):
                verdict = "panic"
            what = "%s [%s %s %s]: %s => %s" % (verdict, ev["k"], ev["kind"], ev["reg"], fmt_doc(ev["d"])[:700], fmt_res(ev["r"]))
            if ev["k"] != "calc":
                what += " ; after %s: %s %s" % (ev["k"], fmt_res(ev["r2"]) if ev["ok2"] else "REFUSED", ev["err2"][:120])
            ctx.disagreements.append({"cls": "calc:" + verdict, "what": what, "family": "calc", "replay": ev["d"]})
    return tot


def run(ctx, pid, note):
    vd = ctx.vdrive()
    q = ctx.quick()
    docs = ctx.path("docs.ndjson")
    ctx.model_check("MCCalc", "MCCalc_quick.cfg" if q else "MCCalc_thorough.cfg", workers=16, env={"OUT": docs}, timeout=3400)
    ctx.run([vd, "calc-replay", "-in", docs, "-out", ctx.path("ev-model.ndjson"), "-seed", str(ctx.seed)], timeout=3000)
    n = 1500 if q else 15000
    ctx.run([vd, "calc-record", "-seed", str(ctx.seed), "-n", str(n), "-out", ctx.path("ev-rand.ndjson")], timeout=3000)
    want = {"C01": ("calc", "convert", "stale"), "C03": ("calc", "removeinc", "stale"), "C17": ("invert", "invert2", "permute", "removeinc", "convert-invert")}[pid]
    lines = []
    for f in ("ev-rand.ndjson", "ev-model.ndjson"):
        for l in open(ctx.path(f)):
            k = l[6:l.index('"', 6)]
            if k in want and (pid != "C03" or '"rr":"currency"' in l[:200]):
                lines.append(l)
    open(ctx.path("trace.ndjson"), "w").writelines(lines)
    tot = validate(ctx, ctx.path("trace.ndjson"), 16, pid)
    evs = [json.loads(lines[i]) for i in (0, len(lines) // 2, len(lines) - 1)]
    samples = ["%s %s: %s => %s" % (e["k"], e["kind"], fmt_doc(e["d"])[:500], fmt_res(e["r"])) for e in evs]
    cov = {"traces_validated_against_impl": tot["events"], "samples": samples, "evaluations": tot["events"],
           "distinct_nontrivial": tot["nontrivial"],
           "rule": "one event per (document, operation); documents: every document of the MCCalc scope (exported by TLC: 1-2 lines "
                   "x tie-directed quantities/prices x discounts/charges x tax sets x document adjustments/advances/dues/rounding x "
                   "currency precision x rule x included tax) plus %d seeded random documents (1-50 lines, 0-6 decimals, both signs, "
                   "foreign-currency items, regime-default rules ES/EL); non-trivial = successfully calculated documents with more "
                   "than one line or document-level adjustments or an included tax" % n,
           "model_documents": sum(1 for _ in open(docs)), "exhaustive": False}
    return core.finish(ctx, "model_checking", cov, [
        "TLC, BigInt/Decimal/TaxTotals/Calc.tla are trusted; explicit percentages are used so that rate tables (C12) do not interfere",
        "documents stay inside the 2^52 domain of C05 (checked per event by TLC; others are counted, not judged)",
        "sub-line breakdowns and alternative prices are not modelled (see DESIGN.md)", note])


def replay(ctx, path, pid):
    vd = ctx.vdrive()
    rp = json.load(open(path))
    open(ctx.path("docs.ndjson"), "w").write("\n".join(json.dumps(c) for c in rp["cases"] if c) + "\n")
    ctx.run([vd, "calc-replay", "-in", ctx.path("docs.ndjson"), "-out", ctx.path("trace.ndjson"), "-seed", str(ctx.seed)])
    validate(ctx, ctx.path("trace.ndjson"), 2, pid)
    hits = [d for d in ctx.disagreements if d["cls"] == rp["class"]] or ctx.disagreements
    for d in hits[:5]:
        print("REPRODUCED %s" % d["what"])
    if hits:
        print("VIOLATION property=%s replay=%s" % (ctx.pid, path))
        return 1
    print("not reproduced")
    return 0
