"""C18 - validated documents only reference defined codes, keys and rates.

Spec: Refs.tla - resolution of a reference (regime, addon, tax category, rate
key, extension key and value incl. declared patterns, tag, currency, country)
in the PUBLISHED definition files (data/regimes, data/addons, data/catalogues,
data/currency, data/schemas/l10n), which TLC reads as tagged JSON; nothing
comes from the library's own tables.  MCRefs checks on the specification that
every defined value resolves and every near miss does not, and exports the
replacement candidates (every defined value of every kind, near misses of each,
pattern samples).  The harness substitutes them at every reference position of
every example document (plus positions that do not exist yet: a combo's rate,
country and extension, a document's tags and addons), runs the real code on two
paths (calculate then validate; validate only with a matching digest) and logs
the references made by every document the library accepts.  RefsTrace.tla
decides for each whether it resolves."""
import json, os, re
from . import core


def cls_of(ev):
    job = json.loads(ev["job"]) if ev.get("job") else {}
    path = " ".join("N" if isinstance(p, int) else str(p) for p in job.get("path", []))
    if ev["kind"] == "tag":
        return "unresolved:tag:%s" % ev["schema"]
    if job.get("kind") in ("extkey", "extval"):
        path = " ".join(path.split()[:-1])
    return "unresolved:%s:%s:%s" % (ev["kind"], ev["schema"], path or "-")


def validate(ctx, trace, defs):
    res = ctx.validate_trace("RefsTrace", trace, shards=4, env={"MANIFEST": defs})
    tot = {"events": 0, "kinds": set()}
    for sp, chunk, r, _ in res:
        tot["events"] += r["events"]
        tot["kinds"] |= set(r["kinds"])
        for idx, verdict in r["bad"]:
            ev = json.loads(chunk[idx - 1])
            ctx.disagreements.append({"cls": cls_of(ev),
                                      "what": "accepted (%s path) although %s %r%s does not resolve in the published definitions: %s" % (
                                          ev["path"], ev["kind"], ev["v"] if ev["kind"] != "ext" else "%s=%s" % (ev["key"], ev["v"]),
                                          (" (regime %s%s)" % (ev["cc"], ", category " + ev["cat"] if ev["cat"] else "")) if ev["cc"] else "", ev["w"]),
                                      "family": "refs", "replay": {"job": ev["job"], "kind": ev["kind"], "v": ev["v"], "key": ev["key"]}})
    return tot


def export(ctx, vd):
    out = ctx.path("defs")
    ctx.run([vd, "refs-export", "-repo", core.REPO, "-out", out])
    return os.path.join(out, "manifest.json")


def run(ctx):
    vd = ctx.vdrive()
    q = ctx.quick()
    defs = export(ctx, vd)
    cands = ctx.path("cands.ndjson")
    ctx.model_check("MCRefs", "MCRefs.cfg", workers=4, env={"MANIFEST": defs, "OUT": cands}, timeout=1500)
    ncand = sum(1 for _ in open(cands))
    stats_tot, events, kinds = {}, 0, set()
    seeds = [ctx.seed] if q else [ctx.seed * 100 + k for k in range(6)]
    for sd in seeds:
        trace = ctx.path("trace-%d.ndjson" % sd)
        ctx.run([vd, "refs-run", "-repo", core.REPO, "-cands", cands, "-out", trace, "-seed", str(sd), "-per", "8" if q else "40"], timeout=3000)
        st = json.load(open(trace + ".stats.json"))
        for k, v in st.items():
            stats_tot[k] = stats_tot.get(k, 0) + v
        if st.get("panic"):
            ctx.notes.append("%d substitutions made the library panic (C14's subject)" % st["panic"])
        tot = validate(ctx, trace, defs)
        events += tot["events"]
        kinds |= tot["kinds"]
    need = {"regime", "addon", "cat", "rate", "ext", "tag", "currency", "country"}
    if not need <= kinds:
        raise core.Infra("no accepted document made a reference of kind %s: the sweep is vacuous there" % sorted(need - kinds))
    lines = open(ctx.path("trace-%d.ndjson" % seeds[0])).read().splitlines()
    samples = []
    for i in (0, len(lines) // 2, len(lines) - 1):
        e = json.loads(lines[i])
        samples.append("%s %s (%s path): %s" % (e["kind"], e["key"] + "=" + e["v"] if e["kind"] == "ext" else e["v"], e["path"], e["w"][:120]))
    tried = stats_tot.get("calc-valid", 0) + stats_tot.get("calc-invalid", 0) + stats_tot.get("calc-refused", 0)
    cov = {"traces_validated_against_impl": events, "samples": samples, "evaluations": tried + stats_tot.get("validate-only-valid", 0) + stats_tot.get("validate-only-invalid", 0),
           "distinct_nontrivial": events,
           "rule": "evaluations = substituted documents run through the real code (two paths each); one event per DISTINCT reference made by an accepted "
                   "document (same kind, value and context logged once, with one witness); every event is judged by TLC against the published files",
           "candidates_from_model": ncand, "documents": stats_tot.get("documents"), "positions": stats_tot.get("positions"),
           "outcomes": stats_tot, "reference_kinds_seen": sorted(kinds), "exhaustive": False}
    return core.finish(ctx, "model_checking", cov, [
        "TLC and Refs.tla are trusted; definition files are re-encoded mechanically (every value tagged) before TLC reads them; the references of an "
        "accepted document are collected by member name (currency, country, $regime, $addons, $tags, ext, and cat/rate of objects under taxes)",
        "the calculated totals (totals, a payment's tax) are not substitution positions: calculation rewrites them and validation does not re-derive "
        "them (C07/C08); complements are foreign structures and are skipped",
        "a rate key belongs to a category when one of its '+' components is a rate of that category (the composite-key convention of the regimes); a "
        "combo whose country has no published regime has no category table to belong to, so only its rate key (which must be absent) is judged",
        "extension patterns are the five declared in the definitions, transcribed into the specification's pattern table (an unknown pattern fails the model)"])


def replay(ctx, path):
    vd = ctx.vdrive()
    rp = json.load(open(path))
    defs = export(ctx, vd)
    trace = ctx.path("replay.ndjson")
    open(trace, "w").close()
    for n, c in enumerate([c for c in rp["cases"] if c][:20]):
        one = ctx.path("one-%d.ndjson" % n)
        ctx.run([vd, "refs-run", "-repo", core.REPO, "-out", one, "-only", c["job"]])
        with open(trace, "a") as f:
            for l in open(one):
                e = json.loads(l)
                if e["kind"] == c["kind"] and e["v"] == c["v"] and e["key"] == c["key"]:
                    f.write(l)
    if os.path.getsize(trace):
        validate(ctx, trace, defs)
    hits = [d for d in ctx.disagreements if d["cls"] == rp["class"]] or ctx.disagreements
    for d in hits[:5]:
        print("REPRODUCED %s" % d["what"])
    if hits:
        print("VIOLATION property=%s replay=%s" % (ctx.pid, path))
        return 1
    print("not reproduced")
    return 0
