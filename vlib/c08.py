"""C08 - the header digest makes every change to the document evident.

Spec: Envelope.tla (ValidateOut over the facts D/V/S) instantiated by
DigestTrace.tla.  The harness takes every calculated, valid envelope under
examples/ plus generated ones, produces 4 content-preserving re-encodings and
every single edit of the serialised document (alter each leaf in 2-4 ways,
remove each member, add members incl. empty-string values, swap / remove array
elements, swap easily confused control characters), parses with the real code,
validates, recalculates, and reports whether the logical content changed using
its own independent canonical form.  TLC judges each event against the
envelope specification's Validate outcome and the digest law."""
import json
from . import core


def validate(ctx, trace, shards):
    res = ctx.validate_trace("DigestTrace", trace, shards=shards)
    tot = {"events": 0, "edits": 0, "panics": 0}
    for sp, chunk, r, _ in res:
        tot["events"] += r["events"]
        tot["edits"] += r["edits"]
        for idx, verdict in r["bad"]:
            ev = json.loads(chunk[idx - 1])
            if verdict == "panic":
                tot["panics"] += 1      # crashes are C14's subject; counted, not judged here
                continue
            leaf = ev["path"].rsplit("/", 1)[-1]
            ctx.disagreements.append({"cls": "digest-%s:%s" % (verdict, ev["kind"]),
                                      "what": "%s: %s %s at %s -> parse=%s changed=%s validate=%s recalc=%s changed2=%s digdiff=%s %s" % (
                                          ev["doc"], ev["k"], ev["kind"], ev["path"], ev["parse"], ev["changed"], ev["validate"],
                                          ev["recalc"], ev["changed2"], ev["digdiff"], ev["err"][:100]),
                                      "family": "edit", "replay": {"doc": ev["doc"], "kind": ev["kind"], "path": ev["path"], "leaf": leaf}})
    return tot


def run(ctx):
    vd = ctx.vdrive()
    q = ctx.quick()
    # the envelope specification itself (facts D/V/S/H) is model-checked as in C10
    ctx.model_check("MCEnvelope", "MCEnvelope_quick.cfg", workers=1, timeout=1200)
    ctx.run([vd, "edit-run", "-repo", core.REPO, "-seed", str(ctx.seed), "-gen", "6" if q else "150", "-docs", "24" if q else "0",
             "-cap", "0", "-out", ctx.path("trace.ndjson")], timeout=3300)
    tot = validate(ctx, ctx.path("trace.ndjson"), 16)
    lines = open(ctx.path("trace.ndjson")).read().splitlines()
    samples = []
    for i in (5, len(lines) // 2, len(lines) - 3):
        e = json.loads(lines[i])
        samples.append("%s: %s %s at %s -> changed=%s validate=%s digdiff=%s" % (e["doc"], e["k"], e["kind"], e["path"], e["changed"], e["validate"], e["digdiff"]))
    cov = {"traces_validated_against_impl": tot["events"], "samples": samples, "evaluations": tot["events"],
           "distinct_nontrivial": tot["edits"],
           "rule": "one event per (base envelope, edit position, edit kind) or re-encoding; non-trivial = edits that parsed and changed the "
                   "logical content (so that only the digest can reveal them), counted by TLC",
           "base_documents": len({json.loads(l)["doc"] for l in lines}), "panics_seen_not_judged_here": tot["panics"],
           "exhaustive": True, "exhaustive_scope": "every leaf, member and array of every base document"}
    return core.finish(ctx, "model_checking", cov, [
        "TLC and Envelope.tla are trusted; 'content changed' is decided by the harness's own canonical form (sorted members, nulls dropped), not by c14n",
        "unknown members are not added (encoding/json drops them; the property speaks of the document's logical content)",
        "quick tier: a seed-dependent selection of 24 example envelopes + generated ones; thorough: all"])


def replay(ctx, path):
    ctx.tier = "thorough"
    rc = run(ctx)
    rp = json.load(open(path))
    hits = [d for d in ctx.disagreements if d["cls"] == rp["class"]]
    if hits:
        print("REPRODUCED %s" % hits[0]["what"])
        print("VIOLATION property=%s replay=%s" % (ctx.pid, path))
        return 1
    print("not reproduced")
    return 0
