"""C12 - the tax rate applied on a date is the one in force on that date.

Spec: Rates.tla, parameterised by the in-code rate tables of every registered
regime (exported by the harness at each run and read by TLC as a constant).
TLC enumerates every rate x value x {start-1, start, start+1} and fixed dates x
every qualification of the table, checks the table invariant and the
unambiguity of the choice, and exports the look-ups; each is executed on
RateDef.Value and end to end through an invoice (issue date / value date) and
an order (value date); RatesTrace.tla judges.  Random dates are added."""
import json, os, re
from . import core


def model(ctx, tables, cases):
    """MCRates is parameterised by the tables exported from the code.  Its invariants TablesOrdered and Unambiguous
    speak about those tables (the property's last sentence), so their violation is a finding about the code's
    data, not about the specification; any other failure of the model run is infrastructure."""
    try:
        ctx.model_check("MCRates", "MCRates.cfg", workers=8, env={"TABLES": tables, "OUT": cases})
        return True
    except core.Infra as e:
        msg = str(e)
        m = re.search(r"Invariant (TablesOrdered|Unambiguous) is violated", msg)
        if not m:
            raise
        ri = re.search(r"/\\ ri = (\d+)", msg)
        t = json.load(open(tables))["rates"]
        name = "?"
        if ri and 0 < int(ri.group(1)) <= len(t):
            r = t[int(ri.group(1)) - 1]
            name = "%s/%s/%s" % (r.get("cc"), r.get("cat"), r.get("key"))
        ctx.disagreements.append({"cls": "rate-table-%s:%s" % ("not-strictly-descending" if m.group(1) == "TablesOrdered" else "ambiguous", name),
                                  "what": "the in-code rate table %s violates %s: its values are not in strictly descending order of start date "
                                          "(per qualification), so the choice of a value is not the one the property describes" % (name, m.group(1)),
                                  "family": "rates-table", "replay": {"table": name, "invariant": m.group(1)}})
        return os.path.exists(cases) and os.path.getsize(cases) > 0


def validate(ctx, trace, tables, shards):
    res = ctx.validate_trace("RatesTrace", trace, shards=shards, env={"TABLES": tables})
    tot = {"events": 0, "boundary": 0}
    for sp, chunk, r, _ in res:
        tot["events"] += r["events"]
        tot["boundary"] += r["boundary"]
        for idx, verdict in r["bad"]:
            ev = json.loads(chunk[idx - 1])
            what = "%s/%s/%s on %04d-%02d-%02d ext=%s via %s -> %s %s %s; specification: %s" % (
                ev["cc"], ev["cat"], ev["key"], ev["date"][0], ev["date"][1], ev["date"][2], ev["ext"], ev["path"], ev["res"],
                json.dumps(ev["pct"]), ev["err"][:100], verdict)
            ctx.disagreements.append({"cls": "rate-%s:%s" % (verdict.split(":")[0], ev["path"]) if ev["res"] != "panic"
                                      else "rate-panic", "what": what, "family": "rates",
                                      "replay": {k: ev[k] for k in ("cc", "cat", "key", "date", "tags", "ext")}})
    return tot


def run(ctx):
    vd = ctx.vdrive()
    tables = ctx.path("tables.json")
    ctx.run([vd, "rates-export", "-out", tables])
    cases = ctx.path("cases.ndjson")
    if not model(ctx, tables, cases):
        open(cases, "w").close()
    n = 1500 if ctx.quick() else 60000
    ctx.run([vd, "rates-run", "-seed", str(ctx.seed), "-n", str(n), "-in", cases, "-out", ctx.path("trace.ndjson")])
    tot = validate(ctx, ctx.path("trace.ndjson"), tables, 16)
    lines = open(ctx.path("trace.ndjson")).read().splitlines()
    t = json.load(open(tables))
    samples = []
    for i in (0, len(lines) // 2, len(lines) - 1):
        e = json.loads(lines[i])
        samples.append("%s/%s/%s %s ext=%s via %s -> %s %s" % (e["cc"], e["cat"], e["key"], e["date"], e["ext"], e["path"], e["res"], json.dumps(e["pct"])))
    cov = {"traces_validated_against_impl": tot["events"], "samples": samples, "evaluations": tot["events"],
           "distinct_nontrivial": tot["boundary"],
           "rule": "one event per (rate, date, qualification, path); exhaustive boundary look-ups exported by TLC + %d random; "
                   "non-trivial = look-ups on a date that is the start date of some value of the table" % n,
           "rate_definitions": len(t["rates"]), "rate_values": sum(len(r["values"]) for r in t["rates"]),
           "model_lookups": sum(1 for _ in open(cases)), "paths": ["direct", "invoice-issue", "invoice-value", "order-value", "invoice-preset (combo already carries a percentage and surcharge)"],
           "exhaustive": True}
    return core.finish(ctx, "model_checking", cov, [
        "TLC and Rates.tla are trusted; the tables are the in-code definitions (C19 ties them to data/regimes)",
        "reading fixed in the specification: latest start date on or before the date among applicable values; equal start dates are resolved by the more specific qualification (PT regional rows)",
        "tags: no shipped table uses tag-qualified values; the clause is specified but only exercised with empty tag lists"])


def replay(ctx, path):
    vd = ctx.vdrive()
    rp = json.load(open(path))
    tables = ctx.path("tables.json")
    ctx.run([vd, "rates-export", "-out", tables])
    if rp["cases"] and rp["cases"][0] and "invariant" in rp["cases"][0]:
        model(ctx, tables, ctx.path("model-cases.ndjson"))
        for d in ctx.disagreements[:5]:
            print("REPRODUCED %s" % d["what"])
        if ctx.disagreements:
            print("VIOLATION property=%s replay=%s" % (ctx.pid, path))
            return 1
        print("not reproduced")
        return 0
    open(ctx.path("cases.ndjson"), "w").write("\n".join(json.dumps(c) for c in rp["cases"]) + "\n")
    ctx.run([vd, "rates-run", "-seed", "1", "-n", "0", "-in", ctx.path("cases.ndjson"), "-out", ctx.path("trace.ndjson")])
    validate(ctx, ctx.path("trace.ndjson"), tables, 1)
    for d in ctx.disagreements[:5]:
        print("REPRODUCED %s" % d["what"])
    if ctx.disagreements:
        print("VIOLATION property=%s replay=%s" % (ctx.pid, path))
        return 1
    print("not reproduced")
    return 0
