"""C09 - signature verification accepts exactly what was signed, on every path.

Spec: Envelope.tla (Contains, VerifyOut, VerifyViaOut).  TLC checks VerifySound
and ViaSound on all histories (MCEnvelope).  The harness enumerates every
history  [covered entries;] Sign(k1); <= N modifications  and presents the
serialised envelope with each of 4 public keys (k1, k2, each with and without
a key id) to the library, the bulk processor, HTTP /verify and (sampled) the
gobl verify command; EnvelopeTrace.tla tracks the state and judges each verdict."""
import json, re
from . import core
from .c10 import history, fmt_hist


def validate(ctx, trace, shards):
    res = ctx.validate_trace("EnvelopeTrace", trace, shards=shards, boundary='"op":"Init"')
    tot = {"events": 0, "steps": 0, "traces": 0}
    for sp, chunk, r, _ in res:
        tot["events"] += r["events"]
        tot["steps"] += r["steps"]
        tot["traces"] += sum(1 for l in chunk if '"op":"Init"' in l)
        for b in r["bad"]:
            idx, kind = b[0] - 1, b[1]
            ev = json.loads(chunk[idx])
            h = history(chunk, idx)
            # strip earlier verify verdicts from the displayed history
            h["ops"] = [o for o in h["ops"][:-1] if o["op"] not in ("Verify", "VerifyVia")] + h["ops"][-1:]
            path = ev["a"] if ev["op"] in ("Verify", "VerifyVia") else "-"
            if kind == "outcome":
                got = re.sub(r"(panic|error):.*", r"\1", ev["out"])
                direction = "accepts-unsigned-content" if got == "ok" else "rejects-signed-content"
                nokid = ":nokid" if ev["b"].endswith("-nokid") else ""
                cls = "verify-%s:%s%s:%s" % (direction, path, nokid, got) if ev["op"] in ("Verify", "VerifyVia") \
                    else "env-outcome:%s:spec=%s:impl=%s" % (ev["op"], b[2], got)
                what = "%s [path=%s key=%s] -> specification says %s, implementation says %s" % (
                    fmt_hist(h), path, ev["b"], b[2], ev["out"])
            else:
                cls = "env-%s:%s" % (kind, ev["op"])
                what = "%s -> projected state differs: %s" % (fmt_hist(h), json.dumps(ev["st"])[:300])
            ctx.disagreements.append({"cls": cls, "what": what, "family": "ver", "replay": h})
    return tot


def run(ctx):
    vd, gobl, bulk = ctx.vdrive(), ctx.gobl(), ctx.goblverif()
    q = ctx.quick()
    ctx.model_check("MCEnvelope", "MCEnvelope_quick.cfg" if q else "MCEnvelope_thorough.cfg", workers=16, timeout=2400)
    mods = 2 if q else 3
    out = ctx.path("ver.ndjson")
    p = ctx.run([vd, "ver-run", "-mods", str(mods), "-gobl", gobl, "-bulk", bulk, "-cli-every", "7" if q else "23",
                 "-out", out, "-work", ctx.work], timeout=3000)
    m = re.search(r"events=(\d+) traces=(\d+) cases=(\d+) cli=(\d+)", p.stdout)
    # append each trace's entry-point verdicts after its own events
    via = {}
    for l in open(out + ".via"):
        via.setdefault(json.loads(l)["tr"], []).append(l)
    merged, cur = [], None
    for l in open(out):
        t = json.loads(l)["tr"]
        if cur is not None and t != cur:
            merged += via.get(cur, [])
        cur = t
        merged.append(l)
    merged += via.get(cur, [])
    open(ctx.path("trace.ndjson"), "w").writelines(merged)
    tot = validate(ctx, ctx.path("trace.ndjson"), 16)
    verdicts = [json.loads(l) for l in merged if '"op":"Verify' in l]
    rejected = sum(1 for v in verdicts if v["out"] != "ok")
    paths = {}
    for v in verdicts:
        paths[v["a"]] = paths.get(v["a"], 0) + 1
    lines = [l for l in merged]
    sample_idx = [i for i, l in enumerate(lines) if '"op":"VerifyVia"' in l][:: max(1, len(verdicts) // 3)][:3]
    samples = []
    for i in sample_idx:
        e = json.loads(lines[i])
        h = history(lines, i)
        h["ops"] = [o for o in h["ops"] if o["op"] not in ("Verify", "VerifyVia")]
        samples.append("%s => %s verify with %s: %s" % (fmt_hist(h), e["a"], e["b"], e["out"]))
    cov = {"traces_validated_against_impl": tot["traces"], "samples": samples,
           "evaluations": len(verdicts), "distinct_nontrivial": rejected,
           "rule": "one verdict per (history, key, entry point); histories = 2 setups x all sequences of <= %d modifications "
                   "from 16; non-trivial = verdicts that must be (and are) refusals" % mods,
           "verdicts_per_entry_point": paths, "histories": int(m.group(2)), "exhaustive": True}
    return core.finish(ctx, "model_checking", cov, [
        "TLC and Envelope.tla (Contains / VerifyOut / VerifyViaOut) are trusted",
        "entry points outside the library validate the envelope first; the specification says so (VerifyViaOut)",
        "the gobl verify process is sampled (every 7th / 23rd case); bulk and HTTP see every case"])


def replay(ctx, path):
    # re-run the whole (cheap) quick exploration and report whether the class reappears
    rp = json.load(open(path))
    ctx.tier = "quick" if len(rp["cases"][0]["ops"]) <= 9 else "thorough"
    vd, gobl, bulk = ctx.vdrive(), ctx.gobl(), ctx.goblverif()
    rc = run(ctx)
    hit = [d for d in ctx.disagreements if d["cls"] == rp["class"]]
    if hit:
        print("REPRODUCED %s" % hit[0]["what"])
        print("VIOLATION property=%s replay=%s" % (ctx.pid, path))
        return 1
    print("not reproduced")
    return 0
