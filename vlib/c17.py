"""C17 - see calcfam.py, Calc.tla, MCCalc.tla, CalcTrace.tla."""
from . import calcfam


def run(ctx):
    return calcfam.run(ctx, "C17", {"C01": "every presented figure must equal the reference's; the reference is checked by TLC for the documented working precision", "C03": "the re-add identities are evaluated by TLC on the logged figures themselves, independently of the operational reference", "C17": "Invert, permutation of rows and RemoveIncludedTaxes are applied to the real invoice and compared with the relations of the specification"}["C17"])


def replay(ctx, path):
    return calcfam.replay(ctx, path, "C17")
