"""C20 - tax summaries combine component-wise (Merge, Negate) - see taxfam.py, TaxTotals.tla."""
from . import taxfam


def run(ctx):
    return taxfam.run(ctx, {"merge", "negate", "payment"}, "Merge/Negate are specified on the presented figures; payments: real bill.Payment documents with 1-6 debit/credit lines in EUR/USD/JPY/KWD/GBP and document summaries")


def replay(ctx, path):
    return taxfam.replay(ctx, path, {"merge", "negate", "payment"})
