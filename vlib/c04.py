"""C04 - calculation is a deterministic fix-point; serialisation is lossless.

Spec: Pipeline.tla.  TLC explores every operation sequence up to length 4/5
(Calculate, Reserialise, Validate, Digest, Verify, Extract, Clone), checks the
action property 'once calculated nothing moves', and exports the sequences; the
harness replays them (a rotating subset per document, all of them over the
document set) on every example source and calculated envelope, on structure-
aware variants (every top-level array with its last element duplicated, the
document's own tax summary as a preceding document's, an extra decimal on
every price) and on generated documents, and compares the bytes with those of
4 concurrent goroutines and of a fresh process.  PipelineTrace.tla judges."""
import json, re
from . import core


def validate(ctx, trace, shards):
    res = ctx.validate_trace("PipelineTrace", trace, shards=shards, boundary='"op":"Load"')
    tot = {"events": 0, "steps": 0, "traces": 0}
    for sp, chunk, r, _ in res:
        tot["events"] += r["events"]
        tot["steps"] += r["steps"]
        tot["traces"] += sum(1 for l in chunk if '"op":"Load"' in l)
        for idx, why in r["bad"]:
            ev = json.loads(chunk[idx - 1])
            j = idx - 1
            while json.loads(chunk[j])["op"] != "Load":
                j -= 1
            ops = [json.loads(l)["op"] for l in chunk[j + 1:idx]]
            variant = ev["doc"].split("#")[1] if "#" in ev["doc"] else ("generated" if ev["doc"].startswith("generated") else "example")
            variant = re.sub(r"^dup-(?!notes).*", "dup-array", variant)
            ctx.disagreements.append({"cls": "pipe-%s:%s" % (why, variant),
                                      "what": "%s: %s after %s %s" % (ev["doc"], why, "; ".join(ops), ev["err"][:160]),
                                      "family": "pipe", "replay": {"doc": ev["doc"], "ops": ops}})
    return tot


def run(ctx):
    vd = ctx.vdrive()
    q = ctx.quick()
    seqs = ctx.path("seqs.ndjson")
    ctx.model_check("MCPipeline", "MCPipeline_quick.cfg" if q else "MCPipeline_thorough.cfg", workers=8, env={"OUT": seqs})
    p = ctx.run([vd, "pipe-run", "-repo", core.REPO, "-seqs", seqs, "-per-doc", "6" if q else "40", "-seed", str(ctx.seed),
                 "-gen", "60" if q else "1500", "-proc-every", "4" if q else "1", "-out", ctx.path("trace.ndjson"), "-work", ctx.work], timeout=3300)
    m = re.search(r"events=(\d+) traces=(\d+) inputs=(\d+)", p.stdout)
    tot = validate(ctx, ctx.path("trace.ndjson"), 16)
    lines = open(ctx.path("trace.ndjson")).read().splitlines()
    recalcs = sum(1 for l in lines if '"op":"Calculate"' in l) - tot["traces"]
    samples = []
    for i in (0, len(lines) // 2):
        j = i
        while '"op":"Load"' not in lines[j]:
            j -= 1
        k = j + 1
        ops = []
        while k < len(lines) and '"op":"Load"' not in lines[k]:
            e = json.loads(lines[k])
            ops.append("%s(b=%d,d=%d)" % (e["op"], e["b"], e["d"]))
            k += 1
        samples.append("%s: %s" % (json.loads(lines[j])["doc"], " ".join(ops)))
    cov = {"traces_validated_against_impl": tot["traces"], "samples": samples, "evaluations": tot["steps"],
           "distinct_nontrivial": max(recalcs, 0),
           "rule": "one trace per (input, operation sequence); inputs = every file under examples/ (sources and calculated envelopes), "
                   "their structure-aware variants and generated invoices/orders/deliveries; non-trivial = Calculate steps applied to an "
                   "already calculated envelope (the fix-point claim), counted by the driver",
           "inputs": int(m.group(3)), "sequences_from_tlc": sum(1 for _ in open(seqs)), "exhaustive": False}
    return core.finish(ctx, "model_checking", cov, [
        "TLC and Pipeline.tla are trusted; bytes are compared by SHA-256",
        "identifiers and dates are fixed by the input (a uuid is injected when a document has none); the envelope uuid is fixed",
        "every registered schema type that has an example is covered; types without an example file are not"])


def replay(ctx, path):
    ctx.tier = "quick"
    rc = run(ctx)
    rp = json.load(open(path))
    hits = [d for d in ctx.disagreements if d["cls"] == rp["class"]]
    if hits:
        print("REPRODUCED %s" % hits[0]["what"])
        print("VIOLATION property=%s replay=%s" % (ctx.pid, path))
        return 1
    print("not reproduced")
    return 0
