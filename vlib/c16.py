"""C16 - correct / replicate yield a linked new document and leave the source intact.

Spec: Correction.tla (MustRefuse / GoodCorrection / GoodReplica over the merged
correction definitions of the regime and the active addons, which the harness
exports from the registered definitions with every event).  TLC enumerates the
option combinations (5 types x 2^6 options x 4 source states), checks that the
refusal rules are satisfiable and exports the combinations; each is executed on
example invoices of every regime/addon through the library, the bulk processor
and (sampled) the gobl correct command; CorrectionTrace.tla judges."""
import json
from . import core


def validate(ctx, trace, shards):
    res = ctx.validate_trace("CorrectionTrace", trace, shards=shards, timeout=2400)
    tot = {"events": 0, "accepted": 0}
    for sp, chunk, r, _ in res:
        tot["events"] += r["events"]
        tot["accepted"] += r["accepted"]
        for idx, verdict in r["bad"]:
            ev = json.loads(chunk[idx - 1])
            c = ev["combo"]
            opts = "+".join(k for k in ("reason", "ext", "stamps", "series", "date", "copytax") if c[k]) or "no-options"
            ctx.disagreements.append({"cls": "corr-%s:%s:%s" % (verdict, ev["k"], ev["path"]),
                                      "what": "%s %s via %s type=%r %s state=%s -> ok=%s %s result=%s" % (
                                          ev["src"], ev["k"], ev["path"], c["type"], opts, c["state"], ev["ok"], ev["err"][:160], json.dumps(ev["r"])[:400]),
                                      "family": "corr", "replay": {"src": ev["src"], "combo": c, "path": ev["path"]}})
    return tot


def run(ctx):
    vd, bulk, gobl = ctx.vdrive(), ctx.goblverif(), ctx.gobl()
    q = ctx.quick()
    combos = ctx.path("combos.ndjson")
    ctx.model_check("MCCorrection", "MCCorrection.cfg", workers=8, env={"OUT": combos})
    ctx.run([vd, "corr-run", "-repo", core.REPO, "-combos", combos, "-sources", "10" if q else "0", "-bulk", bulk, "-gobl", gobl,
             "-cli-every", "400" if q else "150", "-out", ctx.path("trace.ndjson"), "-work", ctx.work], timeout=3400)
    tot = validate(ctx, ctx.path("trace.ndjson"), 16)
    lines = open(ctx.path("trace.ndjson")).read().splitlines()
    samples = []
    for i in (10, len(lines) // 2, len(lines) - 7):
        e = json.loads(lines[i])
        samples.append("%s %s via %s %s -> ok=%s %s" % (e["src"], e["k"], e["path"], json.dumps(e["combo"]), e["ok"], e["err"][:80]))
    srcs = {json.loads(l)["src"] for l in lines[:: max(1, len(lines) // 5000)]}
    cov = {"traces_validated_against_impl": tot["events"], "samples": samples, "evaluations": tot["events"],
           "distinct_nontrivial": tot["accepted"],
           "rule": "one event per (source invoice, option combination, source state, entry point); non-trivial = requests that were accepted "
                   "(whose result is then checked field by field), counted by TLC",
           "combinations": sum(1 for _ in open(combos)), "source_invoices_seen": len(srcs), "exhaustive": not q}
    return core.finish(ctx, "model_checking", cov, [
        "TLC and Correction.tla are trusted; the regime/addon correction definitions are read from the registry (C19 ties them to data/)",
        "entry points other than the library validate the result; a refusal for that reason (key 'validation') is accepted, a success must validate",
        "copy-tax: the copied summary is recalculated with the new document, so only its presence is required",
        "quick: 10 source invoices spread over the regimes; thorough: every valid example invoice"])


def replay(ctx, path):
    ctx.tier = "thorough"
    rc = run(ctx)
    rp = json.load(open(path))
    hits = [d for d in ctx.disagreements if d["cls"] == rp["class"]]
    if hits:
        print("REPRODUCED %s" % hits[0]["what"])
        print("VIOLATION property=%s replay=%s" % (ctx.pid, path))
        return 1
    print("not reproduced")
    return 0
