"""C02 - the tax summary partitions taxable amounts and sums them correctly (see taxfam.py, TaxTotals.tla)."""
from . import taxfam


def run(ctx):
    return taxfam.run(ctx, {"build"}, "decided on tax.TotalCalculator directly; bill-level rows (discounts negative, charges) reach it through C01's documents")


def replay(ctx, path):
    return taxfam.replay(ctx, path, {"build"})
