"""C15 - concurrent use is race-free and result-equivalent; bulk replies pair up.

Spec: Bulk.tla (reader / workers / single output stream / final marker) is
model-checked for every interleaving of 4 requests, with and without a
malformed request, incl. liveness; Shared.tla states registry immutability and
result equivalence.  The real bulk processor (cmd/goblverif) is fed seeded
streams of mixed actions with varied latencies and malformed tails; its output
stream is validated by BulkTrace.tla, payloads compared with the same request
processed alone.  A -race build of the harness runs G goroutines over every
example document and every regime x addon combination, compares each result
with a sequential pass and fingerprints the registries (incl. the spare
capacity of shared slices); race detector reports become RaceReport events
that SharedTrace.tla rejects.  It is the Go race detector, not TLC, that
observes a data race."""
import glob, json, os, re
from . import core


def run(ctx):
    q = ctx.quick()
    vd, bulk = ctx.vdrive(), ctx.goblverif()
    ctx.model_check("Bulk", "MCBulk.cfg", workers=4)
    ctx.model_check("Bulk", "MCBulkBad.cfg", workers=4)
    ctx.model_check("Shared", "MCShared.cfg", workers=4)
    # ---- bulk streams
    ctx.run([vd, "bulk-run", "-repo", core.REPO, "-bulk", bulk, "-gobl", ctx.gobl(), "-seed", str(ctx.seed), "-streams", "120" if q else "3000",
             "-out", ctx.path("bulk.ndjson")], timeout=3300)
    res = ctx.validate_trace("BulkTrace", ctx.path("bulk.ndjson"), shards=8, boundary='"kind":"start"')
    events = reordered = streams = 0
    for sp, chunk, r, _ in res:
        events += r["events"]
        reordered += r["reordered"]
        streams += sum(1 for l in chunk if '"kind":"start"' in l)
        for idx, why in r["bad"]:
            ev = json.loads(chunk[idx - 1])
            j = idx - 1
            while '"kind":"start"' not in chunk[j]:
                j -= 1
            st = json.loads(chunk[j])
            ctx.disagreements.append({"cls": "bulk-" + why, "family": "bulk",
                                      "what": "stream of %d requests (malformed at %d): %s at output line %d: %s" % (st["nreq"], st["bad"], why, ev["n"], json.dumps(ev)[:300]),
                                      "replay": {"stream": st, "event": ev}})
    # ---- concurrent library use under the race detector
    vr = ctx.vdrive(race=True)
    results = 0
    runs = [(8, 2)] if q else [(4, 2), (8, 4), (16, 16), (32, 8)]
    for gi, (g, procs) in enumerate(runs):
        out = ctx.path("conc-%d.ndjson" % gi)
        logp = ctx.path("race-%d" % gi)
        p = ctx.run([vr, "conc-run", "-repo", core.REPO, "-seed", str(ctx.seed + gi), "-g", str(g), "-rounds", "1" if q else "2", "-out", out],
                    env={"GORACE": "halt_on_error=0 log_path=" + logp, "GOMAXPROCS": str(procs)}, timeout=3300, check=False)
        if p.returncode not in (0, 66):       # 66 = the race detector reported something (see the log)
            # the run died.  If the race detector had already reported races, or the Go runtime aborted the process
            # because of unsynchronised map access, that is the data race itself (a verdict); anything else is infrastructure
            m = re.search(r"^fatal error: (concurrent map [a-z ]+)", p.stderr, re.M)
            raced = []
            for f in glob.glob(logp + ".*"):
                for blk in open(f).read().split("WARNING: DATA RACE")[1:]:
                    fns = re.findall(r"github.com/invopop/gobl/([^\s(]+\([^)]*\)\.[A-Za-z0-9_]+|[^\s(]+)\(\)", blk)
                    raced.append(fns[0] if fns else "unknown")
            if not m and not raced:
                first = re.search(r"^(fatal error|panic): .*$", p.stderr, re.M)
                raise core.Infra("conc-run failed (%d): %s ... %s" % (p.returncode, first.group(0) if first else "", p.stderr[-1500:]))
            fr = re.findall(r"^github\.com/invopop/gobl[/.]([^\s(]+)\(", p.stderr, re.M)
            site = raced[0] if raced else (fr[0] if fr else "unknown")
            ctx.disagreements.append({"cls": "conc-race:" + site, "family": "conc",
                                      "what": "the concurrent run ended abnormally (%s) after %d data race report(s), first in %s (G=%d, GOMAXPROCS=%d)" % (
                                          "fatal error: " + m.group(1) if m else "exit %d" % p.returncode, len(raced), site, g, procs),
                                      "replay": {"k": "race", "g": 0, "op": site, "doc": "", "same": False, "seq": "", "got": ""}})
            continue
        # race reports become events of the trace
        reports = []
        for f in glob.glob(logp + ".*"):
            txt = open(f).read()
            for blk in txt.split("WARNING: DATA RACE")[1:]:
                fns = re.findall(r"github.com/invopop/gobl/([^\s(]+\([^)]*\)\.[A-Za-z0-9_]+|[^\s(]+)\(\)", blk)
                reports.append(fns[0] if fns else "unknown")
        with open(out, "a") as f:
            for rp in reports[:200]:
                f.write(json.dumps({"k": "race", "g": 0, "op": rp, "doc": "", "same": False, "seq": "", "got": ""}) + "\n")
        rs = ctx.validate_trace("SharedTrace", out, shards=1)
        for sp, chunk, r, _ in rs:
            results += r["results"]
            for idx, why in r["bad"]:
                ev = json.loads(chunk[idx - 1])
                if why == "race-report":
                    cls, what = "conc-race:" + ev["op"], "data race reported by the race detector in %s (G=%d, GOMAXPROCS=%d)" % (ev["op"], g, procs)
                elif why.startswith("registry"):
                    cls, what = "conc-" + why, "registry fingerprint changed (%s): %s -> %s" % (ev["op"], ev["seq"], ev["got"])
                else:
                    cls, what = "conc-%s" % why, "goroutine %d %s on %s: sequential %s, concurrent %s" % (ev["g"], ev["op"], ev["doc"], ev["seq"], ev["got"])
                ctx.disagreements.append({"cls": cls, "what": what, "family": "conc", "replay": ev})
    lines = open(ctx.path("bulk.ndjson")).read().splitlines()
    starts = [i for i, l in enumerate(lines) if '"kind":"start"' in l]
    samples = []
    for s in (starts[0], starts[len(starts) // 2]):
        k = s + 1
        seqs = []
        while k < len(lines) and '"kind":"start"' not in lines[k]:
            e = json.loads(lines[k])
            if e["kind"] in ("resp", "final"):
                seqs.append("%s%d" % ("F" if e["kind"] == "final" else "", e["seq"]))
            k += 1
        st = json.loads(lines[s])
        samples.append("stream n=%d malformed-at=%d -> output order %s" % (st["nreq"], st["bad"], " ".join(seqs)))
    cov = {"traces_validated_against_impl": streams + len(runs), "samples": samples, "evaluations": events + results,
           "distinct_nontrivial": reordered,
           "rule": "bulk: one trace per stream (1-60 mixed requests, varied latencies, a fifth with a malformed request); non-trivial = streams "
                   "whose responses came out of request order (interleavings actually realised), counted by TLC; library: %d concurrent "
                   "operation results compared with the sequential ones under the race detector" % results,
           "bulk_streams": streams, "concurrent_results": results, "race_runs": ["G=%d GOMAXPROCS=%d" % x for x in runs], "exhaustive": False}
    return core.finish(ctx, "model_checking", cov, [
        "TLC, Bulk.tla and Shared.tla are trusted; all interleavings of 4 requests are model-checked, real streams are validated against the same protocol",
        "data races are observed by the Go race detector and turned into trace events (stated plainly: TLC only rejects them)",
        "payloads are compared with the same request processed alone for deterministic actions (ping, sleep, schemas, schema, regime, validate, build, verify, unknown action)"])


def replay(ctx, path):
    rc = run(ctx)
    rp = json.load(open(path))
    hits = [d for d in ctx.disagreements if d["cls"] == rp["class"]]
    if hits:
        print("REPRODUCED %s" % hits[0]["what"])
        print("VIOLATION property=%s replay=%s" % (ctx.pid, path))
        return 1
    print("not reproduced")
    return 0
