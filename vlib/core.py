"""Common machinery of the check driver: scratch directories, building the
harness against /repo's working tree, running TLC, sharded trace validation,
known-finding classification, evidence files."""
import json, os, re, shutil, subprocess, sys, time, concurrent.futures

VERIF = os.path.dirname(os.path.dirname(os.path.abspath(__file__)))
REPO = os.environ.get("VERIF_REPO", "/repo")
GOENV = dict(os.environ, GOFLAGS="-mod=mod", GOPROXY="off", GOSUMDB="off", GOTOOLCHAIN="local",
             CGO_ENABLED=os.environ.get("CGO_ENABLED", "0"))
NOISE = re.compile(r"^(WARNING|Parsing file|Semantic processing|Linting of|Computed \d+ initial)")


class Infra(Exception):
    """Infrastructure failure (build error, TLC crash, timeout): exit 2, never a violation."""


def trim_build_cache(min_free_gb=25, older_than_min=75):
    """Every check rebuilds the harness against the working tree of /repo, so every change of /repo leaves another
    set of compiled packages in Go's build cache (hundreds of MB each; 130 GB filled the disk once).  When the disk
    runs low the entries not used for a while are removed (Go refreshes the modification time of an entry it uses once
    an hour); nothing depends on them, they are rebuilt when needed."""
    try:
        cache = subprocess.run(["go", "env", "GOCACHE"], capture_output=True, text=True, env=GOENV, timeout=30).stdout.strip()
        st = os.statvfs(cache if cache and os.path.isdir(cache) else "/")
        if st.f_bavail * st.f_frsize > min_free_gb << 30 or not cache or not os.path.isdir(cache):
            return
        subprocess.run(["find", cache, "-type", "f", "-mmin", "+%d" % older_than_min, "-delete"], timeout=900,
                       stdout=subprocess.DEVNULL, stderr=subprocess.DEVNULL)
    except Exception:
        pass


class Ctx:
    def __init__(self, pid, tier, seed):
        self.pid, self.tier, self.seed = pid, tier, seed
        self.t0 = time.time()
        trim_build_cache()
        self.work = os.path.join(VERIF, ".work", "%s.%d" % (pid, os.getpid()))
        shutil.rmtree(self.work, ignore_errors=True)
        os.makedirs(self.work)
        self.spec = os.path.join(self.work, "spec")
        shutil.copytree(os.path.join(VERIF, "spec"), self.spec)
        for f in os.listdir(os.path.join(self.spec, "mc")):
            shutil.copy(os.path.join(self.spec, "mc", f), self.spec)
        self.states = 0
        self.transitions = 0
        self.tlc_runs = []
        self.disagreements = []   # dicts: cls, what, replay(dict)
        self.notes = []
        self._vdrive = None
        self._gobl = None

    def quick(self):
        return self.tier == "quick"

    def path(self, name):
        return os.path.join(self.work, name)

    def cleanup(self):
        shutil.rmtree(self.work, ignore_errors=True)
        try:
            os.rmdir(os.path.join(VERIF, ".work"))
        except OSError:
            pass

    # ---- building -------------------------------------------------------
    def vdrive(self, race=False):
        key = "_vdrive_race" if race else "_vdrive"
        if getattr(self, key, None):
            return getattr(self, key)
        out = self.path("vdrive-race" if race else "vdrive")
        env = dict(GOENV)
        cmd = ["go", "build", "-tags", "verif", "-o", out]
        if race:
            env["CGO_ENABLED"] = "1"
            cmd.insert(2, "-race")
        cmd.append("./cmd/vdrive")
        hdir = os.path.join(VERIF, "harness")
        # keep go.sum in step with /repo
        try:
            shutil.copy(os.path.join(REPO, "go.sum"), os.path.join(hdir, "go.sum"))
        except OSError:
            pass
        p = subprocess.run(cmd, cwd=hdir, env=env, capture_output=True, text=True)
        if p.returncode != 0:
            raise Infra("harness does not build against %s:\n%s" % (REPO, p.stderr[-3000:]))
        setattr(self, key, out)
        return out

    def goblverif(self):
        if getattr(self, "_goblverif", None):
            return self._goblverif
        out = self.path("goblverif")
        p = subprocess.run(["go", "build", "-tags", "verif", "-o", out, "./cmd/goblverif"], cwd=REPO, env=GOENV,
                           capture_output=True, text=True)
        if p.returncode != 0:
            raise Infra("cmd/goblverif (hook) does not build:\n%s" % p.stderr[-3000:])
        self._goblverif = out
        return out

    def gobl(self):
        if self._gobl:
            return self._gobl
        out = self.path("gobl")
        p = subprocess.run(["go", "build", "-o", out, "./cmd/gobl"], cwd=REPO, env=GOENV,
                           capture_output=True, text=True)
        if p.returncode != 0:
            raise Infra("gobl CLI does not build:\n%s" % p.stderr[-3000:])
        self._gobl = out
        return out

    def run(self, cmd, timeout=1800, env=None, check=True, cwd=None, stdin=None):
        e = dict(GOENV)
        if env:
            e.update(env)
        try:
            p = subprocess.run(cmd, cwd=cwd or self.work, env=e, capture_output=True, text=True,
                               timeout=timeout, input=stdin)
        except subprocess.TimeoutExpired:
            raise Infra("timeout after %ds: %s" % (timeout, " ".join(cmd[:4])))
        if check and p.returncode != 0:
            raise Infra("command failed (%d): %s\n%s\n%s" % (p.returncode, " ".join(cmd[:6]),
                                                              p.stdout[-2000:], p.stderr[-2000:]))
        return p

    # ---- TLC -----------------------------------------------------------
    def tlc(self, module, cfg=None, env=None, workers=1, timeout=1500, extra=None, tag=None,
            count=True, heap=None):
        tag = tag or module
        md = self.path("md-%s-%d" % (tag, len(self.tlc_runs)))
        cmd = ["java", "-XX:+UseParallelGC", "-Xss64m"]
        if workers == 1:
            cmd += ["-XX:ParallelGCThreads=2", "-Xmx%s" % (heap or "3g")]
        elif heap:
            cmd.append("-Xmx%s" % heap)
        cmd += ["-cp", "/opt/veriftools/tla/tla2tools.jar:/opt/veriftools/tla/CommunityModules-deps.jar",
                "tlc2.TLC", "-workers", str(workers), "-metadir", md]
        if cfg:
            cmd += ["-config", cfg]
        if extra:
            cmd += extra
        cmd.append(module + ".tla")
        e = dict(os.environ)
        if env:
            e.update({k: str(v) for k, v in env.items()})
        t = time.time()
        try:
            p = subprocess.run(cmd, cwd=self.spec, env=e, capture_output=True, text=True, timeout=timeout)
        except subprocess.TimeoutExpired:
            raise Infra("TLC timeout (%ds) on %s" % (timeout, tag))
        finally:
            shutil.rmtree(md, ignore_errors=True)
        out = "\n".join(l for l in p.stdout.splitlines() if not NOISE.match(l))
        res = {"tag": tag, "wall_s": round(time.time() - t, 1), "rc": p.returncode, "out": out}
        m = re.search(r"(\d+) states generated, (\d+) distinct states found", out)
        if m:
            res["generated"], res["distinct"] = int(m.group(1)), int(m.group(2))
            if count:
                self.states += int(m.group(2))
                self.transitions += int(m.group(1))
        res["violation"] = ("is violated" in out) or ("Error: Invariant" in out) or ("Error: Action property" in out) \
            or ("Temporal properties were violated" in out)
        ok = "Model checking completed. No error has been found." in out or "Finished in" in out and p.returncode == 0
        if not ok and not res["violation"]:
            raise Infra("TLC failed on %s (rc=%d):\n%s\n%s" % (tag, p.returncode, out[-3000:], p.stderr[-1500:]))
        self.tlc_runs.append({k: v for k, v in res.items() if k != "out"})
        return res

    def model_check(self, module, cfg, workers=16, timeout=1500, env=None, extra=None):
        """Exhaustive TLC run of a model; an invariant violation of the *model* is an
        infrastructure problem (the specification is wrong), not a code violation."""
        r = self.tlc(module, cfg, env=env, workers=workers, timeout=timeout, extra=extra, tag=cfg.replace(".cfg", ""))
        if r["violation"]:
            raise Infra("specification %s violates its own invariants:\n%s" % (cfg, r["out"][-3000:]))
        return r

    def validate_trace(self, module, trace, shards=1, timeout=1500, cfg=None, env=None, boundary=None):
        """Run a *Trace.tla specification over an ndjson trace, possibly in shards.
        The spec writes its result record with JsonSerialize(IOEnv.RESULT, ..).
        Returns list of (shard_path, result) with event indices local to shard."""
        lines = open(trace).read().splitlines()
        lines = [l for l in lines if l.strip()]
        if not lines:
            return []
        shards = max(1, min(shards, len(lines) // 200 or 1))
        per = (len(lines) + shards - 1) // shards
        jobs = []
        cuts = [0]
        for s in range(1, shards):
            c = max(s * per, cuts[-1])
            if boundary:   # only cut where a new trace starts
                while c < len(lines) and boundary not in lines[c]:
                    c += 1
            cuts.append(min(c, len(lines)))
        cuts.append(len(lines))
        for s in range(shards):
            chunk = lines[cuts[s]:cuts[s + 1]]
            if not chunk:
                continue
            sp = "%s.s%d" % (trace, s)
            open(sp, "w").write("\n".join(chunk) + "\n")
            jobs.append((s, sp, chunk))

        def one(job):
            s, sp, chunk = job
            rp = sp + ".result.json"
            e = {"TRACE": sp, "RESULT": rp}
            if env:
                e.update(env)
            r = self.tlc(module, cfg or (module + ".cfg"), env=e, workers=1, timeout=timeout,
                         tag="%s-s%d" % (module, s), count=False)
            if r["violation"]:
                raise Infra("trace spec %s reported an invariant violation:\n%s" % (module, r["out"][-2000:]))
            if not os.path.exists(rp):
                raise Infra("trace spec %s wrote no result:\n%s" % (module, r["out"][-2000:]))
            res = json.load(open(rp))
            if isinstance(res, list) and len(res) == 1:
                res = res[0]
            return sp, chunk, res, r

        with concurrent.futures.ThreadPoolExecutor(max_workers=min(16, len(jobs))) as ex:
            results = list(ex.map(one, jobs))
        return results


# ---- findings ----------------------------------------------------------
def load_known():
    p = os.path.join(VERIF, "known_findings.json")
    if not os.path.exists(p):
        return []
    return json.load(open(p))["findings"]


def finish(ctx, level, coverage, assumptions):
    """Classify disagreements, write evidence, print lines, return exit code."""
    known = [k for k in load_known() if k["property"] == ctx.pid and k.get("status", "known") == "known"]
    kn_hit, viol = {}, []
    for d in ctx.disagreements:
        hit = next((k for k in known if k["class"] == d["cls"]), None)
        if hit:
            kn_hit.setdefault(hit["id"], (hit, []))[1].append(d)
        else:
            viol.append(d)
    for hid, (hit, ds) in sorted(kn_hit.items()):
        print("KNOWN-FINDING: property=%s %s [%s; %d occurrence(s), e.g. %s]" %
              (ctx.pid, hit["what"], hid, len(ds), ds[0]["what"][:160]))
    rdir = os.path.join(VERIF, "replays", ctx.pid)
    seen_cls = {}
    for d in viol:
        seen_cls.setdefault(d["cls"], []).append(d)
    n = 0
    for cls, ds in sorted(seen_cls.items()):
        os.makedirs(rdir, exist_ok=True)
        n += 1
        rp = os.path.join(rdir, "%s-%s-seed%d-%d.json" % (ctx.tier, re.sub(r"[^A-Za-z0-9_.-]+", "_", cls)[:60], ctx.seed, n))
        json.dump({"property": ctx.pid, "class": cls, "count": len(ds), "what": ds[0]["what"],
                   "family": ds[0].get("family"), "cases": [d.get("replay") for d in ds[:50]]}, open(rp, "w"), indent=1)
        print("VIOLATION property=%s replay=%s" % (ctx.pid, rp))
        print("  class=%s count=%d first: %s" % (cls, len(ds), ds[0]["what"][:400]))
    coverage = dict(coverage)
    coverage.setdefault("states", ctx.states)
    coverage.setdefault("transitions", ctx.transitions)
    coverage["tlc_runs"] = [{k: v for k, v in r.items()} for r in ctx.tlc_runs][:40]
    coverage["known_findings_hit"] = sorted(kn_hit)
    if ctx.notes:
        coverage["notes"] = ctx.notes[:40]
    ev = {"property_id": ctx.pid, "tier": ctx.tier, "seed": ctx.seed, "level": level,
          "coverage": coverage, "assumptions": assumptions,
          "wall_s": round(time.time() - ctx.t0, 1), "violations": len(seen_cls)}
    os.makedirs(os.path.join(VERIF, "evidence"), exist_ok=True)
    json.dump(ev, open(os.path.join(VERIF, "evidence", ctx.pid + ".json"), "w"), indent=1, default=str)
    print("%s %s tier=%s seed=%d: %s in %.0fs (states=%d, traces=%s, violations=%d, known=%d)" %
          ("FAIL" if seen_cls else "PASS", ctx.pid, ctx.tier, ctx.seed,
           "violation" if seen_cls else "held on everything explored", time.time() - ctx.t0, ctx.states,
           coverage.get("traces_validated_against_impl"), len(seen_cls), len(kn_hit)))
    return 1 if seen_cls else 0
