"""C07 - canonical JSON follows its specification.

Spec: C14n.tla (rule by rule from c14n/README.md).  TLC enumerates all values of
depth <= 2 over a leaf alphabet exercising every rule, checks that the canonical
form depends on the logical content only and is injective on it, and exports
the values.  The harness renders each value in 5 styles (member order, white
space, escape style, extra null members, number spelling), feeds the text to
c14n.CanonicalJSON, re-canonicalises the output, sweeps single-character strings
(all 1 112 064 scalar values in the thorough tier), random values to depth 6 and
malformed inputs.  C14nTrace.tla judges every event."""
import json
from . import core


def txt(cps):
    return "".join(chr(c) if 0 <= c < 0x110000 and not (0xD800 <= c <= 0xDFFF) else "?" for c in cps)


def features(v):
    """Features of an abstract value used to name a divergence."""
    f = set()

    def walk(x, top=False):
        t = x["t"]
        if t == "obj":
            ms = x["m"]
            if ms and any(m["v"]["t"] == "null" for m in ms):
                f.add("null-member")
            if any(any(c > 0xFFFF for c in m["k"]) for m in ms) and len(ms) > 1:
                f.add("astral-key")
            if len(ms) > 1:
                f.add("multi-member")
            for m in ms:
                if any(c < 32 for c in m["k"]):
                    f.add("control-char")
                walk(m["v"])
        elif t == "arr":
            for y in x["a"]:
                walk(y)
        elif t == "str":
            if any(c < 32 for c in x["s"]):
                f.add("control-char")
            if 0xFFFD in x["s"]:
                f.add("u+fffd")
        elif t == "dec":
            f.add("negative-dec" if x["neg"] else "dec")
            if abs(x["e"]) >= 100:
                f.add("big-exponent")
        elif t == "int":
            f.add("int")
    walk(v)
    for name in ("negative-dec", "null-member", "u+fffd", "big-exponent", "control-char", "astral-key", "dec", "multi-member", "int"):
        if name in f:
            return name
    return "other"


def validate(ctx, trace, shards):
    res = ctx.validate_trace("C14nTrace", trace, shards=shards)
    tot = {"events": 0, "nontrivial": 0}
    for sp, chunk, r, _ in res:
        tot["events"] += r["events"]
        tot["nontrivial"] += r["nontrivial"]
        for idx, verdict in r["bad"]:
            ev = json.loads(chunk[idx - 1])
            if ev["k"] == "canon":
                cls = "c14n-%s:%s" % (verdict, features(ev["v"]))
                what = "%s: input %r (style %s) -> %r %s" % (verdict, txt(ev["in"])[:200], ev["style"], txt(ev["out"])[:200], ev["err"][:80])
            elif ev["k"] == "char":
                cls = "c14n-%s:char:%s" % (verdict, "control" if ev["cp"] < 32 else "u+fffd" if ev["cp"] == 0xFFFD else "other")
                what = "%s: one-character string U+%04X (%s) -> %r %s" % (verdict, ev["cp"], ev["style"] or "escaped by encoding/json", txt(ev["out"]), ev["err"][:80])
            else:
                cls = "c14n-%s:%s" % (verdict, ev["cls"])
                what = "%s: %s input %r -> %r %s" % (verdict, ev["cls"], bytes(ev["in"]).decode("latin-1"), txt(ev["out"]), ev["err"][:80])
            ctx.disagreements.append({"cls": cls, "what": what, "family": "c14n", "replay": ev})
    return tot


def run(ctx):
    vd = ctx.vdrive()
    q = ctx.quick()
    vals = ctx.path("vals.ndjson")
    ctx.model_check("MCC14n", "MCC14n_quick.cfg" if q else "MCC14n_thorough.cfg", workers=16, env={"OUT": vals}, timeout=2400)
    cmd = [vd, "c14n-run", "-in", vals, "-seed", str(ctx.seed), "-n", "2500" if q else "40000", "-out", ctx.path("trace.ndjson")]
    if not q:
        cmd.append("-allchars")
    ctx.run(cmd, timeout=3000)
    tot = validate(ctx, ctx.path("trace.ndjson"), 16)
    lines = open(ctx.path("trace.ndjson")).read().splitlines()
    samples = []
    for i in (1, len(lines) // 3, len(lines) // 2):
        e = json.loads(lines[i])
        samples.append("%s %s: %r -> %r" % (e["k"], e["style"] or e["cls"] or ("U+%04X" % e["cp"]), txt(e["in"])[:120], txt(e["out"])[:120]))
    cov = {"traces_validated_against_impl": tot["events"], "samples": samples, "evaluations": tot["events"],
           "distinct_nontrivial": tot["nontrivial"],
           "rule": "events: (value, rendering style) -> output, re-canonicalisation of every output, single-character strings "
                   "(escaped and raw), malformed inputs; non-trivial = structured values (depth >= 1), ASCII single characters "
                   "and every malformed input (counted by TLC)",
           "model_values": sum(1 for _ in open(vals)), "all_scalar_values": not q, "exhaustive": not q}
    return core.finish(ctx, "model_checking", cov, [
        "TLC and C14n.tla (transcription of c14n/README.md) are trusted; the harness renderer is self-checked against encoding/json on every text",
        "numbers: integer literals across int64; other numbers are decimal literals of <= 15 significant digits, for which the shortest round-trip form is the literal's own digits; -0.0 and lone surrogate escapes are not judged",
        "a literal with a fraction or exponent is a 'float' in GOBL's reading (README example 0.0 -> 0.0E0)"])


def replay(ctx, path):
    vd = ctx.vdrive()
    rp = json.load(open(path))
    vals = [e for e in rp["cases"] if e and e["k"] == "canon"]
    open(ctx.path("vals.ndjson"), "w").write("\n".join(json.dumps({"v": e["v"]}) for e in vals) + ("\n" if vals else ""))
    ctx.run([vd, "c14n-run", "-in", ctx.path("vals.ndjson"), "-seed", str(ctx.seed), "-n", "0", "-out", ctx.path("trace.ndjson")])
    validate(ctx, ctx.path("trace.ndjson"), 2)
    hits = [d for d in ctx.disagreements if d["cls"] == rp["class"]]
    for d in hits[:5]:
        print("REPRODUCED %s" % d["what"])
    if hits:
        print("VIOLATION property=%s replay=%s" % (ctx.pid, path))
        return 1
    print("not reproduced")
    return 0
