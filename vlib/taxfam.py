"""Shared implementation of C02 (tax summary partition) and C20 (combination)."""
import json
from . import core


def amt(a):
    v = 0
    for x in reversed(a["v"]["m"]):
        v = v * 10000 + x
    if a["v"]["n"]:
        v = -v
    s = "%0*d" % (a["e"] + 1, abs(v))
    return ("-" if v < 0 else "") + (s[:-a["e"]] + "." + s[-a["e"]:] if a["e"] else s)


def fmt_combo(c):
    p = amt(c["pct"][0]) if c["pct"] else "exempt"
    s = "+sur " + amt(c["sur"][0]) if c["sur"] else ""
    extra = "".join(" %s=%s" % (k, c[k]) for k in ("country", "ext") if c[k])
    return "%s %s%s%s" % (c["cat"], p, s, extra)


def fmt_summary(t):
    cs = []
    for c in t["cats"]:
        rs = ["[base %s %s amount %s%s]" % (amt(r["base"]), amt(r["pct"][0]) if r["pct"] else "exempt", amt(r["amount"]),
                                             " sur %s" % amt(r["sur"][0]["amount"]) if r["sur"] else "") for r in c["rates"]]
        cs.append("%s%s amount %s%s %s" % (c["code"], " (retained)" if c["ret"] else "", amt(c["amount"]),
                                           " sur %s" % amt(c["sur"][0]) if c["sur"] else "", " ".join(rs)))
    return "{%s | sum %s}" % ("; ".join(cs), amt(t["sum"]))


def describe(ev):
    if ev["k"] == "build":
        rows = "; ".join("%s {%s}" % (amt(r["total"]), ", ".join(fmt_combo(c) for c in r["taxes"])) for r in ev["rows"])
        return "build cd=%d rule=%s includes=%r rows: %s => %s" % (ev["cd"], ev["rr"], ev["inc"], rows,
                                                                  fmt_summary(ev["out"]) if ev["ok"] else "ERROR " + ev["err"])
    if ev["k"] == "payment":
        ls = "; ".join("%s%s%s%s" % ("debit " + amt(l["debit"][0]) + " " if l["debit"] else "", "credit " + amt(l["credit"][0]) + " " if l["credit"] else "",
                                     "" if l["same"] else "x rate " + amt(l["rate"][0]) + " ", "=> " + amt(l["total"])) for l in ev["lines"])
        return "payment (EUR) lines: %s => total %s tax %s" % (ls, amt(ev["total"]), fmt_summary(ev["tax"][0]) if ev["tax"] else "none")
    if ev["k"] == "merge":
        return "merge %s WITH %s => %s" % (fmt_summary(ev["a"]), fmt_summary(ev["b"]), fmt_summary(ev["out"]))
    return "negate %s => %s" % (fmt_summary(ev["a"]), fmt_summary(ev["out"]))


def validate(ctx, trace, shards, kinds):
    res = ctx.validate_trace("TaxTotalsTrace", trace, shards=shards)
    tot = {"events": 0, "multi": 0}
    for sp, chunk, r, _ in res:
        tot["events"] += r["events"]
        tot["multi"] += r["multi"]
        for idx, verdict in r["bad"]:
            ev = json.loads(chunk[idx - 1])
            if ev["k"] not in kinds:
                continue
            if verdict == "error" and ev["err"].startswith("panic"):
                verdict = "panic"
            ctx.disagreements.append({"cls": "tax-%s" % verdict, "what": describe(ev)[:900], "family": "tax", "replay": ev})
    return tot


def run(ctx, kinds, level_text):
    vd = ctx.vdrive()
    q = ctx.quick()
    cases = ctx.path("cases.ndjson")
    ctx.model_check("MCTaxTotals", "MCTaxTotals_quick.cfg" if q else "MCTaxTotals_thorough.cfg", workers=16,
                    env={"OUT": cases}, timeout=3000)
    ctx.run([vd, "tax-replay", "-in", cases, "-out", ctx.path("ev-model.ndjson"), "-pairs", "3000" if q else "40000",
             "-seed", str(ctx.seed)])
    n = 4000 if q else 60000
    ctx.run([vd, "tax-record", "-seed", str(ctx.seed), "-n", str(n), "-out", ctx.path("ev-rand.ndjson")])
    files = ["ev-rand.ndjson", "ev-model.ndjson"]
    if "payment" in kinds:
        ctx.run([vd, "pay-record", "-seed", str(ctx.seed), "-n", "1500" if q else "30000", "-out", ctx.path("ev-pay.ndjson")])
        files.insert(0, "ev-pay.ndjson")
    lines, seen = [], set()
    for f in files:
        for l in open(ctx.path(f)):
            ev_kind = "build" if '"k":"build"' in l[:14] else "comb"
            if ("build" in kinds) != (ev_kind == "build"):
                continue
            if l not in seen:
                seen.add(l)
                lines.append(l)
    open(ctx.path("trace.ndjson"), "w").writelines(lines)
    tot = validate(ctx, ctx.path("trace.ndjson"), 16, kinds)
    samples = [describe(json.loads(lines[i]))[:700] for i in (0, len(lines) // 2, len(lines) - 1)]
    cov = {"traces_validated_against_impl": tot["events"], "samples": samples, "evaluations": tot["events"],
           "distinct_nontrivial": tot["multi"],
           "rule": "distinct events; builds: every sequence of <= %d rows over 13 colliding tax sets x %d totals x 3 currency "
                   "precisions x 2 rules x included/not (exported by TLC) plus seeded random rows (1-8 rows, 0-4 decimals, "
                   "mixed signs); non-trivial = builds with more than one rate group in a category, and every merge/negate "
                   "event" % (2 if q else 3, 5 if q else 6),
           "model_cases": sum(1 for _ in open(cases)), "exhaustive": False}
    return core.finish(ctx, "model_checking", cov, [
        "TLC, BigInt.tla, Decimal.tla, TaxTotals.tla are trusted; explicit percentages are used so that rate tables (C12) do not interfere",
        "precise (unrounded) copies are compared numerically", level_text])


def replay(ctx, path, kinds):
    vd = ctx.vdrive()
    rp = json.load(open(path))
    evs = [e for e in rp["cases"] if e]
    builds = [e for e in evs if e["k"] == "build"]
    if builds:
        open(ctx.path("cases.ndjson"), "w").write(
            "\n".join(json.dumps({"cd": e["cd"], "rr": e["rr"], "inc": e["inc"], "rows": e["rows"]}) for e in builds) + "\n")
        ctx.run([vd, "tax-replay", "-in", ctx.path("cases.ndjson"), "-out", ctx.path("trace.ndjson"), "-pairs", "0"])
    else:
        # combinations are re-derived from a fresh run with the recorded seed
        ctx.run([vd, "tax-record", "-seed", str(ctx.seed), "-n", "4000", "-out", ctx.path("trace.ndjson")])
    validate(ctx, ctx.path("trace.ndjson"), 4, kinds)
    hits = [d for d in ctx.disagreements if d["cls"] == rp["class"]]
    for d in hits[:5]:
        print("REPRODUCED %s" % d["what"])
    if hits:
        print("VIOLATION property=%s replay=%s" % (ctx.pid, path))
        return 1
    print("not reproduced")
    return 0
