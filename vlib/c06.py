"""C06 - amount / percentage text codec.

Spec: NumCodec.tla (scanner DFA + declarative pattern + value + printer).
TLC enumerates every string up to MaxLen over a 12-symbol alphabet with its DFA
state (MCNumCodec), checks DFA = pattern and print/read round trips on the
reference, and exports the strings; each is given to 4 readers x 2 types of
the real code.  A seeded driver adds write->read->write round trips over
int64 x exponents 0..18 and over-long digit strings.  NumCodecTrace judges."""
import json, os, re
from . import core


def txt(cp):
    return "".join(chr(c) for c in cp)


def classify(ev, verdict):
    """Class of a divergence from features of the input and the kind of divergence."""
    if ev["k"] == "rt":
        a = ev["a"]
        v = 0
        for x in reversed(a["v"]["m"]):
            v = v * 10000 + x
        feat = "minint64" if (a["v"]["n"] == 1 and v == 2 ** 63) else "other"
        return "codec-%s:%s:%s" % (verdict, ev["ty"], feat)
    s = txt(ev["in"])
    if ev["rd"] == "json-bare":
        t = s.strip(" ")
        if len(t) >= 2 and t[0] == '"' and t[-1] == '"':
            t = t[1:-1]
        s = t
    ty = ev["ty"]
    body = s[:-1] if (ty == "percentage" and s.endswith("%")) else s
    digits = re.sub(r"[^0-9]", "", body)
    if verdict == "accepts-nonmember":
        if ty == "percentage" and s == "":
            feat = "pct-empty"
        elif ty == "percentage" and not s.endswith("%") and re.fullmatch(r"-?[0-9]+(\.[0-9]+)?", s):
            feat = "pct-without-symbol"
        elif re.fullmatch(r"-?[0-9]+(\.[0-9]+)?", body):
            feat = "out-of-range"
        elif re.fullmatch(r"[-+]*[0-9]+(\.[-+]?[0-9]+)?", body):
            feat = "misplaced-sign"
        else:
            feat = "other"
    elif verdict == "rejects-member":
        feat = "minint64" if digits.lstrip("0") == str(2 ** 63) and body.startswith("-") else "other"
    else:
        feat = "large" if len(digits.lstrip("0")) >= 17 else "other"
    return "codec-%s:%s:%s:%s" % (verdict, ty, feat, ev["rd"])


def describe(ev, verdict):
    if ev["k"] == "rt":
        return "%s %s value (%s) written by %s as %r, read back ok=%s -> %s" % (
            verdict, ev["ty"], json.dumps(ev["a"]), ev["wr"], txt(ev["out"]), ev["ok"], txt(ev["out2"]))
    return "%s: %s reader %s on %r -> ok=%s value=%s e=%d" % (
        verdict, ev["ty"], ev["rd"], txt(ev["in"]), ev["ok"], json.dumps(ev["v"]), ev["e"])


def validate(ctx, trace, shards):
    pats = ctx.path("patterns.json")
    if not os.path.exists(pats):
        ctx.run([ctx.vdrive(), "codec-patterns", "-repo", core.REPO, "-out", pats])
    res = ctx.validate_trace("NumCodecTrace", trace, shards=shards, env={"PATTERNS": pats})
    tot = {"events": 0, "members": 0, "near": 0}
    for sp, chunk, r, _ in res:
        for k in tot:
            tot[k] += r[k]
        for idx, verdict in r["bad"]:
            ev = json.loads(chunk[idx - 1])
            if "!panic" in ev.get("rd", "") + ev.get("wr", ""):
                verdict = "panic"
            ctx.disagreements.append({"cls": classify(ev, verdict), "what": describe(ev, verdict),
                                      "family": "codec", "replay": ev})
    return tot


def run(ctx):
    vd = ctx.vdrive()
    cfg = "MCNumCodec_quick.cfg" if ctx.quick() else "MCNumCodec_thorough.cfg"
    strs = ctx.path("strs.ndjson")
    ctx.model_check("MCNumCodec", cfg, workers=16, env={"OUT": strs})
    ctx.run([vd, "codec-replay", "-in", strs, "-out", ctx.path("ev-model.ndjson")])
    n = 8000 if ctx.quick() else 200000
    ctx.run([vd, "codec-record", "-seed", str(ctx.seed), "-n", str(n), "-out", ctx.path("ev-rand.ndjson")])
    lines, seen = [], set()
    for f in ("ev-rand.ndjson", "ev-model.ndjson"):
        for l in open(ctx.path(f)):
            if l not in seen:
                seen.add(l)
                lines.append(l)
    open(ctx.path("trace.ndjson"), "w").writelines(lines)
    tot = validate(ctx, ctx.path("trace.ndjson"), shards=16)
    sm = [json.loads(lines[i]) for i in (0, len(lines) // 3, len(lines) - 1)]
    cov = {"traces_validated_against_impl": tot["events"],
           "samples": [describe(e, "sample") for e in sm],
           "evaluations": tot["events"],
           "distinct_nontrivial": tot["members"] + tot["near"],
           "rule": "distinct (reader, type, text) and (writer, type, value) events; non-trivial reads = pattern members "
                   "that fit (%d) plus near misses, i.e. rejected texts containing at least one digit (%d); counted by TLC"
                   % (tot["members"], tot["near"]),
           "strings_enumerated": sum(1 for _ in open(strs)), "exhaustive": True,
           "exhaustive_scope": "all strings up to length %d over 12 symbols x 4 readers x 2 types" % (4 if ctx.quick() else 5)}
    return core.finish(ctx, "model_checking", cov, [
        "TLC and NumCodec.tla (transcription of the two published patterns) are trusted",
        "percentage round trips are judged inside the 2^52 domain of the x100 intermediate (C05's domain)",
        "the json-bare reader is judged on the token the JSON decoder extracts (surrounding white space, quoted strings)"])


def replay(ctx, path):
    vd = ctx.vdrive()
    rp = json.load(open(path))
    evs = rp["cases"]
    # re-execute: reads via codec-replay on the inputs, rt via a tiny record of the same value
    ins = ctx.path("strs.ndjson")
    open(ins, "w").write("\n".join(json.dumps({"in": e["in"]}) for e in evs if e["k"] == "read") + "\n")
    ctx.run([vd, "codec-replay", "-in", ins, "-out", ctx.path("trace.ndjson")])
    if any(e["k"] == "rt" for e in evs):
        ctx.run([vd, "codec-record", "-seed", "1", "-n", "0", "-out", ctx.path("rt.ndjson")])
        with open(ctx.path("trace.ndjson"), "a") as f:
            f.write(open(ctx.path("rt.ndjson")).read())
    want = {d for d in [rp["class"]]}
    validate(ctx, ctx.path("trace.ndjson"), shards=1)
    hits = [d for d in ctx.disagreements if d["cls"] in want]
    for d in hits[:10]:
        print("REPRODUCED %s" % d["what"])
    if hits:
        print("VIOLATION property=%s replay=%s" % (ctx.pid, path))
        return 1
    print("not reproduced")
    return 0
