"""C05 - decimal amount arithmetic is exact, round half away from zero.

Spec: BigInt.tla, Decimal.tla.  TLC (1) checks the declarative laws on the
reference over a boundary-directed small scope (MCDecimal) and exports the
explored cases; (2) the cases are replayed on num.Amount/num.Percentage and a
seeded tie-directed generator over the 2^52 domain records further calls;
(3) DecimalTrace re-evaluates every recorded call and rejects any event whose
logged result differs from the reference."""
import json, os
from . import core


def big(b):
    v = 0
    for x in reversed(b["m"]):
        v = v * 10000 + x
    return -v if b["n"] else v


def amt(a):
    return "%de-%d" % (big(a["v"]), a["e"])


def describe(ev):
    r = ev["r"]
    if r.get("t") == "a":
        rs = amt(r)
    elif r.get("t") == "p":
        rs = "(%s, %s)" % (amt({"v": r["v"], "e": r["e"]}), amt({"v": r["v2"], "e": r["e2"]}))
    else:
        rs = json.dumps(r)
    return "%s(a=%s, b=%s, k=%d) returned %s" % (ev["op"], amt(ev["a"]), amt(ev["b"]), ev["k"], rs)


def validate(ctx, trace, shards):
    res = ctx.validate_trace("DecimalTrace", trace, shards=shards)
    tot = {"events": 0, "ood": 0, "rounded": 0, "ties": 0}
    for sp, chunk, r, _ in res:
        for k in tot:
            tot[k] += r[k]
        for idx in r["bad"]:
            ev = json.loads(chunk[idx - 1])
            cls = "dec-mismatch:" + ev["op"] if ev["r"].get("t") != "panic" else "dec-panic:" + ev["op"]
            ctx.disagreements.append({"cls": cls, "what": describe(ev), "family": "dec",
                                      "replay": {k: ev[k] for k in ("op", "a", "b", "k")}})
    return tot


def run(ctx):
    vd = ctx.vdrive()
    cfg = "MCDecimal_quick.cfg" if ctx.quick() else "MCDecimal_thorough.cfg"
    cases = ctx.path("cases.ndjson")
    mc = ctx.model_check("MCDecimal", cfg, workers=16, env={"OUT": cases}, timeout=2400)
    ctx.run([vd, "dec-replay", "-in", cases, "-out", ctx.path("ev-model.ndjson")])
    n = 30000 if ctx.quick() else 600000
    ctx.run([vd, "dec-record", "-seed", str(ctx.seed), "-n", str(n), "-out", ctx.path("ev-rand.ndjson")])
    lines, seen = [], set()
    for f in ("ev-model.ndjson", "ev-rand.ndjson"):
        for l in open(ctx.path(f)):
            if l not in seen:
                seen.add(l)
                lines.append(l)
    open(ctx.path("trace.ndjson"), "w").writelines(lines)
    tot = validate(ctx, ctx.path("trace.ndjson"), shards=16)
    samples = [describe(json.loads(l)) for l in (lines[1], lines[len(lines) // 2], lines[-1], lines[-2])]
    cov = {"traces_validated_against_impl": tot["events"],
           "samples": samples,
           "evaluations": tot["events"],
           "distinct_nontrivial": tot["rounded"],
           "rule": "distinct events (op, operands, argument) of the real API; non-trivial = the exact result is not "
                   "representable at the result precision, i.e. the call actually rounded (counted by TLC); "
                   "ties = exact result half way between two representable values",
           "ties": tot["ties"], "out_of_domain_skipped": tot["ood"],
           "model_cases_replayed": sum(1 for _ in open(cases)),
           "random_events": n, "exhaustive": False}
    return core.finish(ctx, "model_checking", cov, [
        "BigInt.tla (pure TLA+ bignum) and TLC are trusted",
        "domain of the property: operands and exact intermediates within 2^52 units (checked by TLC per event)",
        "conversion int64 <-> limb arrays in harness/internal/tr is mechanical"])


def replay(ctx, path):
    vd = ctx.vdrive()
    rp = json.load(open(path))
    cases = ctx.path("cases.ndjson")
    open(cases, "w").write("\n".join(json.dumps(c) for c in rp["cases"]) + "\n")
    ctx.run([vd, "dec-replay", "-in", cases, "-out", ctx.path("trace.ndjson")])
    tot = validate(ctx, ctx.path("trace.ndjson"), shards=1)
    for d in ctx.disagreements:
        print("REPRODUCED %s" % d["what"])
    if ctx.disagreements:
        print("VIOLATION property=%s replay=%s" % (ctx.pid, path))
        return 1
    print("not reproduced: all %d events accepted" % tot["events"])
    return 0
