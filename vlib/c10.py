"""C10 - envelope life-cycle outcomes follow the abstract state.

Spec: Envelope.tla.  (1) TLC explores every history up to Depth operations
over the full alphabet and 4 base documents and checks the design invariants.
(2) The harness explores the REAL implementation's state graph breadth-first
under the same projection and alphabet: every operation is applied in every
distinct projected state; each transition is logged as a trace.  (3)
EnvelopeTrace.tla replays every trace action by action, requiring the logged
outcome and the logged projection to equal the specification's.  (4) The
number of distinct states found by TLC and by the harness at the same depth
must be equal (bisimulation evidence).  (5) Seeded long random histories."""
import json, re
from . import core


def history(lines, idx):
    """Reconstruct the history (base + ops) of the trace containing line idx (0-based)."""
    j = idx
    while json.loads(lines[j])["op"] != "Init":
        j -= 1
    base = json.loads(lines[j])["base"]
    ops = []
    for l in lines[j + 1:idx + 1]:
        e = json.loads(l)
        ops.append({"op": e["op"], "a": e["a"], "b": e["b"], "k": e["k"]})
    return {"base": base, "ops": ops}


def fmt_hist(h):
    def f(o):
        args = [x for x in (o.get("a"), o.get("b")) if x]
        if o["op"] == "Verify":
            args = ["[" + ",".join(o["k"]) + "]"]
        return o["op"] + ("(" + ",".join(args) + ")" if args else "")
    return h["base"] + ": " + "; ".join(f(o) for o in h["ops"])


def validate(ctx, trace, shards):
    res = ctx.validate_trace("EnvelopeTrace", trace, shards=shards, boundary='"op":"Init"')
    tot = {"events": 0, "steps": 0, "traces": 0}
    for sp, chunk, r, _ in res:
        tot["events"] += r["events"]
        tot["steps"] += r["steps"]
        tot["traces"] += sum(1 for l in chunk if '"op":"Init"' in l)
        for b in r["bad"]:
            idx, kind = b[0] - 1, b[1]
            ev = json.loads(chunk[idx])
            h = history(chunk, idx)
            if kind == "outcome":
                got = re.sub(r"panic:.*", "panic", ev["out"])
                got = re.sub(r"error:.*", "error", got)
                got = re.sub(r"accepted:.*", "accepted", got)
                cls = "env-outcome:%s:spec=%s:impl=%s" % (ev["op"], b[2], got)
                what = "%s -> specification says %s, implementation returned %s" % (fmt_hist(h), b[2], ev["out"])
            else:
                cls = "env-%s:%s" % (kind, ev["op"])
                what = "%s -> projected state of the real envelope differs from the specification: %s" % (
                    fmt_hist(h), json.dumps(ev["st"])[:300])
            ctx.disagreements.append({"cls": cls, "what": what, "family": "env", "replay": h})
    return tot


def run(ctx):
    vd = ctx.vdrive()
    q = ctx.quick()
    # one worker: strict breadth-first order, so that the depth bound (TLCGet("level")) and hence the
    # distinct-state count is deterministic and comparable with the harness's own exploration
    mc = ctx.model_check("MCEnvelope", "MCEnvelope_quick.cfg" if q else "MCEnvelope_thorough.cfg", workers=1, timeout=2400)
    if not q:
        # design-level only: all histories of up to 6 operations (order of exploration irrelevant for invariants)
        ctx.model_check("MCEnvelope", "MCEnvelope_deep.cfg", workers=16, timeout=3000)
    depth = 3 if q else 4
    maxtr = 1000000
    p = ctx.run([vd, "env-explore", "-depth", str(depth), "-max", str(maxtr), "-out", ctx.path("explore.ndjson")], timeout=3000)
    m = re.search(r"events=(\d+) traces=(\d+) distinct_states=(\d+)", p.stdout)
    go_states, go_traces = int(m.group(3)), int(m.group(2))
    complete = go_traces < maxtr
    n, ln = (300, 30) if q else (6000, 40)
    ctx.run([vd, "env-random", "-seed", str(ctx.seed), "-n", str(n), "-len", str(ln), "-out", ctx.path("random.ndjson")])
    t1 = validate(ctx, ctx.path("explore.ndjson"), 16)
    t2 = validate(ctx, ctx.path("random.ndjson"), 16)
    # bisimulation evidence: same number of distinct states at the same depth
    if complete and not ctx.disagreements:
        if go_states != mc["distinct"]:
            ctx.disagreements.append({"cls": "env-statecount", "family": "env", "replay": {"base": "inv", "ops": []},
                                      "what": "implementation reaches %d distinct projected states within %d operations, "
                                              "the specification %d" % (go_states, depth, mc["distinct"])})
    lines = open(ctx.path("explore.ndjson")).read().splitlines()
    rl = open(ctx.path("random.ndjson")).read().splitlines()
    samples = [fmt_hist(history(lines, len(lines) // 2)), fmt_hist(history(lines, len(lines) - 1)),
               fmt_hist(history(rl, len(rl) - 1))[:600]]
    failing = sum(1 for l in lines + rl if '"out":"ok"' not in l)
    cov = {"traces_validated_against_impl": t1["traces"] + t2["traces"], "samples": samples,
           "evaluations": t1["events"] + t2["events"], "distinct_nontrivial": failing,
           "rule": "one trace per (distinct projected state, operation) of the implementation's state graph to depth %d "
                   "(complete=%s) plus %d seeded random histories of up to %d operations; non-trivial = logged steps whose "
                   "outcome is not ok (refusals, validation/digest/verification failures)" % (depth, complete, n, ln),
           "impl_distinct_states": go_states, "spec_distinct_states_same_depth": mc["distinct"],
           "explore_depth": depth, "explore_complete": complete, "steps_validated": t1["steps"] + t2["steps"],
           "exhaustive": complete}
    return core.finish(ctx, "model_checking", cov, [
        "TLC and Envelope.tla are trusted; the projection function (harness/cmd/vdrive/env.go: project) is the binding",
        "documents are abstracted to kind/edit-counter/code/validity; other document behaviour is covered by other properties",
        "ES256 keys generated per run; signature cryptography itself (go-jose) is trusted"])


def replay(ctx, path):
    vd = ctx.vdrive()
    rp = json.load(open(path))
    open(ctx.path("h.ndjson"), "w").write("\n".join(json.dumps(c) for c in rp["cases"]) + "\n")
    ctx.run([vd, "env-replay", "-in", ctx.path("h.ndjson"), "-out", ctx.path("t.ndjson")])
    validate(ctx, ctx.path("t.ndjson"), 1)
    for d in ctx.disagreements[:10]:
        print("REPRODUCED %s" % d["what"])
    if ctx.disagreements:
        print("VIOLATION property=%s replay=%s" % (ctx.pid, path))
        return 1
    print("not reproduced: every step accepted")
    return 0
