-------------------------------- MODULE TaxID --------------------------------
(***************************************************************************)
(* National tax identity codes (C13): format and check-digit rules written *)
(* from the published national algorithms, and the normal form of a code.  *)
(* A code is a sequence of code points.  Valid(cc, c) speaks about codes   *)
(* in normal form (upper case, letters and digits only, no country prefix).*)
(***************************************************************************)
EXTENDS Integers, Sequences, FiniteSets, TLC

IsDigit(x) == x >= 48 /\ x <= 57
IsUpper(x) == x >= 65 /\ x <= 90
IsLower(x) == x >= 97 /\ x <= 122
D(c, i) == c[i] - 48
Digits(c, lo, hi) == \A i \in lo..hi : IsDigit(c[i])
AllDigits(c) == Digits(c, 1, Len(c))
RECURSIVE WSum(_, _, _, _)
\* sum of digit(c[i]) * w[i - lo + 1] for i in lo..hi
WSum(c, w, lo, hi) == IF lo > hi THEN 0 ELSE D(c, lo) * w[1] + WSum(c, Tail(w), lo + 1, hi)
RECURSIVE NumMod(_, _, _, _, _)
\* the number written by c[lo..hi] modulo m
NumMod(c, lo, hi, m, acc) == IF lo > hi THEN acc ELSE NumMod(c, lo + 1, hi, m, (acc * 10 + D(c, lo)) % m)
DigSum(n) == (n \div 10) + (n % 10)
Str(s) == s      \* readability

---------------------------------------------------------------------------
(* normal form *)
Up(x) == IF IsLower(x) THEN x - 32 ELSE x
RECURSIVE Clean(_, _)
Clean(s, i) == IF i > Len(s) THEN <<>>
               ELSE LET x == Up(s[i]) IN (IF IsDigit(x) \/ IsUpper(x) THEN <<x>> ELSE <<>>) \o Clean(s, i + 1)
HasPrefix(s, p) == Len(s) >= Len(p) /\ SubSeq(s, 1, Len(p)) = p
StripPrefix(s, p) == IF HasPrefix(s, p) THEN SubSeq(s, Len(p) + 1, Len(s)) ELSE s
HasSuffix(s, p) == Len(s) >= Len(p) /\ SubSeq(s, Len(s) - Len(p) + 1, Len(s)) = p
StripSuffix(s, p) == IF HasSuffix(s, p) THEN SubSeq(s, 1, Len(s) - Len(p)) ELSE s
CC(cc) == CASE cc = "AT" -> <<65, 84>> [] cc = "BE" -> <<66, 69>> [] cc = "BR" -> <<66, 82>> [] cc = "CH" -> <<67, 72>>
            [] cc = "CO" -> <<67, 79>> [] cc = "DE" -> <<68, 69>> [] cc = "ES" -> <<69, 83>> [] cc = "FR" -> <<70, 82>>
            [] cc = "GB" -> <<71, 66>> [] cc = "EL" -> <<69, 76>> [] cc = "IT" -> <<73, 84>> [] cc = "NL" -> <<78, 76>>
            [] cc = "PL" -> <<80, 76>> [] cc = "PT" -> <<80, 84>> [] cc = "IN" -> <<73, 78>>
\* upper case, separators and symbols dropped, one leading country prefix dropped (EL also GR)
\* FR: a bare SIREN (9 digits with a correct Luhn check digit) is promoted to the VAT number by prepending
\* the two-digit key (12 + 3 (SIREN mod 97)) mod 97; anything else is left for validation to refuse
LuhnSum(c) == LET n == Len(c)
                  RECURSIVE L(_, _) L(i, acc) == IF i < 1 THEN acc
                                                 ELSE L(i - 1, acc + (IF (n - i) % 2 = 1 THEN DigSum(2 * D(c, i)) ELSE D(c, i)))
              IN L(n, 0)
IsSiren(c) == Len(c) = 9 /\ AllDigits(c) /\ LuhnSum(c) % 10 = 0
FRkey(c) == LET k == (12 + 3 * NumMod(c, 1, 9, 97, 0)) % 97 IN <<48 + (k \div 10), 48 + (k % 10)>>
Normalize(cc, s) ==
    LET a == StripPrefix(Clean(s, 1), CC(cc))
        b == IF cc = "EL" THEN StripPrefix(a, <<71, 82>>) ELSE a
    IN  IF cc = "CH" THEN StripSuffix(StripSuffix(StripSuffix(b, <<77, 87, 83, 84>>), <<84, 86, 65>>), <<73, 86, 65>>)
        ELSE IF cc = "FR" /\ IsSiren(b) THEN FRkey(b) \o b ELSE b

---------------------------------------------------------------------------
(* national rules on normal forms *)

\* AT: U + 8 digits; digits 1..7 weighted alternately 1,2 (cross sum of the doubled ones); check = (10 - (s + 4) mod 10) mod 10
ATs(c, i) == IF i % 2 = 1 THEN D(c, i + 1) ELSE DigSum(2 * D(c, i + 1))
ValidAT(c) == /\ Len(c) = 9 /\ c[1] = 85 /\ Digits(c, 2, 9)
              /\ LET s == ATs(c, 1) + ATs(c, 2) + ATs(c, 3) + ATs(c, 4) + ATs(c, 5) + ATs(c, 6) + ATs(c, 7)
                 IN  D(c, 9) = (10 - ((s + 4) % 10)) % 10

\* BE: the last two digits = 97 - (first eight mod 97)
\* format as the regime documents it: ten digits starting with 0 followed by a non-zero digit
\* the nine digit form (the leading 0 left out) is accepted as well and stands for the same number
BEcheck(c) == D(c, 9) * 10 + D(c, 10) = 97 - NumMod(c, 1, 8, 97, 0)
ValidBE10(c) == /\ Len(c) = 10 /\ AllDigits(c) /\ D(c, 1) = 0 /\ D(c, 2) # 0 /\ BEcheck(c)
ValidBE(c) == IF Len(c) = 9 THEN AllDigits(c) /\ ValidBE10(<<48>> \o c) ELSE ValidBE10(c)

\* BR (CNPJ): 14 digits, two check digits, weights 5,4,3,2,9,8,7,6,5,4,3,2 and 6,5,4,3,2,9,...; r = sum mod 11; digit = 0 if r < 2 else 11 - r
BRd(r) == IF r < 2 THEN 0 ELSE 11 - r
ValidBR(c) == /\ Len(c) = 14 /\ AllDigits(c)
              /\ D(c, 13) = BRd(WSum(c, <<5, 4, 3, 2, 9, 8, 7, 6, 5, 4, 3, 2>>, 1, 12) % 11)
              /\ D(c, 14) = BRd(WSum(c, <<6, 5, 4, 3, 2, 9, 8, 7, 6, 5, 4, 3, 2>>, 1, 13) % 11)

\* CH: E + 9 digits; weights 5,4,3,2,7,6,5,4; check = 11 - sum mod 11, 11 -> 0, 10 is never valid
ValidCH(c) == /\ Len(c) = 10 /\ c[1] = 69 /\ Digits(c, 2, 10)
              /\ LET k == 11 - (WSum(c, <<5, 4, 3, 2, 7, 6, 5, 4>>, 2, 9) % 11)
                 IN  k # 10 /\ D(c, 10) = (IF k = 11 THEN 0 ELSE k)

\* CO (NIT): up to 15 body digits + check; primes 3,7,13,... from the right; r = sum mod 11; check = r if r < 2 else 11 - r
COw == <<3, 7, 13, 17, 19, 23, 29, 37, 41, 43, 47, 53, 59, 67, 71>>
RECURSIVE COsum(_, _, _)
COsum(c, i, k) == IF i < 1 THEN 0 ELSE D(c, i) * COw[k] + COsum(c, i - 1, k + 1)
ValidCO(c) == /\ Len(c) >= 9 /\ Len(c) <= 10 /\ AllDigits(c)        \* lengths as the regime documents them
              /\ LET r == COsum(c, Len(c) - 1, 1) % 11
                 IN  D(c, Len(c)) = (IF r < 2 THEN r ELSE 11 - r)

\* DE: 9 digits, ISO 7064 mod 11,10
RECURSIVE DEprod(_, _, _)
DEprod(c, i, p) == IF i > 8 THEN p
                   ELSE LET s0 == (D(c, i) + p) % 10
                            s  == IF s0 = 0 THEN 10 ELSE s0
                        IN  DEprod(c, i + 1, (2 * s) % 11)
ValidDE(c) == /\ Len(c) = 9 /\ AllDigits(c) /\ D(c, 1) # 0
              /\ LET k == 11 - DEprod(c, 1, 10) IN D(c, 9) = (IF k = 10 THEN 0 ELSE k)

\* ES: NIF 8 digits + letter; NIE X/Y/Z + 7 digits + letter; CIF letter + 7 digits + control digit or letter
ESletters == <<84, 82, 87, 65, 71, 77, 89, 70, 80, 68, 88, 66, 78, 74, 90, 83, 81, 86, 72, 76, 67, 75, 69>>   \* TRWAGMYFPDXBNJZSQVHLCKE
ESnif(c) == /\ Len(c) = 9 /\ Digits(c, 1, 8) /\ c[9] = ESletters[NumMod(c, 1, 8, 23, 0) + 1]
            /\ \E j \in 1..8 : D(c, j) # 0                                     \* 00000000 is not issued
ESnie(c) == /\ Len(c) = 9 /\ c[1] \in {88, 89, 90} /\ Digits(c, 2, 8)
            /\ c[9] = ESletters[NumMod(c, 2, 8, 23, c[1] - 88) + 1]
EScifControl(c) == LET even == D(c, 3) + D(c, 5) + D(c, 7)
                       odd  == DigSum(2 * D(c, 2)) + DigSum(2 * D(c, 4)) + DigSum(2 * D(c, 6)) + DigSum(2 * D(c, 8))
                   IN  (10 - ((even + odd) % 10)) % 10
ESletterCtl == <<74, 65, 66, 67, 68, 69, 70, 71, 72, 73>>      \* JABCDEFGHI
\* entity letters as the regime lists them; the control may be written as digit or as letter (the arithmetic is
\* what is adjudicated: sources disagree on which entity types must use which spelling, the regime accepts both)
EScif(c) == /\ Len(c) = 9 /\ c[1] \in {65, 66, 67, 68, 69, 70, 71, 72, 74, 78, 80, 81, 82, 83, 85, 86, 87, 75, 76, 77} /\ Digits(c, 2, 8)
            /\ LET k == EScifControl(c) IN c[9] = 48 + k \/ c[9] = ESletterCtl[k + 1]
ValidES(c) == ESnif(c) \/ ESnie(c) \/ EScif(c)

\* FR: 2-digit key + 9-digit SIREN, key = (12 + 3 (SIREN mod 97)) mod 97
ValidFR(c) == /\ Len(c) = 11 /\ AllDigits(c)
              /\ D(c, 1) * 10 + D(c, 2) = (12 + 3 * NumMod(c, 3, 11, 97, 0)) % 97

\* GB (standard 9-digit numbers): weights 8..2 on the first seven, the last two make the total divisible by 97
\* (old scheme) or the total plus 55 (numbers issued since 2010)
\* with the number ranges in which each scheme was issued, as the regime documents them
GBnum(c) == ((((((D(c, 1) * 10 + D(c, 2)) * 10 + D(c, 3)) * 10 + D(c, 4)) * 10 + D(c, 5)) * 10 + D(c, 6)) * 10 + D(c, 7))
ValidGB(c) == /\ Len(c) = 9 /\ AllDigits(c) /\ \E j \in 1..9 : D(c, j) # 0
              /\ LET t == WSum(c, <<8, 7, 6, 5, 4, 3, 2>>, 1, 7) + D(c, 8) * 10 + D(c, 9)
                     n == GBnum(c)
                     k == D(c, 8) * 10 + D(c, 9)          \* the two check digits: 1..97 (old scheme), 0..96 (9755 scheme)
                 IN  \/ t % 97 = 0 /\ k >= 1 /\ k <= 97 /\ n < 9990001 /\ (n < 100000 \/ n > 999999) /\ (n < 9490001 \/ n > 9700000)
                     \/ (t + 55) % 97 = 0 /\ k <= 96 /\ n > 1000000

\* EL: 9 digits; sum d_i 2^(9-i) for i = 1..8, mod 11 mod 10 = d9
ValidEL(c) == /\ Len(c) = 9 /\ AllDigits(c)
              /\ D(c, 9) = (WSum(c, <<256, 128, 64, 32, 16, 8, 4, 2>>, 1, 8) % 11) % 10

\* IT: 11 digits; odd positions as they are, even positions doubled (minus 9 when above 9); check = (10 - s mod 10) mod 10
ITe(d) == IF 2 * d > 9 THEN 2 * d - 9 ELSE 2 * d
ValidIT(c) == /\ Len(c) = 11 /\ AllDigits(c)
              /\ LET s == D(c, 1) + ITe(D(c, 2)) + D(c, 3) + ITe(D(c, 4)) + D(c, 5) + ITe(D(c, 6)) + D(c, 7) + ITe(D(c, 8)) + D(c, 9) + ITe(D(c, 10))
                 IN  D(c, 11) = (10 - (s % 10)) % 10

\* NL: 9 digits + B + 2 digits; weights 9..2 on the first eight, sum mod 11 = ninth digit (a remainder of 10 is never valid)
\* or (identification numbers issued to sole traders since 2020) "NL" + the twelve characters read as a number, with
\* N = 23, L = 21, B = 11, leaves remainder 1 modulo 97
NLmod97(c) == LET a == NumMod(c, 1, 9, 97, (2321 % 97))            \* "NL" -> 2321, then nine digits
                  b == (a * 100 + 11) % 97                          \* "B" -> 11
              IN  NumMod(c, 11, 12, 97, b) = 1
ValidNL(c) == /\ Len(c) = 12 /\ Digits(c, 1, 9) /\ c[10] = 66 /\ Digits(c, 11, 12)
              /\ \/ LET r == WSum(c, <<9, 8, 7, 6, 5, 4, 3, 2>>, 1, 8) % 11 IN r # 10 /\ D(c, 9) = r
                 \/ NLmod97(c)

\* PL: 10 digits; weights 6,5,7,2,3,4,5,6,7; sum mod 11 = last digit (10 never valid)
ValidPL(c) == /\ Len(c) = 10 /\ AllDigits(c) /\ D(c, 1) # 0 /\ (D(c, 2) # 0 \/ D(c, 3) # 0)     \* office prefix as documented
              /\ LET r == WSum(c, <<6, 5, 7, 2, 3, 4, 5, 6, 7>>, 1, 9) % 11 IN r # 10 /\ D(c, 10) = r

\* PT: 9 digits; weights 9..2; check = 11 - sum mod 11, 10 and 11 -> 0
PTprefix(c) == D(c, 1) \in {1, 2, 3, 5, 6, 8} \/ (D(c, 1) * 10 + D(c, 2)) \in {45, 70, 71, 72, 74, 75, 77, 78, 79, 90, 91, 98, 99}
ValidPT(c) == /\ Len(c) = 9 /\ AllDigits(c) /\ PTprefix(c)
              /\ LET k == 11 - (WSum(c, <<9, 8, 7, 6, 5, 4, 3, 2>>, 1, 8) % 11) IN D(c, 9) = (IF k >= 10 THEN 0 ELSE k)

Regimes == {"AT", "BE", "BR", "CH", "CO", "DE", "ES", "FR", "GB", "EL", "IT", "NL", "PL", "PT"}
Valid(cc, c) ==
    CASE cc = "AT" -> ValidAT(c) [] cc = "BE" -> ValidBE(c) [] cc = "BR" -> ValidBR(c) [] cc = "CH" -> ValidCH(c)
      [] cc = "CO" -> ValidCO(c) [] cc = "DE" -> ValidDE(c) [] cc = "ES" -> ValidES(c) [] cc = "FR" -> ValidFR(c)
      [] cc = "GB" -> ValidGB(c) [] cc = "EL" -> ValidEL(c) [] cc = "IT" -> ValidIT(c) [] cc = "NL" -> ValidNL(c)
      [] cc = "PL" -> ValidPL(c) [] cc = "PT" -> ValidPT(c)

\* schemes in which every single-digit change of a valid code is detected (prime modulus with invertible weights, Luhn-type)
DetectsSingleDigit == {"AT", "BE", "CH", "DE", "FR", "IT", "PL"}
=============================================================================
