------------------------------ MODULE BigInt ------------------------------
(***************************************************************************)
(* Signed arbitrary-precision integers in pure TLA+.                       *)
(*                                                                         *)
(* TLC's integers are 32-bit, GOBL's amounts are 64-bit and their          *)
(* products need ~128 bits, so every money computation of the              *)
(* specification suite goes through this module.  A big integer is a       *)
(* record [n |-> 0|1, m |-> limbs]: n = 1 means negative, m is the         *)
(* magnitude as a little-endian sequence of base-10^4 limbs without        *)
(* leading (i.e. trailing in the sequence) zero limbs; zero is             *)
(* [n |-> 0, m |-> <<>>].  The representation is canonical, so TLA+        *)
(* equality on records is numeric equality.                                *)
(***************************************************************************)
EXTENDS Integers, Sequences

B == 10000      \* limb base; (B-1)^2 + B < 2^31

---------------------------------------------------------------------------
(* magnitudes: sequences of limbs *)

RECURSIVE MNorm(_)
MNorm(m) == IF m = <<>> THEN <<>>
            ELSE IF m[Len(m)] = 0 THEN MNorm(SubSeq(m, 1, Len(m) - 1)) ELSE m

Limb(m, i) == IF i <= Len(m) THEN m[i] ELSE 0

RECURSIVE MAddC(_, _, _, _)
MAddC(a, b, i, c) ==
    IF i > Len(a) /\ i > Len(b) THEN (IF c = 0 THEN <<>> ELSE <<c>>)
    ELSE LET x == Limb(a, i) + Limb(b, i) + c
         IN  <<x % B>> \o MAddC(a, b, i + 1, x \div B)
MAdd(a, b) == MAddC(a, b, 1, 0)

RECURSIVE MCmpAt(_, _, _)
MCmpAt(a, b, i) == \* compare limbs from position i downwards, equal lengths assumed
    IF i = 0 THEN 0
    ELSE IF a[i] < b[i] THEN -1
    ELSE IF a[i] > b[i] THEN 1
    ELSE MCmpAt(a, b, i - 1)
MCmp(a, b) == IF Len(a) < Len(b) THEN -1
              ELSE IF Len(a) > Len(b) THEN 1
              ELSE MCmpAt(a, b, Len(a))

RECURSIVE MSubC(_, _, _, _)
MSubC(a, b, i, c) == \* a >= b required
    IF i > Len(a) THEN <<>>
    ELSE LET x == a[i] - Limb(b, i) - c
         IN  IF x < 0 THEN <<x + B>> \o MSubC(a, b, i + 1, 1)
                      ELSE <<x>> \o MSubC(a, b, i + 1, 0)
MSub(a, b) == MNorm(MSubC(a, b, 1, 0))

RECURSIVE MMulSmallC(_, _, _, _)
MMulSmallC(a, k, i, c) ==
    IF i > Len(a) THEN (IF c = 0 THEN <<>> ELSE <<c>>)
    ELSE LET x == a[i] * k + c
         IN  <<x % B>> \o MMulSmallC(a, k, i + 1, x \div B)
MMulSmall(a, k) == IF k = 0 THEN <<>> ELSE MMulSmallC(a, k, 1, 0)   \* 0 <= k < B

RECURSIVE MZeros(_)
MZeros(n) == IF n = 0 THEN <<>> ELSE <<0>> \o MZeros(n - 1)
MShift(a, n) == IF a = <<>> THEN <<>> ELSE MZeros(n) \o a              \* a * B^n

RECURSIVE MMulAt(_, _, _)
MMulAt(a, b, j) == IF j > Len(b) THEN <<>>
                   ELSE MAdd(MShift(MMulSmall(a, b[j]), j - 1), MMulAt(a, b, j + 1))
MMul(a, b) == IF a = <<>> \/ b = <<>> THEN <<>> ELSE MMulAt(a, b, 1)

RECURSIVE MDivSmallAt(_, _, _, _)
\* long division by a small k (0 < k < B) from the top limb; returns <<quotient limbs (little endian), remainder>>
MDivSmallAt(a, k, i, r) ==
    IF i = 0 THEN <<<<>>, r>>
    ELSE LET cur == r * B + a[i]
             q   == cur \div k
             rest == MDivSmallAt(a, k, i - 1, cur % k)
         IN  <<Append(rest[1], q), rest[2]>>
MDivSmall(a, k) == LET x == MDivSmallAt(a, k, Len(a), 0) IN <<MNorm(x[1]), x[2]>>

\* largest q in lo..hi with d*q <= r (binary search; d*lo <= r assumed)
RECURSIVE QDigit(_, _, _, _)
QDigit(r, d, lo, hi) ==
    IF lo = hi THEN lo
    ELSE LET mid == (lo + hi + 1) \div 2
         IN  IF MCmp(MMulSmall(d, mid), r) <= 0 THEN QDigit(r, d, mid, hi)
                                                ELSE QDigit(r, d, lo, mid - 1)

RECURSIVE MDivAt(_, _, _, _)
\* schoolbook long division, one base-B digit at a time from the top limb of a.
MDivAt(a, d, i, r) ==
    IF i = 0 THEN <<<<>>, r>>
    ELSE LET cur  == MNorm(<<a[i]>> \o r)       \* r*B + a[i]
             q    == QDigit(cur, d, 0, B - 1)
             rest == MDivAt(a, d, i - 1, MSub(cur, MMulSmall(d, q)))
         IN  <<Append(rest[1], q), rest[2]>>
\* <<quotient, remainder>> of magnitudes, d # <<>>
MDivMod(a, d) == IF Len(d) = 1 THEN LET x == MDivSmall(a, d[1])
                                    IN <<x[1], IF x[2] = 0 THEN <<>> ELSE <<x[2]>>>>
                 ELSE LET x == MDivAt(a, d, Len(a), <<>>) IN <<MNorm(x[1]), x[2]>>

RECURSIVE MPow10(_)
MPow10(k) == IF k >= 4 THEN MShift(MPow10(k - 4), 1)
             ELSE IF k = 0 THEN <<1>> ELSE IF k = 1 THEN <<10>>
             ELSE IF k = 2 THEN <<100>> ELSE <<1000>>

---------------------------------------------------------------------------
(* signed integers *)

Mk(n, m) == IF m = <<>> THEN [n |-> 0, m |-> <<>>] ELSE [n |-> n, m |-> m]
Zero == [n |-> 0, m |-> <<>>]
IsBig(x) == /\ x.n \in {0, 1} /\ (x.m = <<>> => x.n = 0)
            /\ \A i \in 1..Len(x.m) : x.m[i] \in 0..(B - 1)
            /\ (x.m # <<>> => x.m[Len(x.m)] # 0)

\* from a small (32-bit) TLC integer
RECURSIVE MOfNat(_)
MOfNat(k) == IF k = 0 THEN <<>> ELSE <<k % B>> \o MOfNat(k \div B)
Of(k) == IF k < 0 THEN Mk(1, MOfNat(0 - k)) ELSE Mk(0, MOfNat(k))

Neg(x)  == Mk(1 - x.n, x.m)
Abs(x)  == Mk(0, x.m)
Sgn(x)  == IF x.m = <<>> THEN 0 ELSE IF x.n = 1 THEN -1 ELSE 1
IsZero(x) == x.m = <<>>

Add(x, y) == IF x.n = y.n THEN Mk(x.n, MAdd(x.m, y.m))
             ELSE LET c == MCmp(x.m, y.m)
                  IN  IF c = 0 THEN Zero
                      ELSE IF c > 0 THEN Mk(x.n, MSub(x.m, y.m))
                      ELSE Mk(y.n, MSub(y.m, x.m))
Sub(x, y) == Add(x, Neg(y))
Mul(x, y) == Mk(IF x.n = y.n THEN 0 ELSE 1, MMul(x.m, y.m))
Cmp(x, y) == IF x.n # y.n THEN (IF x.n = 1 THEN -1 ELSE 1)
             ELSE IF x.n = 0 THEN MCmp(x.m, y.m) ELSE MCmp(y.m, x.m)
Lt(x, y) == Cmp(x, y) < 0
Le(x, y) == Cmp(x, y) <= 0
Pow10(k) == Mk(0, MPow10(k))
MulPow10(x, k) == Mk(x.n, MMul(x.m, MPow10(k)))

\* truncated division (towards zero) and remainder with the sign of x, d # 0
QuoT(x, d) == Mk(IF x.n = d.n THEN 0 ELSE 1, MDivMod(x.m, d.m)[1])
RemT(x, d) == Mk(x.n, MDivMod(x.m, d.m)[2])

(***************************************************************************)
(* RHA(x, d): the rational x/d rounded to the nearest integer, ties away   *)
(* from zero (d # 0, either sign).  |x/d| rounded half up on magnitudes:   *)
(* floor((2|x| + |d|) / (2|d|)), sign = sign(x)*sign(d).                   *)
(***************************************************************************)
RHA(x, d) == LET num == MAdd(MMulSmall(x.m, 2), d.m)
                 den == MMulSmall(d.m, 2)
             IN  Mk(IF x.n = d.n THEN 0 ELSE 1, MDivMod(num, den)[1])

\* exact divisibility
Divides(d, x) == MDivMod(x.m, d.m)[2] = <<>>

\* 2^52 = 4503599627370496 and 2^63 = 9223372036854775808
Two52 == Mk(0, <<496, 2737, 5996, 4503>>)
Two63 == Mk(0, <<5808, 5477, 368, 3372, 922>>)
InInt64(x) == Lt(x, Two63) /\ Le(Neg(Two63), x)
Within52(x) == Le(Abs(x), Two52)
=============================================================================
