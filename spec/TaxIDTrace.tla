----------------------------- MODULE TaxIDTrace -----------------------------
(* Trace specification for TaxID.tla: each event is one code given to the real *)
(* tax identity of a regime: its normal form must be Normalize(cc, raw), be     *)
(* stable, and the code must be accepted iff Valid(cc, normal form).            *)
EXTENDS TaxID, Json, IOUtils
Trace == ndJsonDeserialize(IOEnv.TRACE)
VARIABLES i, bad, accepted
vars == <<i, bad, accepted>>
Init == i = 1 /\ bad = <<>> /\ accepted = 0
Verdict(ev) ==
    LET n == Normalize(ev.cc, ev.raw) IN
    IF ev.panic THEN "panic"
    ELSE IF ev.norm # n THEN "normal-form-differs"
    ELSE IF ev.norm2 # ev.norm THEN "normalisation-not-idempotent"
    \* a party's identity is normalised by its own regime only, whatever document carries the party
    ELSE IF ev.host_norm # ev.norm THEN "host-regime-alters-identity"
    ELSE IF n = <<>> THEN "ok"                       \* an empty code is not a candidate (presence is another rule)
    ELSE IF ev.ok /\ ~Valid(ev.cc, n) THEN "accepts-invalid"
    ELSE IF ~ev.ok /\ Valid(ev.cc, n) THEN "rejects-valid"
    ELSE IF ev.party_ok # ev.ok THEN "party-path-differs"
    \* documents validate the identities of their parties, and a regime's alternative country codes follow its rule
    ELSE IF ev.doc_ok # ev.ok THEN "document-path-differs"
    ELSE IF ev.alt_ok # ev.ok THEN "alternative-country-code-differs"
    ELSE "ok"
Step == /\ i <= Len(Trace)
        /\ LET ev == Trace[i]
               v  == Verdict(ev)
           IN  /\ bad' = IF v = "ok" THEN bad ELSE Append(bad, <<i, v>>)
               /\ accepted' = accepted + (IF ev.ok THEN 1 ELSE 0)
        /\ i' = i + 1
Spec == Init /\ [][Step]_vars
Done == i = Len(Trace) + 1
Report == Done => JsonSerialize(IOEnv.RESULT, [events |-> Len(Trace), bad |-> bad, accepted |-> accepted])
=============================================================================
