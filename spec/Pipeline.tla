------------------------------ MODULE Pipeline ------------------------------
(***************************************************************************)
(* Calculation as a deterministic fix-point, serialisation as the identity *)
(* (C04).  The state is the serialised form of an envelope (bytes, as an   *)
(* abstract identity) and its digest.                                      *)
(*   Load         bytes := serialise(parse(input))                         *)
(*   Calculate    the first successful one fixes (bytes, dig); every later *)
(*                one must reproduce exactly the same                      *)
(*   Reserialise  serialise(parse(bytes)) = bytes, always                  *)
(*   Validate, Digest, Verify, Extract, Clone, OtherProcess                *)
(*                never change anything; Clone / OtherProcess produce the  *)
(*                same bytes elsewhere                                     *)
(***************************************************************************)
EXTENDS Integers, Sequences, TLC

Ops == {"Calculate", "Reserialise", "Validate", "Digest", "Verify", "Extract", "Clone"}
VARIABLES bytes, dig, calculated, hist
vars == <<bytes, dig, calculated, hist>>

Init == bytes = 0 /\ dig = 0 /\ calculated = FALSE /\ hist = <<>>
\* the abstract effect: a calculation of a not yet calculated envelope yields "the" calculated form (1)
Do(op) == /\ hist' = Append(hist, op)
          /\ IF op = "Calculate" /\ ~calculated
             THEN bytes' = 1 /\ dig' = 1 /\ calculated' = TRUE
             ELSE UNCHANGED <<bytes, dig, calculated>>
Next == \E op \in Ops : Do(op)
Spec == Init /\ [][Next]_vars

\* the property as an action property: once calculated, nothing moves
FixPoint == [][calculated => (bytes' = bytes /\ dig' = dig)]_vars
=============================================================================
