-------------------------------- MODULE Refs --------------------------------
(***************************************************************************)
(* Validated documents only reference defined codes, keys and rates (C18). *)
(* The definitions are the PUBLISHED files (data/regimes, data/addons,     *)
(* data/catalogues, data/currency and the l10n code schemas), read as      *)
(* tagged JSON (see Published.tla); nothing here comes from the library's  *)
(* own tables.  Resolves(ref) says whether one reference made by a         *)
(* document resolves in those files.                                       *)
(***************************************************************************)
EXTENDS Published

NameIs(i, prefix) == Len(Files[i].name) >= Len(prefix) /\ SubSeq(Files[i].name, 1, Len(prefix)) = prefix
\* TLC re-evaluates definitions that read files every time they are used, so the files are loaded once
\* (LoadTables, evaluated in Init) into TLC registers and read from there.  Definitions are addressed by file
\* index (sets of tagged values are avoided: TLC would compare them member-wise).
DocR == TLCEval([i \in DOMAIN Files |-> Load(Files[i].pub)])
Doc == TLCGet(41)
T == TLCGet(42)
Idx(prefix) == {i \in DOMAIN Files : NameIs(i, prefix)}
RegimeIdx    == Idx("regimes/")
AddonIdx     == Idx("addons/")
CatalogueIdx == Idx("catalogues/")
CurrencyIdx  == Idx("currency/")
CountryIdx   == Idx("schemas/l10n/")

---------------------------------------------------------------------------
(* tables *)
RegimeCodesOf(d) == {Str(d, "country")} \cup Strs(d, "alt_country_codes")
Cats(d) == Items(d, "categories")
CatIdx(d, cat) == {j \in DOMAIN Cats(d) : Str(Cats(d)[j], "code") = cat}
RateKeysOf(c) == {Str(Items(c, "rates")[i], "key") : i \in DOMAIN Items(c, "rates")}
\* tags offered by a definition for a document type
TagsFor(d, schema) == UNION {{Str(Items(Items(d, "tags")[g], "list")[i], "key") : i \in DOMAIN Items(Items(d, "tags")[g], "list")}
                             : g \in {h \in DOMAIN Items(d, "tags") : Str(Items(d, "tags")[h], "schema") = schema}}
\* extension definitions, addressed as <<file, position>>
Exts(d) == Items(d, "extensions")
ExtAt(x) == Exts(Doc[x[1]])[x[2]]
\* the l10n schemas enumerate the codes as oneOf[].const under $defs.<Type>
ConstsOf(s) == UNION {{Str(Items(Get(s, "$defs").v[t], "oneOf")[i], "const") : i \in DOMAIN Items(Get(s, "$defs").v[t], "oneOf")}
                      : t \in DOMAIN Get(s, "$defs").v}
ExtIdxAllR == UNION {{<<i, j>> : j \in DOMAIN Exts(Doc[i])} : i \in RegimeIdx \cup AddonIdx \cup CatalogueIdx}
TablesR == [
    regimeCodes |-> UNION {RegimeCodesOf(Doc[i]) : i \in RegimeIdx},
    regimeCodesOf |-> TLCEval([i \in RegimeIdx |-> RegimeCodesOf(Doc[i])]),
    addonKeyOf  |-> TLCEval([i \in AddonIdx |-> Str(Doc[i], "key")]),
    allCats     |-> UNION {Categories(Doc[i]) : i \in RegimeIdx},
    allRateKeys |-> UNION {UNION {RateKeysOf(Cats(Doc[i])[j]) : j \in DOMAIN Cats(Doc[i])} : i \in RegimeIdx},
    allTags     |-> UNION {TagKeys(Doc[i]) : i \in RegimeIdx \cup AddonIdx},
    extIdxAll   |-> ExtIdxAllR,
    extKeyAt    |-> TLCEval([x \in ExtIdxAllR |-> Str(ExtAt(x), "key")]),
    extValsAt   |-> TLCEval([x \in ExtIdxAllR |-> ExtValues(ExtAt(x))]),
    extPatAt    |-> TLCEval([x \in ExtIdxAllR |-> Str(ExtAt(x), "pattern")]),
    \* currency files are arrays of definitions with an iso_code
    currencies  |-> UNION {{Str(Doc[f].v[i], "iso_code") : i \in DOMAIN Doc[f].v} : f \in CurrencyIdx},
    countries   |-> UNION {IF Has(Doc[s], "$defs") THEN ConstsOf(Doc[s]) ELSE {} : s \in CountryIdx}]
LoadTables == TLCSet(41, DocR) /\ TLCSet(42, TablesR)

RegimeCodes == T.regimeCodes
RegimesFor(cc) == {i \in RegimeIdx : cc \in T.regimeCodesOf[i]}
AddonKeys == {T.addonKeyOf[i] : i \in AddonIdx}
AddonsFor(k) == {i \in AddonIdx : T.addonKeyOf[i] = k}
AllCats == T.allCats
AllRateKeys == T.allRateKeys
AllTags == T.allTags
ExtIdxAll == T.extIdxAll
ExtKeyAt == T.extKeyAt
ExtValsAt == T.extValsAt
ExtPatAt == T.extPatAt
ExtKeysAll == {ExtKeyAt[x] : x \in ExtIdxAll}
ExtIdxFor(key) == {x \in ExtIdxAll : ExtKeyAt[x] = key}
Currencies == T.currencies
Countries == T.countries

---------------------------------------------------------------------------
(* declared patterns: a pattern is a sequence of <<class, min, max>> items   *)
(* anchored at both ends; the table must cover every pattern the definitions *)
(* declare (UnknownPatterns = {} is checked by the model).                   *)
Digit == {"0", "1", "2", "3", "4", "5", "6", "7", "8", "9"}
Sep   == {" ", "\t", "\n", "\r", "\f", ".", "-", "/"}
D(n)  == <<Digit, n, n>>
OptSep == <<Sep, 0, 1>>
PatTable ==
    ("^[0-9]{5}$" :> <<D(5)>>) @@ ("^\\d{4}$" :> <<D(4)>>) @@ ("^\\d{5}$" :> <<D(5)>>) @@ ("^\\d{7}$" :> <<D(7)>>) @@
    ("^\\d{2}[\\s\\.\\-\\/]?\\d{2}[\\s\\.\\-\\/]?\\d[\\s\\.\\-\\/]?\\d{2}$" :> <<D(2), OptSep, D(2), OptSep, D(1), OptSep, D(2)>>)
DeclaredPatterns == {ExtPatAt[x] : x \in ExtIdxAll} \ {""}
UnknownPatterns == DeclaredPatterns \ DOMAIN PatTable

RECURSIVE M(_, _, _, _)
M(items, i, chars, j) ==
    IF i > Len(items) THEN j = Len(chars) + 1
    ELSE \E n \in items[i][2]..items[i][3] :
            /\ j + n - 1 <= Len(chars)
            /\ \A k \in j..(j + n - 1) : chars[k] \in items[i][1]
            /\ M(items, i + 1, chars, j + n)
PatMatch(p, chars) == p \in DOMAIN PatTable /\ M(PatTable[p], 1, chars, 1)

---------------------------------------------------------------------------
(* resolution of one reference                                              *)
(*   ref == [kind, v, cc, cat, key, parts, chars, addons, schema]           *)
ExtAllowed(x, v, chars) == /\ (ExtValsAt[x] = {} \/ v \in ExtValsAt[x])
                           /\ (ExtPatAt[x] = "" \/ PatMatch(ExtPatAt[x], chars))

Resolves(r) ==
    CASE r.kind = "regime"   -> r.v \in RegimeCodes
      [] r.kind = "addon"    -> r.v \in AddonKeys
      [] r.kind = "currency" -> r.v \in Currencies
      [] r.kind = "country"  -> r.v \in Countries
      \* a combo in a country for which no regime is published has no category table to belong to
      [] r.kind = "cat"      -> r.cc \notin RegimeCodes \/ \E d \in RegimesFor(r.cc) : r.v \in Categories(Doc[d])
      \* a rate key belongs to the applicable regime when one of its components is a rate of the category
      [] r.kind = "rate"     -> \E d \in RegimesFor(r.cc) : \E c \in CatIdx(Doc[d], r.cat) :
                                    \E i \in DOMAIN r.parts : r.parts[i] \in RateKeysOf(Cats(Doc[d])[c])
      [] r.kind = "ext"      -> \E x \in ExtIdxFor(r.key) : ExtAllowed(x, r.v, r.chars)
      [] r.kind = "tag"      -> \/ \E d \in RegimesFor(r.cc) : r.v \in TagsFor(Doc[d], r.schema)
                                \/ \E i \in DOMAIN r.addons : \E d \in AddonsFor(r.addons[i]) : r.v \in TagsFor(Doc[d], r.schema)
      [] OTHER -> FALSE
=============================================================================
