----------------------------- MODULE RatesTrace -----------------------------
(* Trace specification for Rates.tla: each event is one look-up on the real  *)
(* code (directly, or through a one-line invoice / order dated D); accepted  *)
(* iff the outcome and the percentage / surcharge equal Expected.            *)
EXTENDS Rates
Trace == ndJsonDeserialize(IOEnv.TRACE)
VARIABLES i, bad, boundary
vars == <<i, bad, boundary>>
Init == i = 1 /\ bad = <<>> /\ boundary = 0

DefOf(ev) == LET S == {r \in DOMAIN RateDefs : RateDefs[r].cc = ev.cc /\ RateDefs[r].cat = ev.cat /\ RateDefs[r].key = ev.key}
             IN  IF S = {} THEN 0 ELSE CHOOSE r \in S : TRUE
Got(ev) == [res |-> ev.res, pct |-> ev.pct, sur |-> ev.sur]
OnBoundary(ev, rd) == \E j \in DOMAIN rd.values : rd.values[j].since = ev.date
Verdict(ev) ==
    LET r == DefOf(ev) IN
    \* the tables the library holds at the end of the run are those it held at the start
    IF ev.path = "tables-intact" THEN (IF ev.res = "same" THEN "ok" ELSE "tables-changed:during-the-run")
    ELSE IF r = 0 THEN "unknown-rate"
    ELSE LET exp == Expected(RateDefs[r], ev.date, ev.tags, ev.ext)
         IN  IF exp = Got(ev) THEN "ok"
             ELSE IF OnBoundary(ev, RateDefs[r]) THEN "on-start-date:" \o exp.res \o "-vs-" \o ev.res
             ELSE "other:" \o exp.res \o "-vs-" \o ev.res
Step == /\ i <= Len(Trace)
        /\ LET ev == Trace[i]
               v  == Verdict(ev)
           IN  /\ bad' = IF v = "ok" THEN bad ELSE Append(bad, <<i, v>>)
               /\ boundary' = boundary + (IF ev.path # "tables-intact" /\ DefOf(ev) # 0 /\ OnBoundary(ev, RateDefs[DefOf(ev)]) THEN 1 ELSE 0)
        /\ i' = i + 1
Spec == Init /\ [][Step]_vars
Done == i = Len(Trace) + 1
Report == Done => JsonSerialize(IOEnv.RESULT, [events |-> Len(Trace), bad |-> bad, boundary |-> boundary])
=============================================================================
