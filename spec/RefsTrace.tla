------------------------------ MODULE RefsTrace ------------------------------
(* Trace specification for Refs.tla: each event is one reference made by a   *)
(* document the real code accepted (after calculation, or on the validate-   *)
(* only path); it must resolve in the published definitions.                 *)
EXTENDS Refs, SequencesExt
Trace == TLCGet(43)
VARIABLES i, bad, kinds
vars == <<i, bad, kinds>>
Init == LoadTables /\ TLCSet(43, ndJsonDeserialize(IOEnv.TRACE)) /\ i = 1 /\ bad = <<>> /\ kinds = {}
Verdict(ev) == IF Resolves(ev) THEN "ok" ELSE "unresolved"
Step == /\ i <= Len(Trace)
        /\ LET ev == Trace[i]
               v  == Verdict(ev)
           IN  /\ bad' = IF v = "ok" THEN bad ELSE Append(bad, <<i, v>>)
               /\ kinds' = kinds \cup {ev.kind}
        /\ i' = i + 1
Spec == Init /\ [][Step]_vars
Done == i = Len(Trace) + 1
Report == Done => JsonSerialize(IOEnv.RESULT, [events |-> Len(Trace), bad |-> bad, kinds |-> SetToSeq(kinds)])
=============================================================================
