SPECIFICATION TSpec
CONSTANTS
  Keys = {"k1", "k2"}
  MaxName = 1000
INVARIANTS Report TraceInv
CHECK_DEADLOCK FALSE
