----------------------------- MODULE Correction -----------------------------
(***************************************************************************)
(* Correcting and replicating envelopes (C16).  The correction definitions *)
(* of the regime and of each active addon are given with every event (they *)
(* are exported from the registered definitions, not from the code path    *)
(* under test) and merged here.                                            *)
(*                                                                         *)
(* combo  == [type, reason, ext, stamps, series, date, copytax, state]     *)
(* defs   == Seq([types, extensions, reason_required, stamps, copy_tax])   *)
(***************************************************************************)
EXTENDS Integers, Sequences, FiniteSets, TLC

SetOf(s) == {s[i] : i \in DOMAIN s}
Types(defs)  == UNION {SetOf(defs[i].types) : i \in DOMAIN defs}
Stamps(defs) == UNION {SetOf(defs[i].stamps) : i \in DOMAIN defs}
RECURSIVE AllStamps(_)
AllStamps(defs) == IF defs = <<>> THEN <<>> ELSE defs[1].stamps \o AllStamps(Tail(defs))   \* in merging order
Exts(defs)   == UNION {SetOf(defs[i].extensions) : i \in DOMAIN defs}
ReasonRequired(defs) == \E i \in DOMAIN defs : defs[i].reason_required

\* stamps available to the correction: those given as options and those in the source header
Available(ev) == SetOf(ev.req_stamps) \cup SetOf(ev.src_stamps)

\* the library refuses exactly in these cases
MustRefuse(ev) ==
    \/ ev.combo.type = ""                                         \* no type requested
    \/ ev.src_code = ""                                           \* the source has no code
    \/ (Types(ev.defs) # {} /\ ev.combo.type \notin Types(ev.defs))
    \/ (ReasonRequired(ev.defs) /\ ~ev.combo.reason)
    \/ ~(Stamps(ev.defs) \subseteq Available(ev))

\* what a successful correction looks like
GoodCorrection(ev) ==
    LET r == ev.r IN
    /\ r.nsigs = 0 /\ r.nstamps = 0                               \* unsigned, no stamps
    /\ r.D                                                        \* freshly calculated
    /\ r.newuuid /\ ~r.hascode
    /\ r.type = ev.combo.type
    /\ r.series = (IF ev.combo.series THEN ev.req_series ELSE ev.src_series)
    /\ (IF ev.combo.date THEN r.issue_date = ev.req_date ELSE r.issue_date \in {ev.today, ev.today2})
    /\ r.npreceding = 1
    /\ r.pre_uuid = ev.src_uuid /\ r.pre_type = ev.src_type /\ r.pre_series = ev.src_series
    /\ r.pre_code = ev.src_code /\ r.pre_date = ev.src_date
    /\ r.pre_reason = (IF ev.combo.reason THEN "verif reason" ELSE "")
    \* the requested extensions are kept: on the preceding row, or (an addon may move them) on the correction's own tax object
    /\ SetOf(ev.req_ext) \subseteq SetOf(r.pre_ext) \cup SetOf(r.tax_ext)
    /\ Stamps(ev.defs) \subseteq SetOf(r.pre_stamps)
    \* the stamps carried over are the source's or the request's, value for value
    /\ SetOf(r.pre_stamp_vals) \subseteq SetOf(ev.req_stamp_vals) \cup SetOf(ev.src_stamp_vals)
    /\ (ev.combo.copytax /\ ev.src_hastax => r.pre_hastax)     \* the copied summary is recalculated with the new document; only its presence is required
    /\ r.business = ev.src_business
    \* replicating the correction keeps its business content, the reference to the corrected document included
    /\ r.rep_pre_same

GoodReplica(ev) ==
    LET r == ev.r IN
    /\ r.nsigs = 0 /\ r.nstamps = 0 /\ r.D
    /\ r.newuuid /\ ~r.hascode
    /\ r.issue_date \in {ev.today, ev.today2}
    \* everything that replicating does not reset or derive anew is kept as it was (payment details, parties, ordering ...)
    /\ r.kept = ev.src_kept
    /\ r.type = ev.src_type /\ r.series = ev.src_series
    /\ r.business = ev.src_business
=============================================================================
