------------------------------ MODULE NumCodec ------------------------------
(***************************************************************************)
(* Text codec of amounts and percentages (C06).                            *)
(*                                                                         *)
(* Texts are sequences of Unicode code points.  The published patterns     *)
(*     amount      ^\-?[0-9]+(\.[0-9]+)?$                                  *)
(*     percentage  ^\-?[0-9]+(\.[0-9]+)?%$                                 *)
(* are given twice: as a scanner (DFA, one step per character - this is    *)
(* the state machine TLC explores in MCNumCodec) and declaratively         *)
(* (Matches).  ValueOf gives the number a pattern member denotes, Print    *)
(* the text an amount is written as.                                       *)
(***************************************************************************)
EXTENDS Decimal, Sequences

Minus == 45  Plus == 43  Dot == 46  Pct == 37  Quote == 34  Zero0 == 48  Nine9 == 57
IsDigit(c) == c >= 48 /\ c <= 57
DigitVal(c) == c - 48

---------------------------------------------------------------------------
(* the scanner *)
DFAStates == {"Start", "Sign", "Int", "Dot", "Frac", "Pct", "Reject"}
DStep(st, c, ty) ==
    CASE st = "Start" -> IF c = Minus THEN "Sign" ELSE IF IsDigit(c) THEN "Int" ELSE "Reject"
      [] st = "Sign"  -> IF IsDigit(c) THEN "Int" ELSE "Reject"
      [] st = "Int"   -> IF IsDigit(c) THEN "Int" ELSE IF c = Dot THEN "Dot"
                         ELSE IF c = Pct /\ ty = "percentage" THEN "Pct" ELSE "Reject"
      [] st = "Dot"   -> IF IsDigit(c) THEN "Frac" ELSE "Reject"
      [] st = "Frac"  -> IF IsDigit(c) THEN "Frac"
                         ELSE IF c = Pct /\ ty = "percentage" THEN "Pct" ELSE "Reject"
      [] st = "Pct"   -> "Reject"
      [] st = "Reject" -> "Reject"
RECURSIVE DRun(_, _, _, _)
DRun(s, i, st, ty) == IF i > Len(s) THEN st ELSE DRun(s, i + 1, DStep(st, s[i], ty), ty)
Final(st, ty) == IF ty = "amount" THEN st \in {"Int", "Frac"} ELSE st = "Pct"
Accepts(s, ty) == Final(DRun(s, 1, "Start", ty), ty)

(* the pattern, declaratively: optional '-', >= 1 digits, optionally '.' and >= 1 digits, [%] *)
AllDigits(s, lo, hi) == lo <= hi /\ \A i \in lo..hi : IsDigit(s[i])
Matches(s, ty) ==
    LET n    == IF ty = "percentage" THEN Len(s) - 1 ELSE Len(s)
        from == IF Len(s) >= 1 /\ s[1] = Minus THEN 2 ELSE 1
    IN  /\ (ty = "percentage" => Len(s) >= 1 /\ s[Len(s)] = Pct)
        /\ \/ AllDigits(s, from, n)
           \/ \E d \in from..n : s[d] = Dot /\ AllDigits(s, from, d - 1) /\ AllDigits(s, d + 1, n)

---------------------------------------------------------------------------
(* the number denoted by a pattern member *)
RECURSIVE DigitsVal(_, _, _, _)
DigitsVal(s, i, hi, acc) ==        \* magnitude of the digits among s[i..hi], skipping the dot
    IF i > hi THEN acc
    ELSE IF IsDigit(s[i]) THEN DigitsVal(s, i + 1, hi, MAdd(MMulSmall(acc, 10), MOfNat(DigitVal(s[i]))))
    ELSE DigitsVal(s, i + 1, hi, acc)
DotPos(s) == IF \E d \in 1..Len(s) : s[d] = Dot THEN CHOOSE d \in 1..Len(s) : s[d] = Dot ELSE 0
\* the amount written before an optional trailing '%'
TextAmount(s, ty) ==
    LET n == IF ty = "percentage" THEN Len(s) - 1 ELSE Len(s)
        d == DotPos(s)
        m == MNorm(DigitsVal(s, 1, n, <<>>))
    IN  A(Mk(IF s[1] = Minus THEN 1 ELSE 0, m), IF d = 0 THEN 0 ELSE n - d)
ValueOf(s, ty) == IF ty = "percentage" THEN PFromAmount(TextAmount(s, ty)) ELSE TextAmount(s, ty)
\* "fits in 64 bits": the integer the text denotes, without the separator
Fits64(s, ty) == InInt64(TextAmount(s, ty).v)

\* bare JSON numbers: the part of the JSON number grammar that lies inside the pattern is
\* an optional minus, then "0" or a digit string without leading zero, then an optional fraction
JsonNumber(s) == LET from == IF Len(s) >= 1 /\ s[1] = Minus THEN 2 ELSE 1
                 IN  Matches(s, "amount") /\
                     (s[from] = Zero0 => (from = Len(s) \/ s[from + 1] = Dot))

---------------------------------------------------------------------------
(* the printer *)
RECURSIVE MDigits(_)
MDigits(m) == IF m = <<>> THEN <<>>                      \* most significant first
              ELSE LET x == MDivSmall(m, 10) IN Append(MDigits(x[1]), 48 + x[2])
RECURSIVE ZeroPad(_, _)
ZeroPad(ds, n) == IF Len(ds) >= n THEN ds ELSE ZeroPad(<<48>> \o ds, n)
Print(a) ==
    LET ds   == ZeroPad(MDigits(a.v.m), a.e + 1)            \* at least one integer digit
        k    == Len(ds) - a.e
        sign == IF a.v.n = 1 THEN <<Minus>> ELSE <<>>
    IN  IF a.e = 0 THEN sign \o ds
        ELSE sign \o SubSeq(ds, 1, k) \o <<Dot>> \o SubSeq(ds, k + 1, Len(ds))
PrintPct(p) == Print(PAmount(p)) \o <<Pct>>
Quoted(s) == <<Quote>> \o s \o <<Quote>>
=============================================================================
