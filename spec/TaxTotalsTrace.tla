--------------------------- MODULE TaxTotalsTrace ---------------------------
(***************************************************************************)
(* Trace specification for TaxTotals.tla.  Events are independent calls:   *)
(*   build   rows -> summary, by tax.TotalCalculator                       *)
(*   merge   a, b -> out (operands logged again after the call)            *)
(*   negate  a -> out                                                      *)
(* Each is re-evaluated with the reference; all rejected events are        *)
(* recorded with the part of the result that differs.                      *)
(***************************************************************************)
EXTENDS TaxTotals, TLC, Json, IOUtils

Trace == ndJsonDeserialize(IOEnv.TRACE)
VARIABLES i, bad, multi
vars == <<i, bad, multi>>
Init == i = 1 /\ bad = <<>> /\ multi = 0

Shape(t) == [a \in DOMAIN t.cats |-> <<t.cats[a].code, t.cats[a].ret,
                [b \in DOMAIN t.cats[a].rates |-> LET r == t.cats[a].rates[b]
                                                  IN <<r.country, r.ext, r.pct, IF Has(r.sur) THEN Some(Val(r.sur).pct) ELSE None>>]>>]
Bases(t)   == [a \in DOMAIN t.cats |-> [b \in DOMAIN t.cats[a].rates |-> t.cats[a].rates[b].base]]
Amounts(t) == [a \in DOMAIN t.cats |-> [b \in DOMAIN t.cats[a].rates |->
                   <<t.cats[a].rates[b].amount, IF Has(t.cats[a].rates[b].sur) THEN Some(Val(t.cats[a].rates[b].sur).amount) ELSE None>>]]
CatFigs(t) == [a \in DOMAIN t.cats |-> <<t.cats[a].amount, t.cats[a].sur>>]
\* the precise copies are compared as numbers: the accessors of the real code hand out a zero at the
\* presentation precision where the reference keeps the working precision
PreciseEq(exp, got) == /\ AEq(exp.psum, got.psum)
                       /\ \A a \in DOMAIN exp.cats : AEq(exp.cats[a].pamount, got.cats[a].pamount)
Presented(t) == [t EXCEPT !.psum = t.sum, !.cats = [a \in DOMAIN t.cats |-> [t.cats[a] EXCEPT !.pamount = t.cats[a].amount]]]
Diff(exp, got) ==
    IF Presented(exp) = Presented(got) /\ PreciseEq(exp, got) THEN "ok"
    ELSE IF Shape(exp) # Shape(got) THEN "grouping"
    ELSE IF Bases(exp) # Bases(got) THEN "base"
    ELSE IF Amounts(exp) # Amounts(got) THEN "amount"
    ELSE IF CatFigs(exp) # CatFigs(got) THEN "category"
    ELSE IF exp.sum # got.sum THEN "sum"
    ELSE "precise"

HasSur(t) == \E a \in DOMAIN t.cats : Has(t.cats[a].sur)

PayVerdict(ev) ==
    IF ~ev.ok THEN "error"
    ELSE IF \E j \in DOMAIN ev.lines : ev.lines[j].total # PayLineTotal(ev.lines[j], ev.cd)
         THEN (IF \E j \in DOMAIN ev.lines : ~ev.lines[j].same /\ ev.lines[j].total # PayLineTotal(ev.lines[j], ev.cd)
               THEN "payment-line-converted" ELSE "payment-line")
    ELSE IF ev.total # PayTotal(ev.lines, ev.cd) THEN "payment-total"
    ELSE LET exp == PayTax(ev.lines, ev.cd, ev.rr)
         IN  IF Has(exp) # Has(ev.tax) THEN "payment-tax-presence"
             ELSE IF ~Has(exp) \/ SameUpToOrder(Val(exp), Val(ev.tax)) THEN "ok"
             ELSE IF \E j \in DOMAIN ev.lines : Has(ev.lines[j].tax) /\ HasSur(Val(ev.lines[j].tax))
                  THEN "payment-tax-surcharge" ELSE "payment-tax"

Verdict(ev) ==
    CASE ev.k = "build" ->
            IF ~ev.ok THEN "error"
            \* an exempt combo carries no percentage and no surcharge once calculated, whatever the input still had
            ELSE IF \E ri \in DOMAIN ev.rows : \E rj \in DOMAIN ev.rows[ri].taxes :
                       ev.rows[ri].taxes[rj].key = "exempt" /\ (ev.rows[ri].taxes[rj].pct # <<>> \/ ev.rows[ri].taxes[rj].sur # <<>>)
                 THEN "build-exempt-keeps-percentage"
            ELSE LET d == Diff(Build(ev.rows, ev.cd, ev.rr, ev.inc), ev.out) IN IF d = "ok" THEN "ok" ELSE "build-" \o d
      [] ev.k = "merge" ->
            IF ~ev.ok THEN "error"
            ELSE IF ev.a2 # ev.a \/ ev.b2 # ev.b THEN "merge-alters-operand"
            ELSE LET exp == Merge(ev.a, ev.b)
                 IN  IF SameUpToOrder(exp, ev.out) THEN "ok"
                     ELSE IF exp.sum # ev.out.sum THEN "merge-sum"
                     ELSE IF HasSur(ev.a) \/ HasSur(ev.b) THEN "merge-differs-surcharge" ELSE "merge-differs"
      [] ev.k = "payment" -> PayVerdict(ev)
      [] ev.k = "negate" ->
            IF ~ev.ok THEN "error"
            ELSE IF ev.a2 # ev.a THEN "negate-alters-operand"
            ELSE IF Negate(ev.a) = ev.out THEN "ok"
            ELSE IF HasSur(ev.a) THEN "negate-differs-surcharge" ELSE "negate-differs"

MultiGroup(ev) == ev.k = "build" /\ ev.ok /\ \E a \in DOMAIN ev.out.cats : Len(ev.out.cats[a].rates) > 1

Step == /\ i <= Len(Trace)
        /\ LET ev == Trace[i]
               v  == Verdict(ev)
           IN  /\ bad' = IF v = "ok" THEN bad ELSE Append(bad, <<i, v>>)
               /\ multi' = multi + (IF MultiGroup(ev) \/ ev.k # "build" THEN 1 ELSE 0)
        /\ i' = i + 1
Spec == Init /\ [][Step]_vars
Done == i = Len(Trace) + 1
Report == Done => JsonSerialize(IOEnv.RESULT, [events |-> Len(Trace), bad |-> bad, multi |-> multi])
=============================================================================
