-------------------------------- MODULE Regex --------------------------------
(* Matching of regular expression syntax trees (as produced mechanically by    *)
(* the harness from the expression text) against sequences of code points.     *)
(* ReEnds(n, cs, i) = positions where a match of n that starts at i can end.   *)
(* Same definitions as in JsonSchema.tla, under names that do not clash with   *)
(* NumCodec.tla.                                                               *)
EXTENDS Integers, Sequences, FiniteSets
RECURSIVE ReEnds(_, _, _), ReStepSet(_, _, _), ReClosure(_, _, _), ReTimes(_, _, _, _), ReUpTo(_, _, _, _), ReCatEnds(_, _, _, _)
ReStepSet(n, cs, S) == UNION {ReEnds(n, cs, i) : i \in S}
ReClosure(n, cs, S) == LET S2 == S \cup ReStepSet(n, cs, S) IN IF S2 = S THEN S ELSE ReClosure(n, cs, S2)
ReTimes(n, cs, S, k) == IF k = 0 THEN S ELSE ReTimes(n, cs, ReStepSet(n, cs, S), k - 1)
ReUpTo(n, cs, S, k) == IF k = 0 THEN S ELSE S \cup ReUpTo(n, cs, ReStepSet(n, cs, S), k - 1)
ReCatEnds(s, cs, k, S) == IF k > Len(s) THEN S ELSE ReCatEnds(s, cs, k + 1, ReStepSet(s[k], cs, S))
ReInRanges(r, c) == \E k \in 1..(Len(r) \div 2) : r[2 * k - 1] <= c /\ c <= r[2 * k]
ReEnds(n, cs, i) ==
    CASE n.op = "empty" -> {i}
      [] n.op = "lit"   -> IF i + Len(n.r) - 1 <= Len(cs) /\ \A k \in 1..Len(n.r) : cs[i + k - 1] = n.r[k] THEN {i + Len(n.r)} ELSE {}
      [] n.op = "cc"    -> IF i <= Len(cs) /\ ReInRanges(n.r, cs[i]) THEN {i + 1} ELSE {}
      [] n.op = "bol"   -> IF i = 1 THEN {i} ELSE {}
      [] n.op = "eol"   -> IF i = Len(cs) + 1 THEN {i} ELSE {}
      [] n.op = "cap"   -> ReEnds(n.s[1], cs, i)
      [] n.op = "cat"   -> ReCatEnds(n.s, cs, 1, {i})
      [] n.op = "alt"   -> UNION {ReEnds(n.s[k], cs, i) : k \in DOMAIN n.s}
      [] n.op = "rep"   -> LET base == ReTimes(n.s[1], cs, {i}, n.min) IN
                           IF n.max < 0 THEN ReClosure(n.s[1], cs, base) ELSE ReUpTo(n.s[1], cs, base, n.max - n.min)
\* the expression matches somewhere in the text (anchors are part of the tree)
ReMatches(tree, cs) == \E i \in 1..(Len(cs) + 1) : ReEnds(tree, cs, i) # {}
=============================================================================
