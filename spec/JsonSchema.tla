----------------------------- MODULE JsonSchema -----------------------------
(***************************************************************************)
(* Published JSON Schemas are valid and every valid document conforms      *)
(* (C11).  An evaluator for the part of JSON Schema draft 2020-12 that the *)
(* published files use - $ref (local and by $id), type, properties,        *)
(* required, items, patternProperties, additionalProperties, oneOf, anyOf, *)
(* allOf, not, const, enum, pattern, minLength, maxLength, format (uuid,   *)
(* date, uri) - over tagged JSON values (see Published.tla; strings also   *)
(* carry their code points c, objects the code points of their keys kc),   *)
(* a matcher for regular expression syntax trees, and the well-formedness  *)
(* of a schema file.  Keywords outside this list make a file ill-formed    *)
(* ("unknown keyword") unless they are annotations.                        *)
(***************************************************************************)
EXTENDS Integers, Sequences, FiniteSets, TLC, Json, IOUtils

Manifest == TLCGet(51)
SchemaDoc == TLCGet(52)        \* file index -> tagged schema document
Load(p) == JsonDeserialize(p)
LoadSchemas == LET m == JsonDeserialize(IOEnv.MANIFEST) IN
               /\ TLCSet(51, m)
               /\ TLCSet(52, TLCEval([i \in DOMAIN m.files |-> Load(m.files[i].pub)]))
Files == Manifest.files

SetOf(s) == {s[i] : i \in DOMAIN s}
Has(o, key) == o.t = "o" /\ \E i \in DOMAIN o.k : o.k[i] = key
Get(o, key) == o.v[CHOOSE i \in DOMAIN o.k : o.k[i] = key]

RECURSIVE Eq(_, _)
Eq(a, b) == /\ a.t = b.t
            /\ CASE a.t = "o" -> a.k = b.k /\ \A i \in DOMAIN a.v : Eq(a.v[i], b.v[i])
                 [] a.t = "a" -> Len(a.v) = Len(b.v) /\ \A i \in DOMAIN a.v : Eq(a.v[i], b.v[i])
                 [] OTHER     -> a.v = b.v

---------------------------------------------------------------------------
(* regular expressions: Ends(n, cs, i) = positions where a match of n that *)
(* starts at i can end                                                     *)
RECURSIVE Ends(_, _, _), StepSet(_, _, _), Closure(_, _, _), Times(_, _, _, _), UpTo(_, _, _, _), CatEnds(_, _, _, _)
StepSet(n, cs, S) == UNION {Ends(n, cs, i) : i \in S}
Closure(n, cs, S) == LET S2 == S \cup StepSet(n, cs, S) IN IF S2 = S THEN S ELSE Closure(n, cs, S2)
Times(n, cs, S, k) == IF k = 0 THEN S ELSE Times(n, cs, StepSet(n, cs, S), k - 1)
UpTo(n, cs, S, k) == IF k = 0 THEN S ELSE S \cup UpTo(n, cs, StepSet(n, cs, S), k - 1)
CatEnds(s, cs, k, S) == IF k > Len(s) THEN S ELSE CatEnds(s, cs, k + 1, StepSet(s[k], cs, S))
InRanges(r, c) == \E k \in 1..(Len(r) \div 2) : r[2 * k - 1] <= c /\ c <= r[2 * k]
Ends(n, cs, i) ==
    CASE n.op = "empty" -> {i}
      [] n.op = "lit"   -> IF i + Len(n.r) - 1 <= Len(cs) /\ \A k \in 1..Len(n.r) : cs[i + k - 1] = n.r[k] THEN {i + Len(n.r)} ELSE {}
      [] n.op = "cc"    -> IF i <= Len(cs) /\ InRanges(n.r, cs[i]) THEN {i + 1} ELSE {}
      [] n.op = "bol"   -> IF i = 1 THEN {i} ELSE {}
      [] n.op = "eol"   -> IF i = Len(cs) + 1 THEN {i} ELSE {}
      [] n.op = "cap"   -> Ends(n.s[1], cs, i)
      [] n.op = "cat"   -> CatEnds(n.s, cs, 1, {i})
      [] n.op = "alt"   -> UNION {Ends(n.s[k], cs, i) : k \in DOMAIN n.s}
      [] n.op = "rep"   -> LET base == Times(n.s[1], cs, {i}, n.min) IN
                           IF n.max < 0 THEN Closure(n.s[1], cs, base) ELSE UpTo(n.s[1], cs, base, n.max - n.min)
\* a pattern keyword searches: it holds when the expression matches somewhere
Matches(tree, cs) == \E i \in 1..(Len(cs) + 1) : Ends(tree, cs, i) # {}

Patterns == Manifest.patterns
PatIdx(src) == {i \in DOMAIN Patterns : Patterns[i].src = src}
PatternKnown(src) == \E i \in PatIdx(src) : Patterns[i].ok
PatternHolds(src, cs) == \E i \in PatIdx(src) : Patterns[i].ok /\ Matches(Patterns[i].tree, cs)

---------------------------------------------------------------------------
(* formats *)
IsDigit(c) == 48 <= c /\ c <= 57
IsHex(c) == IsDigit(c) \/ (97 <= c /\ c <= 102) \/ (65 <= c /\ c <= 70)
IsAlpha(c) == (97 <= c /\ c <= 122) \/ (65 <= c /\ c <= 90)
FormatUUID(cs) == /\ Len(cs) = 36
                  /\ \A i \in 1..36 : IF i \in {9, 14, 19, 24} THEN cs[i] = 45 ELSE IsHex(cs[i])
Num(cs, a, b) == LET RECURSIVE N(_, _) N(i, acc) == IF i > b THEN acc ELSE N(i + 1, acc * 10 + (cs[i] - 48)) IN N(a, 0)
Leap(y) == (y % 4 = 0 /\ y % 100 # 0) \/ y % 400 = 0
DaysIn(y, m) == IF m = 2 THEN (IF Leap(y) THEN 29 ELSE 28) ELSE IF m \in {4, 6, 9, 11} THEN 30 ELSE 31
FormatDate(cs) == /\ Len(cs) = 10 /\ cs[5] = 45 /\ cs[8] = 45
                  /\ \A i \in {1, 2, 3, 4, 6, 7, 9, 10} : IsDigit(cs[i])
                  /\ LET y == Num(cs, 1, 4) m == Num(cs, 6, 7) d == Num(cs, 9, 10) IN
                       m \in 1..12 /\ d >= 1 /\ d <= DaysIn(y, m)
\* RFC 3986 asks for a scheme: ALPHA *( ALPHA / DIGIT / "+" / "-" / "." ) ":"; no white space or control characters anywhere
FormatURI(cs) == /\ Len(cs) >= 2 /\ IsAlpha(cs[1])
                 /\ \E j \in 2..Len(cs) : cs[j] = 58 /\ \A k \in 2..(j - 1) : IsAlpha(cs[k]) \/ IsDigit(cs[k]) \/ cs[k] \in {43, 45, 46}
                 /\ \A k \in 1..Len(cs) : cs[k] > 32 /\ cs[k] # 127
KnownFormats == {"uuid", "date", "uri"}
FormatHolds(f, cs) == CASE f = "uuid" -> FormatUUID(cs) [] f = "date" -> FormatDate(cs) [] f = "uri" -> FormatURI(cs) [] OTHER -> TRUE

---------------------------------------------------------------------------
(* references *)
Refs == Manifest.refs
RefIdx(text) == {i \in DOMAIN Refs : Refs[i].ref = text}
RECURSIVE Descend(_, _, _)
\* follow pointer segments; result <<ok, node>>
Descend(node, segs, k) ==
    IF k > Len(segs) THEN <<TRUE, node>>
    ELSE IF node.t = "o" /\ Has(node, segs[k]) THEN Descend(Get(node, segs[k]), segs, k + 1)
    ELSE <<FALSE, node>>
\* target of a $ref met in file f: [ok, f, s]
Target(f, text) ==
    IF RefIdx(text) = {} THEN [ok |-> FALSE, f |-> f, s |-> SchemaDoc[f]]
    ELSE LET r == Refs[CHOOSE i \in RefIdx(text) : TRUE]
             tf == IF r.file = 0 THEN f ELSE r.file
         IN  IF tf < 1 THEN [ok |-> FALSE, f |-> f, s |-> SchemaDoc[f]]
             ELSE LET d == Descend(SchemaDoc[tf], r.segs, 1) IN [ok |-> d[1], f |-> tf, s |-> d[2]]

---------------------------------------------------------------------------
(* evaluation *)
TypeNames == {"string", "array", "object", "integer", "boolean", "number", "null"}
IsType(name, x) ==
    CASE name = "string"  -> x.t = "s"
      [] name = "array"   -> x.t = "a"
      [] name = "object"  -> x.t = "o"
      [] name = "boolean" -> x.t = "b"
      [] name = "null"    -> x.t = "z"
      [] name = "number"  -> x.t = "n"
      [] name = "integer" -> x.t = "n" /\ x.int
      [] OTHER -> FALSE
TypeOK(ty, x) == IF ty.t = "s" THEN IsType(ty.v, x)
                 ELSE ty.t = "a" /\ \E i \in DOMAIN ty.v : ty.v[i].t = "s" /\ IsType(ty.v[i].v, x)

RECURSIVE Valid(_, _, _)
Valid(f, s, x) ==
    IF s.t = "b" THEN s.v = "true"
    ELSE IF s.t # "o" THEN FALSE
    ELSE
    /\ Has(s, "$ref") => LET tg == Target(f, Get(s, "$ref").v) IN tg.ok /\ Valid(tg.f, tg.s, x)
    /\ Has(s, "type") => TypeOK(Get(s, "type"), x)
    /\ Has(s, "const") => Eq(Get(s, "const"), x)
    /\ Has(s, "enum") => \E i \in DOMAIN Get(s, "enum").v : Eq(Get(s, "enum").v[i], x)
    /\ x.t = "s" =>
         /\ Has(s, "pattern") => PatternHolds(Get(s, "pattern").v, x.c)
         /\ Has(s, "format") => FormatHolds(Get(s, "format").v, x.c)
         /\ Has(s, "minLength") => Len(x.c) >= Get(s, "minLength").n
         /\ Has(s, "maxLength") => Len(x.c) <= Get(s, "maxLength").n
    /\ x.t = "o" =>
         /\ Has(s, "required") => \A i \in DOMAIN Get(s, "required").v : \E j \in DOMAIN x.k : x.k[j] = Get(s, "required").v[i].v
         /\ Has(s, "properties") => LET ps == Get(s, "properties") IN
                \A j \in DOMAIN x.k : Has(ps, x.k[j]) => Valid(f, Get(ps, x.k[j]), x.v[j])
         /\ Has(s, "patternProperties") => LET pp == Get(s, "patternProperties") IN
                \A p \in DOMAIN pp.k : \A j \in DOMAIN x.k : PatternHolds(pp.k[p], x.kc[j]) => Valid(f, pp.v[p], x.v[j])
         /\ Has(s, "additionalProperties") =>
                \A j \in DOMAIN x.k :
                    (/\ ~(Has(s, "properties") /\ Has(Get(s, "properties"), x.k[j]))
                     /\ ~(Has(s, "patternProperties") /\ \E p \in DOMAIN Get(s, "patternProperties").k : PatternHolds(Get(s, "patternProperties").k[p], x.kc[j])))
                    => Valid(f, Get(s, "additionalProperties"), x.v[j])
    /\ x.t = "a" =>
         /\ Has(s, "items") => \A j \in DOMAIN x.v : Valid(f, Get(s, "items"), x.v[j])
         /\ Has(s, "minItems") => Len(x.v) >= Get(s, "minItems").n
         /\ Has(s, "maxItems") => Len(x.v) <= Get(s, "maxItems").n
    /\ Has(s, "oneOf") => Cardinality({i \in DOMAIN Get(s, "oneOf").v : Valid(f, Get(s, "oneOf").v[i], x)}) = 1
    /\ Has(s, "anyOf") => \E i \in DOMAIN Get(s, "anyOf").v : Valid(f, Get(s, "anyOf").v[i], x)
    /\ Has(s, "allOf") => \A i \in DOMAIN Get(s, "allOf").v : Valid(f, Get(s, "allOf").v[i], x)
    /\ Has(s, "not") => ~Valid(f, Get(s, "not"), x)

\* first failing keyword, for the report
RECURSIVE Why(_, _, _, _)
Why(f, s, x, depth) ==
    IF depth = 0 THEN "..." ELSE
    IF s.t # "o" THEN "false schema"
    ELSE IF Has(s, "$ref") /\ ~Target(f, Get(s, "$ref").v).ok THEN "unresolvable " \o Get(s, "$ref").v
    ELSE IF Has(s, "$ref") /\ ~Valid(Target(f, Get(s, "$ref").v).f, Target(f, Get(s, "$ref").v).s, x)
         THEN Get(s, "$ref").v \o " > " \o Why(Target(f, Get(s, "$ref").v).f, Target(f, Get(s, "$ref").v).s, x, depth - 1)
    ELSE IF Has(s, "type") /\ ~TypeOK(Get(s, "type"), x) THEN "type"
    ELSE IF Has(s, "const") /\ ~Eq(Get(s, "const"), x) THEN "const"
    ELSE IF Has(s, "enum") /\ ~\E i \in DOMAIN Get(s, "enum").v : Eq(Get(s, "enum").v[i], x) THEN "enum"
    ELSE IF x.t = "s" /\ Has(s, "pattern") /\ ~PatternHolds(Get(s, "pattern").v, x.c) THEN "pattern " \o Get(s, "pattern").v \o " value=" \o x.v
    ELSE IF x.t = "s" /\ Has(s, "format") /\ ~FormatHolds(Get(s, "format").v, x.c) THEN "format " \o Get(s, "format").v \o " value=" \o x.v
    ELSE IF x.t = "s" /\ Has(s, "minLength") /\ ~(Len(x.c) >= Get(s, "minLength").n) THEN "minLength"
    ELSE IF x.t = "s" /\ Has(s, "maxLength") /\ ~(Len(x.c) <= Get(s, "maxLength").n) THEN "maxLength"
    ELSE IF x.t = "o" /\ Has(s, "required") /\ \E i \in DOMAIN Get(s, "required").v : ~\E j \in DOMAIN x.k : x.k[j] = Get(s, "required").v[i].v
         THEN "required " \o Get(s, "required").v[CHOOSE i \in DOMAIN Get(s, "required").v : ~\E j \in DOMAIN x.k : x.k[j] = Get(s, "required").v[i].v].v
    ELSE IF x.t = "o" /\ Has(s, "properties") /\ \E j \in DOMAIN x.k : Has(Get(s, "properties"), x.k[j]) /\ ~Valid(f, Get(Get(s, "properties"), x.k[j]), x.v[j])
         THEN LET j == CHOOSE j \in DOMAIN x.k : Has(Get(s, "properties"), x.k[j]) /\ ~Valid(f, Get(Get(s, "properties"), x.k[j]), x.v[j])
              IN x.k[j] \o " > " \o Why(f, Get(Get(s, "properties"), x.k[j]), x.v[j], depth - 1)
    ELSE IF x.t = "o" /\ Has(s, "patternProperties")
              /\ \E p \in DOMAIN Get(s, "patternProperties").k : \E j \in DOMAIN x.k :
                     PatternHolds(Get(s, "patternProperties").k[p], x.kc[j]) /\ ~Valid(f, Get(s, "patternProperties").v[p], x.v[j])
         THEN LET pp == Get(s, "patternProperties")
                  pj == CHOOSE pj \in (DOMAIN pp.k) \X (DOMAIN x.k) : PatternHolds(pp.k[pj[1]], x.kc[pj[2]]) /\ ~Valid(f, pp.v[pj[1]], x.v[pj[2]])
              IN x.k[pj[2]] \o " > " \o Why(f, pp.v[pj[1]], x.v[pj[2]], depth - 1)
    ELSE IF x.t = "a" /\ Has(s, "items") /\ \E j \in DOMAIN x.v : ~Valid(f, Get(s, "items"), x.v[j])
         THEN "items > " \o Why(f, Get(s, "items"), x.v[CHOOSE j \in DOMAIN x.v : ~Valid(f, Get(s, "items"), x.v[j])], depth - 1)
    ELSE IF Has(s, "oneOf") /\ Cardinality({i \in DOMAIN Get(s, "oneOf").v : Valid(f, Get(s, "oneOf").v[i], x)}) # 1 THEN "oneOf"
    ELSE IF Has(s, "anyOf") /\ ~\E i \in DOMAIN Get(s, "anyOf").v : Valid(f, Get(s, "anyOf").v[i], x) THEN "anyOf"
    ELSE "other"

---------------------------------------------------------------------------
(* well-formedness of a schema (sub)document *)
Annotations == {"title", "description", "$comment", "examples", "default", "deprecated", "readOnly", "writeOnly",
                "contentEncoding", "contentMediaType", "content", "calculated", "recommended", "$schema", "$id", "$anchor"}
SchemaMaps == {"properties", "patternProperties", "$defs"}
SchemaLists == {"oneOf", "anyOf", "allOf"}
SingleSchemas == {"items", "additionalProperties", "not", "contains", "propertyNames"}
NatKeywords == {"minLength", "maxLength", "minItems", "maxItems"}
Evaluated == {"$ref", "type", "const", "enum", "pattern", "format", "required"} \cup SchemaMaps \cup SchemaLists \cup SingleSchemas \cup NatKeywords
IsNat(n) == n.t = "n" /\ n.int /\ n.n >= 0

RECURSIVE WF(_, _)
\* the set of problems of schema node s in file f
WF(f, s) ==
    IF s.t = "b" THEN {}
    ELSE IF s.t # "o" THEN {"a schema must be an object or a boolean"}
    ELSE UNION {
        LET key == s.k[i] val == s.v[i] IN
        CASE key = "$ref" -> IF val.t # "s" THEN {"$ref must be a string"} ELSE IF ~Target(f, val.v).ok THEN {"unresolvable $ref " \o val.v} ELSE {}
          [] key = "type" -> IF val.t = "s" THEN (IF val.v \in TypeNames THEN {} ELSE {"unknown type " \o val.v})
                             ELSE IF val.t = "a" /\ \A j \in DOMAIN val.v : val.v[j].t = "s" /\ val.v[j].v \in TypeNames THEN {} ELSE {"bad type keyword"}
          [] key = "required" -> IF val.t = "a" /\ (\A j \in DOMAIN val.v : val.v[j].t = "s") /\ Cardinality({val.v[j].v : j \in DOMAIN val.v}) = Len(val.v)
                                 THEN {} ELSE {"required must be an array of unique strings"}
          [] key = "enum" -> IF val.t = "a" THEN {} ELSE {"enum must be an array"}
          [] key = "const" -> {}
          [] key = "pattern" -> IF val.t = "s" /\ PatternKnown(val.v) THEN {} ELSE {"pattern is not a regular expression"}
          [] key = "format" -> IF val.t = "s" THEN {} ELSE {"format must be a string"}
          [] key \in NatKeywords -> IF IsNat(val) THEN {} ELSE {key \o " must be a non-negative integer"}
          [] key \in SchemaMaps -> IF val.t # "o" THEN {key \o " must be an object"}
                                   ELSE UNION {WF(f, val.v[j]) : j \in DOMAIN val.v}
                                        \cup (IF key = "patternProperties" THEN UNION {IF PatternKnown(val.k[j]) THEN {} ELSE {"patternProperties key is not a regular expression"} : j \in DOMAIN val.k} ELSE {})
          [] key \in SchemaLists -> IF val.t # "a" \/ Len(val.v) = 0 THEN {key \o " must be a non-empty array"} ELSE UNION {WF(f, val.v[j]) : j \in DOMAIN val.v}
          [] key \in SingleSchemas -> WF(f, val)
          [] key \in Annotations -> {}
          [] OTHER -> {"unknown keyword " \o key}
        : i \in DOMAIN s.k}
FileProblems(f) == LET d == SchemaDoc[f] IN
    (IF Has(d, "$schema") /\ Get(d, "$schema").t = "s" /\ Get(d, "$schema").v = "https://json-schema.org/draft/2020-12/schema" THEN {} ELSE {"$schema is not draft 2020-12"})
    \cup (IF Has(d, "$id") /\ Get(d, "$id").t = "s" /\ Cardinality({g \in DOMAIN Files : Files[g].id = Files[f].id}) = 1 THEN {} ELSE {"$id missing or not unique"})
    \cup WF(f, d)

\* the schema published for a document type
FileFor(id) == {f \in DOMAIN Files : Files[f].id = id}
=============================================================================
