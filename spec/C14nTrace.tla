----------------------------- MODULE C14nTrace -----------------------------
(* Trace specification for C14n.tla.  Events:                               *)
(*   canon  an abstract value v rendered in some style -> output            *)
(*          accepted iff the call succeeded and output = Canon(v)           *)
(*   char   the one-character string <<cp>> -> output = StrText(<<cp>>)     *)
(*   bad    a text that is not exactly one complete JSON value (or not      *)
(*          valid UTF-8, or a number that cannot be represented)            *)
(*          accepted iff the call returned an error (and did not panic)     *)
EXTENDS C14n, TLC, Json, IOUtils
Trace == ndJsonDeserialize(IOEnv.TRACE)
VARIABLES i, bad, nontrivial
vars == <<i, bad, nontrivial>>
Init == i = 1 /\ bad = <<>> /\ nontrivial = 0

Verdict(ev) ==
    CASE ev.k = "canon" -> IF ev.panic THEN "panic" ELSE IF ~ev.ok THEN "rejects-valid"
                           ELSE IF ~ev.utf8 THEN "output-not-utf8"
                           ELSE IF ev.out = Canon(ev.v) THEN "ok" ELSE "differs"
      [] ev.k = "char"  -> IF ev.panic THEN "panic" ELSE IF ~ev.ok THEN "rejects-valid"
                           ELSE IF ~ev.utf8 THEN "output-not-utf8"
                           ELSE IF ev.out = StrText(<<ev.cp>>) THEN "ok" ELSE "differs"
      [] ev.k = "bad"   -> IF ev.panic THEN "panic" ELSE IF ev.ok THEN "accepts-invalid" ELSE "ok"

RECURSIVE Depth(_)
Depth(v) == CASE v.t = "obj" -> 1 + (IF v.m = <<>> THEN 0 ELSE LET S == {Depth(v.m[j].v) : j \in DOMAIN v.m} IN CHOOSE x \in S : \A y \in S : y <= x)
              [] v.t = "arr" -> 1 + (IF v.a = <<>> THEN 0 ELSE LET S == {Depth(v.a[j]) : j \in DOMAIN v.a} IN CHOOSE x \in S : \A y \in S : y <= x)
              [] OTHER -> 0
Step == /\ i <= Len(Trace)
        /\ LET ev == Trace[i]
               v  == Verdict(ev)
           IN  /\ bad' = IF v = "ok" THEN bad ELSE Append(bad, <<i, v>>)
               /\ nontrivial' = nontrivial + (IF ev.k = "bad" \/ (ev.k = "canon" /\ Depth(ev.v) >= 1) \/ (ev.k = "char" /\ ev.cp < 128) THEN 1 ELSE 0)
        /\ i' = i + 1
Spec == Init /\ [][Step]_vars
Done == i = Len(Trace) + 1
Report == Done => JsonSerialize(IOEnv.RESULT, [events |-> Len(Trace), bad |-> bad, nontrivial |-> nontrivial])
=============================================================================
