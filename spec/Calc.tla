-------------------------------- MODULE Calc --------------------------------
(***************************************************************************)
(* The document calculation pipeline of GOBL (C01, C03, C17), one operator *)
(* per stage of bill.calculate, in its order:                              *)
(*   Lines -> DocDiscounts -> DocCharges -> Taxes -> Totals -> Payment     *)
(*   -> Present (presentation rounding)                                    *)
(* over Decimal.tla / TaxTotals.tla.  cd = the currency's decimals,        *)
(* rr = "precise" | "currency".  Working precision: cd+2 under precise,    *)
(* cd under currency; every presented total has cd decimals.               *)
(*                                                                         *)
(* Document == [cd, rr, inc, rounding : Opt(Amount),                       *)
(*   lines : Seq([qty, price, icd, fx : Opt(rate), alt : Opt(Amount),      *)
(*                discounts, charges, taxes, subs : Seq(sub-line)]),       *)
(*   sub-line == [qty, price, icd, fx, alt, discounts, charges]: when a    *)
(*   line has a breakdown its item price is the sum of the sub-line totals *)
(*   discounts : Seq([pct : Opt, base : Opt, amount, taxes]),              *)
(*   charges   : Seq([pct : Opt, base : Opt, amount, taxes]),              *)
(*   advances  : Seq([pct : Opt, amount]),  dues : Seq([pct : Opt, amount])]      *)
(* line discount == [pct : Opt, base : Opt, amount]                        *)
(* line charge   == [pct : Opt, base : Opt, amount, rate : Opt, q : Opt]   *)
(***************************************************************************)
EXTENDS TaxTotals

Rule(rr, cd, a) == IF rr = "currency" THEN Rescale(a, cd) ELSE RescaleUp(a, cd)
WorkExp(rr, cd) == IF rr = "precise" THEN cd + 2 ELSE cd
NonZeroPct(o) == Has(o) /\ ~IsZero(Val(o).v)

---------------------------------------------------------------------------
(* stage 1: lines *)

\* the item price in the document currency, at no less than the currency's precision
\* An item in another currency (fx and/or alt given) takes its alternative price in the document
\* currency when it has one, otherwise it is converted with the exchange rate.
ItemPrice(l, cd) ==
    LET p0 == RescaleUp(l.price, l.icd)           \* presented in its own currency
    IN  IF Has(l.alt) THEN RescaleUp(Val(l.alt), cd)
        ELSE IF Has(l.fx) THEN Convert(p0, Val(l.fx), cd) ELSE RescaleUp(l.price, cd)

\* a percentage discount/charge is taken of the line sum, or of its explicit base
PctBase(x, sum, cd, rr) ==
    IF Has(x.base) THEN Rule(rr, cd, RescaleUp(RescaleUp(Val(x.base), cd), cd + 2)) ELSE sum
LineDiscAmount(d, sum, cd, rr) ==
    RescaleUp(IF NonZeroPct(d.pct) THEN POf(Val(d.pct), PctBase(d, sum, cd, rr)) ELSE d.amount, cd)
LineChargeAmount(c, qty, sum, cd, rr) ==
    LET a1 == IF NonZeroPct(c.pct) THEN POf(Val(c.pct), PctBase(c, sum, cd, rr)) ELSE c.amount
        a2 == IF Has(c.rate) THEN AMul(Val(c.rate), IF Has(c.q) THEN Val(c.q) ELSE qty) ELSE a1
    IN  RescaleUp(a2, cd)

RECURSIVE SubAll(_, _, _), AddAll(_, _, _)
SubAll(t, amts, i) == IF i > Len(amts) THEN t ELSE SubAll(ASub(t, amts[i]), amts, i + 1)
AddAll(t, amts, i) == IF i > Len(amts) THEN t ELSE AddAll(AAdd(t, amts[i]), amts, i + 1)

\* a sub-line is calculated like a line, except that its price is only raised to the working precision
\* under the precise rule (under 'currency' it keeps the precision it was given)
CalcSub(sl, cd, rr) ==
    LET ip   == ItemPrice(sl, cd)
        p    == IF rr = "precise" THEN RescaleUp(ip, cd + 2) ELSE ip
        sum  == Rule(rr, cd, AMul(p, sl.qty))
        das  == [i \in DOMAIN sl.discounts |-> LineDiscAmount(sl.discounts[i], sum, cd, rr)]
        cas  == [i \in DOMAIN sl.charges |-> LineChargeAmount(sl.charges[i], sl.qty, sum, cd, rr)]
    IN  [price |-> ip, sum |-> sum, total |-> AddAll(SubAll(sum, das, 1), cas, 1)]

RECURSIVE PSum(_, _, _)
\* the price of a line with a breakdown: the precision-raising sum of the sub-line totals, rounded to the
\* finest precision among the sub-lines' (converted) item prices
BreakdownPrice(scs, cd) ==
    LET S == {scs[i].price.e : i \in DOMAIN scs}
        e == CHOOSE x \in S : \A y \in S : y <= x
    IN  Rescale(PSum(ZeroAt(cd), [i \in DOMAIN scs |-> scs[i].total], 1), e)

CalcLine(l, cd, rr) ==
    LET scs  == [i \in DOMAIN l.subs |-> CalcSub(l.subs[i], cd, rr)]
        ip   == IF l.subs = <<>> THEN ItemPrice(l, cd) ELSE RescaleUp(BreakdownPrice(scs, cd), cd)
        p    == RescaleUp(ip, WorkExp(rr, cd))
        sum  == Rule(rr, cd, AMul(p, l.qty))
        das  == [i \in DOMAIN l.discounts |-> LineDiscAmount(l.discounts[i], sum, cd, rr)]
        cas  == [i \in DOMAIN l.charges |-> LineChargeAmount(l.charges[i], l.qty, sum, cd, rr)]
        tot  == AddAll(SubAll(sum, das, 1), cas, 1)
    IN  [price |-> ip, sum |-> sum, total |-> tot, damts |-> das, camts |-> cas, subs |-> scs]

\* precision-raising sum from zero at cd
PSum(acc, xs, i) == IF i > Len(xs) THEN acc ELSE PSum(AAdd(MatchPrecision(acc, xs[i]), xs[i]), xs, i + 1)

---------------------------------------------------------------------------
(* stages 2 and 3: document discounts and charges *)
DocAdjAmount(x, sum, cd, rr) ==
    LET base == IF Has(x.base) THEN Rule(rr, cd, RescaleUp(Val(x.base), cd + 2)) ELSE sum
    IN  Rule(rr, cd, IF NonZeroPct(x.pct) THEN POf(Val(x.pct), base) ELSE x.amount)

---------------------------------------------------------------------------
(* the whole calculation; the result records every figure the document presents *)
Calculate(d) ==
    LET cd    == d.cd
        rr    == d.rr
        ls    == [i \in DOMAIN d.lines |-> CalcLine(d.lines[i], cd, rr)]
        sum   == PSum(ZeroAt(cd), [i \in DOMAIN ls |-> ls[i].total], 1)
        das   == [i \in DOMAIN d.discounts |-> DocAdjAmount(d.discounts[i], sum, cd, rr)]
        cas   == [i \in DOMAIN d.charges |-> DocAdjAmount(d.charges[i], sum, cd, rr)]
        dsum  == PSum(ZeroAt(cd), das, 1)
        csum  == PSum(ZeroAt(cd), cas, 1)
        t1    == IF das = <<>> THEN sum ELSE ASub(sum, dsum)
        t2    == IF cas = <<>> THEN t1 ELSE AAdd(t1, csum)
        rows  == [i \in DOMAIN ls |-> [total |-> ls[i].total, taxes |-> d.lines[i].taxes]]
                 \o [i \in DOMAIN das |-> [total |-> ANeg(das[i]), taxes |-> d.discounts[i].taxes]]
                 \o [i \in DOMAIN cas |-> [total |-> cas[i], taxes |-> d.charges[i].taxes]]
        tx    == Build(rows, cd, rr, d.inc)
        ici   == FirstIdx(tx.cats, LAMBDA c : c.code = d.inc)
        \* the precise amount accessor falls back on the presented amount when the precise one is zero
        ti    == IF d.inc # "" /\ ici # 0
                 THEN Some(IF IsZero(tx.cats[ici].pamount.v) THEN tx.cats[ici].amount ELSE tx.cats[ici].pamount) ELSE None
        t3    == IF Has(ti) THEN ASub(t2, Val(ti)) ELSE t2
        tax   == IF IsZero(tx.psum.v) THEN tx.sum ELSE tx.psum
        twt   == AAdd(t3, tax)
        pay   == IF Has(d.rounding) THEN AAdd(twt, Val(d.rounding)) ELSE twt
        advs  == [i \in DOMAIN d.advances |->
                     RescaleUp(IF Has(d.advances[i].pct) THEN POf(Val(d.advances[i].pct), twt) ELSE d.advances[i].amount, cd)]
        adv   == PSum(ZeroAt(cd), advs, 1)
        due   == ASub(pay, adv)
        dues  == [i \in DOMAIN d.dues |->
                     Rescale(IF NonZeroPct(d.dues[i].pct) THEN POf(Val(d.dues[i].pct), pay) ELSE d.dues[i].amount, cd)]
    IN  [ \* presentation rounding: lines to the item price's precision, totals to cd
          lines |-> [i \in DOMAIN ls |->
                        LET e == ls[i].price.e IN
                        [price |-> ls[i].price, sum |-> RescaleDown(ls[i].sum, e), total |-> RescaleDown(ls[i].total, e),
                         damts |-> [j \in DOMAIN ls[i].damts |-> RescaleDown(ls[i].damts[j], e)],
                         camts |-> [j \in DOMAIN ls[i].camts |-> RescaleDown(ls[i].camts[j], e)],
                         subs  |-> [j \in DOMAIN ls[i].subs |-> [price |-> ls[i].subs[j].price, sum |-> RescaleDown(ls[i].subs[j].sum, e),
                                                                  total |-> RescaleDown(ls[i].subs[j].total, e)]]]],
          damts |-> [i \in DOMAIN das |-> RescaleDown(das[i], IF Has(d.discounts[i].base) THEN Val(d.discounts[i].base).e ELSE cd)],
          camts |-> [i \in DOMAIN cas |-> RescaleDown(cas[i], IF Has(d.charges[i].base) THEN Val(d.charges[i].base).e ELSE cd)],
          sum |-> Rescale(sum, cd),
          discount |-> IF das = <<>> THEN None ELSE Some(Rescale(dsum, cd)),
          charge |-> IF cas = <<>> THEN None ELSE Some(Rescale(csum, cd)),
          taxincluded |-> IF Has(ti) THEN Some(Rescale(Val(ti), cd)) ELSE None,
          total |-> Rescale(t3, cd),
          tax |-> Rescale(tax, cd),
          twt |-> Rescale(twt, cd),
          payable |-> Rescale(pay, cd),
          advance |-> IF d.advances = <<>> THEN None ELSE Some(Rescale(adv, cd)),
          due |-> IF d.advances = <<>> THEN None ELSE Some(Rescale(due, cd)),
          advs |-> [i \in DOMAIN advs |-> Rescale(advs[i], cd)],
          dues |-> dues,
          taxes |-> tx,
          \* unrounded working values, for the precision clause of C01
          w |-> [sum |-> sum, total |-> t3, tax |-> tax, twt |-> twt, payable |-> pay] ]

---------------------------------------------------------------------------
(* C03: under 'currency' every presented figure re-adds exactly from the other presented figures *)
OptVal(o, cd) == IF Has(o) THEN Val(o) ELSE ZeroAt(cd)
RECURSIVE SumSeq(_, _, _)
SumSeq(xs, i, e) == IF i > Len(xs) THEN AOf(0, e) ELSE AAdd(Rescale(xs[i], e), SumSeq(xs, i + 1, e))
MaxExp(xs) == IF xs = <<>> THEN 0 ELSE LET S == {xs[i].e : i \in DOMAIN xs} IN CHOOSE x \in S : \A y \in S : y <= x

\* r is the presented result of document d.  E = a precision at least as fine as every figure involved.
ReAdds(d, r) ==
    LET cd == d.cd
        E  == 12
        X(a) == Rescale(a, E)
    IN
    /\ \A i \in DOMAIN r.lines :
          X(r.lines[i].total) = AAdd(ASub(X(r.lines[i].sum), SumSeq(r.lines[i].damts, 1, E)), SumSeq(r.lines[i].camts, 1, E))
    /\ X(r.sum) = SumSeq([i \in DOMAIN r.lines |-> r.lines[i].total], 1, E)
    /\ (Has(r.discount) => X(Val(r.discount)) = SumSeq(r.damts, 1, E))
    /\ (Has(r.charge) => X(Val(r.charge)) = SumSeq(r.camts, 1, E))
    /\ X(r.total) = ASub(AAdd(ASub(X(r.sum), X(OptVal(r.discount, cd))), X(OptVal(r.charge, cd))), X(OptVal(r.taxincluded, cd)))
    /\ \A a \in DOMAIN r.taxes.cats :
          LET c == r.taxes.cats[a] IN
          /\ \A b \in DOMAIN c.rates :
                Has(c.rates[b].pct) =>
                    /\ c.rates[b].amount = Rescale(POf(Val(c.rates[b].pct), c.rates[b].base), cd)
                    /\ (Has(c.rates[b].sur) => Val(c.rates[b].sur).amount = Rescale(POf(Val(c.rates[b].sur).pct, c.rates[b].base), cd))
          /\ X(c.amount) = SumSeq([b \in DOMAIN c.rates |-> c.rates[b].amount], 1, E)
          /\ (Has(c.sur) => X(Val(c.sur)) = SumSeq([b \in DOMAIN c.rates |-> IF Has(c.rates[b].sur) THEN Val(c.rates[b].sur).amount ELSE ZeroAt(cd)], 1, E))
    /\ X(r.tax) = X(r.taxes.sum)
    /\ X(r.taxes.sum) = X(SignedSum([a \in DOMAIN r.taxes.cats |-> [r.taxes.cats[a] EXCEPT !.pamount = r.taxes.cats[a].amount]], 1, E))
    /\ X(r.twt) = AAdd(X(r.total), X(r.tax))
    /\ X(r.payable) = AAdd(X(r.twt), X(OptVal(d.rounding, cd)))
    /\ (Has(r.advance) => /\ X(Val(r.advance)) = SumSeq(r.advs, 1, E)
                          /\ X(Val(r.due)) = ASub(X(r.payable), X(Val(r.advance))))

\* no figure carries more decimals than the currency (lines: than the item price)
NoExtraDecimals(d, r) ==
    LET cd == d.cd IN
    /\ \A i \in DOMAIN r.lines : LET e == IF r.lines[i].price.e > cd THEN r.lines[i].price.e ELSE cd IN
          /\ r.lines[i].sum.e <= e /\ r.lines[i].total.e <= e
          /\ \A j \in DOMAIN r.lines[i].damts : r.lines[i].damts[j].e <= e
          /\ \A j \in DOMAIN r.lines[i].camts : r.lines[i].camts[j].e <= e
    /\ r.sum.e = cd /\ r.total.e = cd /\ r.tax.e = cd /\ r.twt.e = cd /\ r.payable.e = cd
    /\ (Has(r.discount) => Val(r.discount).e = cd) /\ (Has(r.charge) => Val(r.charge).e = cd)
    /\ (Has(r.taxincluded) => Val(r.taxincluded).e = cd)
    /\ (Has(r.advance) => Val(r.advance).e = cd /\ Val(r.due).e = cd)
    /\ \A i \in DOMAIN r.advs : r.advs[i].e = cd
    /\ \A i \in DOMAIN r.dues : r.dues[i].e = cd

---------------------------------------------------------------------------
(* C17: negation and permutation *)
NegOpt(o) == IF Has(o) THEN Some(ANeg(Val(o))) ELSE None
\* the mirror image of a document: quantities negated, fixed amounts negated
NegLine(l) == [l EXCEPT !.qty = ANeg(@),
                        !.discounts = [i \in DOMAIN @ |-> [@[i] EXCEPT !.amount = ANeg(@), !.base = NegOpt(@)]],
                        !.charges = [i \in DOMAIN @ |-> [@[i] EXCEPT !.amount = ANeg(@), !.base = NegOpt(@), !.q = NegOpt(@)]]]
NegDoc(d) == [d EXCEPT !.lines = [i \in DOMAIN @ |-> NegLine(@[i])],
                       !.discounts = [i \in DOMAIN @ |-> [@[i] EXCEPT !.amount = ANeg(@), !.base = NegOpt(@)]],
                       !.charges = [i \in DOMAIN @ |-> [@[i] EXCEPT !.amount = ANeg(@), !.base = NegOpt(@)]],
                       !.advances = [i \in DOMAIN @ |-> [@[i] EXCEPT !.amount = ANeg(@)]],
                       !.dues = [i \in DOMAIN @ |-> [@[i] EXCEPT !.amount = ANeg(@)]],
                       !.rounding = NegOpt(@)]
\* figure-by-figure negation of a result
NegRes(r) == [r EXCEPT !.lines = [i \in DOMAIN @ |-> [@[i] EXCEPT !.sum = ANeg(@), !.total = ANeg(@),
                                                        !.damts = [j \in DOMAIN @ |-> ANeg(@[j])], !.camts = [j \in DOMAIN @ |-> ANeg(@[j])]]],
                      !.damts = [i \in DOMAIN @ |-> ANeg(@[i])], !.camts = [i \in DOMAIN @ |-> ANeg(@[i])],
                      !.sum = ANeg(@), !.discount = NegOpt(@), !.charge = NegOpt(@), !.taxincluded = NegOpt(@),
                      !.total = ANeg(@), !.tax = ANeg(@), !.twt = ANeg(@), !.payable = ANeg(@),
                      !.advance = NegOpt(@), !.due = NegOpt(@),
                      !.advs = [i \in DOMAIN @ |-> ANeg(@[i])], !.dues = [i \in DOMAIN @ |-> ANeg(@[i])],
                      !.taxes = Negate(@),
                      !.w = [sum |-> ANeg(r.w.sum), total |-> ANeg(r.w.total), tax |-> ANeg(r.w.tax), twt |-> ANeg(r.w.twt), payable |-> ANeg(r.w.payable)]]
\* the presented figures only (what a reader of the document sees)
Presented(r) == [r EXCEPT !.w = <<>>,
                          !.taxes = [r.taxes EXCEPT !.psum = r.taxes.sum,
                                        !.cats = [a \in DOMAIN r.taxes.cats |-> [r.taxes.cats[a] EXCEPT !.pamount = r.taxes.cats[a].amount]]]]
=============================================================================
