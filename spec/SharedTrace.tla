----------------------------- MODULE SharedTrace -----------------------------
(* Trace specification for Shared.tla: registry fingerprints and results of    *)
(* concurrent operations, plus any report of the Go race detector (RaceReport  *)
(* events are appended by the driver; no action of the specification accepts   *)
(* them).                                                                      *)
EXTENDS Integers, Sequences, TLC, Json, IOUtils
Trace == ndJsonDeserialize(IOEnv.TRACE)
VARIABLES i, registry, bad, results
vars == <<i, registry, bad, results>>
Init == i = 1 /\ registry = "" /\ bad = <<>> /\ results = 0
Step == /\ i <= Len(Trace) /\ i' = i + 1
        /\ LET ev == Trace[i] IN
           IF ev.k = "registry"
           THEN /\ registry' = IF ev.op = "before" THEN ev.got ELSE registry
                /\ results' = results
                /\ bad' = IF ev.op # "before" /\ ev.got # registry THEN Append(bad, <<i, "registry-changed:" \o ev.op>>) ELSE bad
           ELSE IF ev.k = "result"
           THEN /\ UNCHANGED registry /\ results' = results + 1
                /\ bad' = IF ev.same THEN bad ELSE Append(bad, <<i, "result-differs:" \o ev.op>>)
           ELSE /\ UNCHANGED <<registry, results>>
                /\ bad' = Append(bad, <<i, "race-report">>)
Spec == Init /\ [][Step]_vars
Done == i = Len(Trace) + 1
Report == Done => JsonSerialize(IOEnv.RESULT, [events |-> Len(Trace), bad |-> bad, results |-> results])
=============================================================================
