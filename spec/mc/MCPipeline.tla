---------------------------- MODULE MCPipeline ----------------------------
(* All operation sequences up to MaxLen; the histories are exported and    *)
(* replayed on real documents.                                             *)
EXTENDS Pipeline, Json, IOUtils, FiniteSets, SequencesExt
CONSTANT MaxLen
Bound == Len(hist) <= MaxLen
RECURSIVE Seqs(_)
Seqs(n) == IF n = 0 THEN {<<>>} ELSE LET S == Seqs(n - 1) IN S \cup {Append(x, o) : x \in {y \in S : Len(y) = n - 1}, o \in Ops}
Export == IF "OUT" \in DOMAIN IOEnv THEN ndJsonSerialize(IOEnv.OUT, SetToSeq({[ops |-> s] : s \in {x \in Seqs(MaxLen) : Len(x) = MaxLen}})) ELSE TRUE
ASSUME Export
=============================================================================
