---------------------------- MODULE MCCorrection ----------------------------
(* Enumerates the option combinations x source states; checks on an abstract *)
(* definition family that refusal and acceptance are complementary and that  *)
(* a satisfiable request exists for every definition.  Exports the combos.   *)
EXTENDS Correction, Json, IOUtils, SequencesExt
TypesAll == {"credit-note", "corrective", "debit-note", "standard", ""}
States == {"signed-stamped", "signed", "draft", "nocode"}
\* partial: of the stamps the merged definitions ask for (regime first, then each addon) only the first, or all but
\* the first, are offered -- by the request and, in state signed-stamped, by the source header alike
Combos == {[type |-> t, reason |-> a, ext |-> b, stamps |-> c, series |-> d, date |-> e, copytax |-> f, state |-> s, partial |-> ""] :
              t \in TypesAll, a \in BOOLEAN, b \in BOOLEAN, c \in BOOLEAN, d \in BOOLEAN, e \in BOOLEAN, f \in BOOLEAN, s \in States}
          \cup {[type |-> t, reason |-> TRUE, ext |-> TRUE, stamps |-> c, series |-> FALSE, date |-> FALSE, copytax |-> FALSE, state |-> s, partial |-> p] :
              t \in TypesAll \ {""}, c \in BOOLEAN, s \in {"signed-stamped", "signed", "draft"}, p \in {"first", "rest"}}
Offered(all, p) == IF p = "first" /\ all # <<>> THEN <<all[1]>> ELSE IF p = "rest" /\ all # <<>> THEN Tail(all) ELSE all
DefFamily == {<<[types |-> ts, extensions |-> <<>>, reason_required |-> rr, stamps |-> st, copy_tax |-> FALSE]>> :
                 ts \in {<<>>, <<"credit-note">>, <<"credit-note", "corrective">>}, rr \in BOOLEAN, st \in {<<>>, <<"p1">>}}
             \cup {<<[types |-> <<>>, extensions |-> <<>>, reason_required |-> FALSE, stamps |-> <<"p1">>, copy_tax |-> FALSE],
                     [types |-> <<>>, extensions |-> <<>>, reason_required |-> rr, stamps |-> st, copy_tax |-> FALSE]>> : rr \in BOOLEAN, st \in {<<>>, <<"p2">>, <<"p1">>}}
VARIABLES combo, defs, verdict
vars == <<combo, defs, verdict>>
Ev == [combo |-> combo, defs |-> defs, src_code |-> IF combo.state = "nocode" THEN "" ELSE "001",
       req_stamps |-> IF combo.stamps THEN Offered(AllStamps(defs), combo.partial) ELSE <<>>,
       src_stamps |-> IF combo.state = "signed-stamped" THEN Offered(AllStamps(defs), combo.partial) ELSE <<>>]
\* whenever one of several required stamps is offered by nobody, the correction is refused
PartialRefused == (verdict # "pending" /\ combo.partial # "" /\ Cardinality(Stamps(defs)) >= 2) => verdict = "refuse"
Init == combo \in Combos /\ defs \in DefFamily /\ verdict = "pending"
Decide == verdict = "pending" /\ verdict' = (IF MustRefuse(Ev) THEN "refuse" ELSE "accept") /\ UNCHANGED <<combo, defs>>
Spec == Init /\ [][Decide]_vars
\* some request is acceptable for every definition (the rules are satisfiable)
Satisfiable == \A d \in DefFamily : \E c \in Combos :
                  ~MustRefuse([combo |-> c, defs |-> d, src_code |-> "001", req_stamps |-> AllStamps(d), src_stamps |-> <<>>])
NoCodeRefused == (verdict # "pending" /\ combo.state = "nocode") => verdict = "refuse"
Export == IF "OUT" \in DOMAIN IOEnv THEN ndJsonSerialize(IOEnv.OUT, SetToSeq(Combos)) ELSE TRUE
ASSUME Export
ASSUME Satisfiable
=============================================================================
