---------------------------- MODULE MCCorrection ----------------------------
(* Enumerates the option combinations x source states; checks on an abstract *)
(* definition family that refusal and acceptance are complementary and that  *)
(* a satisfiable request exists for every definition.  Exports the combos.   *)
EXTENDS Correction, Json, IOUtils, SequencesExt
TypesAll == {"credit-note", "corrective", "debit-note", "standard", ""}
States == {"signed-stamped", "signed", "draft", "nocode"}
Combos == {[type |-> t, reason |-> a, ext |-> b, stamps |-> c, series |-> d, date |-> e, copytax |-> f, state |-> s] :
              t \in TypesAll, a \in BOOLEAN, b \in BOOLEAN, c \in BOOLEAN, d \in BOOLEAN, e \in BOOLEAN, f \in BOOLEAN, s \in States}
DefFamily == {<<[types |-> ts, extensions |-> <<>>, reason_required |-> rr, stamps |-> st, copy_tax |-> FALSE]>> :
                 ts \in {<<>>, <<"credit-note">>, <<"credit-note", "corrective">>}, rr \in BOOLEAN, st \in {<<>>, <<"p1">>}}
VARIABLES combo, defs, verdict
vars == <<combo, defs, verdict>>
Ev == [combo |-> combo, defs |-> defs, src_code |-> IF combo.state = "nocode" THEN "" ELSE "001",
       req_stamps |-> IF combo.stamps THEN <<"p1">> ELSE <<>>, src_stamps |-> IF combo.state = "signed-stamped" THEN <<"p1">> ELSE <<>>]
Init == combo \in Combos /\ defs \in DefFamily /\ verdict = "pending"
Decide == verdict = "pending" /\ verdict' = (IF MustRefuse(Ev) THEN "refuse" ELSE "accept") /\ UNCHANGED <<combo, defs>>
Spec == Init /\ [][Decide]_vars
\* some request is acceptable for every definition (the rules are satisfiable)
Satisfiable == \A d \in DefFamily : \E c \in Combos :
                  ~MustRefuse([combo |-> c, defs |-> d, src_code |-> "001", req_stamps |-> <<"p1">>, src_stamps |-> <<>>])
NoCodeRefused == (verdict # "pending" /\ combo.state = "nocode") => verdict = "refuse"
Export == IF "OUT" \in DOMAIN IOEnv THEN ndJsonSerialize(IOEnv.OUT, SetToSeq(Combos)) ELSE TRUE
ASSUME Export
ASSUME Satisfiable
=============================================================================
