SPECIFICATION Spec
INVARIANTS TablesOrdered Unambiguous StartDateIncluded NothingBeforeFirst
CHECK_DEADLOCK FALSE
