---------------------------- MODULE MCTaxTotals ----------------------------
(***************************************************************************)
(* Small-scope model of TaxTotals.tla: every sequence of up to MaxRows     *)
(* taxable rows drawn from a combo alphabet built to collide (same percent *)
(* with/without surcharge, different extension, different country, exempt  *)
(* vs 0%, retained vs ordinary), amounts from a tie-directed set, both     *)
(* rounding rules, with and without an included category.  A second phase  *)
(* combines the summaries pairwise / triple-wise.  Invariants are the      *)
(* declarative laws of C02 and C20.                                        *)
(***************************************************************************)
EXTENDS TaxTotals, TLC, Json, IOUtils, FiniteSets, SequencesExt
CONSTANTS MaxRows, Scope, Triples

Totals == IF Scope = "quick" THEN {<<1005, 2>>, <<0 - 1005, 2>>, <<333, 2>>, <<0, 2>>, <<12345, 4>>}
          ELSE {<<1005, 2>>, <<0 - 1005, 2>>, <<333, 2>>, <<0, 2>>, <<12345, 4>>, <<995, 3>>}

P(v, e) == Some(AOf(v, e))
Combo(cat, ret, key, country, ext, pct, sur) ==
    [cat |-> cat, ret |-> ret, key |-> key, country |-> country, ext |-> ext, pct |-> pct, sur |-> sur]
VatStd   == Combo("VAT", FALSE, "standard", "", "", P(21, 2), None)
VatStdX  == Combo("VAT", FALSE, "", "", "", P(210, 3), None)              \* same percentage, other spelling
VatEqs   == Combo("VAT", FALSE, "standard+eqs", "", "", P(21, 2), P(52, 3))
VatExt   == Combo("VAT", FALSE, "standard", "", "k=a", P(21, 2), None)
VatPT    == Combo("VAT", FALSE, "standard", "PT", "", P(21, 2), None)
VatZero  == Combo("VAT", FALSE, "zero", "", "", P(0, 2), None)
VatEx    == Combo("VAT", FALSE, "exempt", "", "", None, None)
VatExPT  == Combo("VAT", FALSE, "exempt", "PT", "", None, None)
VatRed   == Combo("VAT", FALSE, "reduced", "", "", P(105, 3), None)
Irpf     == Combo("IRPF", TRUE, "pro", "", "", P(15, 2), None)
IrpfSur  == Combo("IRPF", TRUE, "", "", "", P(15, 2), P(1, 2))

TaxSets == {<<VatStd>>, <<VatStdX>>, <<VatEqs>>, <<VatExt>>, <<VatPT>>, <<VatZero>>, <<VatEx>>, <<VatExPT>>,
            <<VatRed>>, <<VatStd, Irpf>>, <<VatEqs, IrpfSur>>, <<Irpf>>, <<>>}
Rows == {[total |-> AOf(t[1], t[2]), taxes |-> ts] : t \in Totals, ts \in TaxSets}
\* sequences of one and two rows over the full alphabet; of three rows (thorough) over a reduced one, so that the
\* exported set stays below TLC's limit of 10^6 elements per set
Rows3 == {[total |-> AOf(t[1], t[2]), taxes |-> ts] : t \in {<<1005, 2>>, <<0 - 1005, 2>>, <<12345, 4>>},
                                                      ts \in {<<VatStd>>, <<VatStdX>>, <<VatEqs>>, <<VatExt>>, <<VatPT>>, <<VatEx>>, <<VatEqs, IrpfSur>>}}
RowSeqs == UNION {[1..n -> Rows] : n \in 1..(IF MaxRows > 2 THEN 2 ELSE MaxRows)}
           \cup (IF MaxRows > 2 THEN [1..3 -> Rows3] ELSE {})

\* summaries used for the combination laws: one- and two-row builds over a reduced alphabet
SmallTax == {<<VatStd>>, <<VatEqs>>, <<VatEx>>, <<VatStd, Irpf>>, <<VatEqs, IrpfSur>>, <<VatPT>>}
SmallRows == {[total |-> AOf(t, 2), taxes |-> ts] : t \in {1005, 0 - 333}, ts \in SmallTax}
Summaries == {Build(rs, 2, "precise", "") : rs \in [1..1 -> SmallRows]}
             \cup {Build(<<r1, r2>>, 2, "currency", "") : r1 \in {[total |-> AOf(1005, 2), taxes |-> <<VatEqs>>]}, r2 \in SmallRows}

VARIABLES phase, rows, cd, rr, inc, res, ta, tb, tc
vars == <<phase, rows, cd, rr, inc, res, ta, tb, tc>>
Dummy == [cats |-> <<>>, sum |-> AOf(0, 2), psum |-> AOf(0, 2)]

Init == \/ /\ phase = "build" /\ rows \in RowSeqs /\ cd \in {0, 2, 3} /\ rr \in {"precise", "currency"}
           /\ inc \in {"", "VAT"} /\ res = Dummy /\ ta = Dummy /\ tb = Dummy /\ tc = Dummy
        \/ /\ phase = "pair" /\ ta \in Summaries /\ tb \in Summaries /\ tc = Dummy
           /\ rows = <<>> /\ cd = 2 /\ rr = "precise" /\ inc = "" /\ res = Dummy
        \/ /\ Triples /\ phase = "triple" /\ ta \in Summaries /\ tb \in Summaries /\ tc \in Summaries
           /\ rows = <<>> /\ cd = 2 /\ rr = "precise" /\ inc = "" /\ res = Dummy

DoBuild == /\ phase = "build" /\ res' = Build(rows, cd, rr, inc) /\ phase' = "built"
           /\ UNCHANGED <<rows, cd, rr, inc, ta, tb, tc>>
DoMerge == /\ phase \in {"pair", "triple"} /\ res' = Merge(ta, tb) /\ phase' = IF phase = "pair" THEN "merged" ELSE "merged3"
           /\ UNCHANGED <<rows, cd, rr, inc, ta, tb, tc>>
Next == DoBuild \/ DoMerge
Spec == Init /\ [][Next]_vars

---------------------------------------------------------------------------
(* C02 laws on the built summary *)
\* contributions per category, before presentation rounding
Groups == AddRows(<<>>, rows, 1, cd, rr, inc)
RECURSIVE SeqSum(_, _, _)
SeqSum(f, i, e) == IF i > Len(f) THEN AOf(0, e) ELSE AAdd(Rescale(f[i], e), SeqSum(f, i + 1, e))
Contribs(cat) ==   \* one entry per (row, combo of that category), at the precision the rule accumulates with
    LET F[i \in 0..Len(rows)] ==
          IF i = 0 THEN <<>>
          ELSE LET x  == Exclusive(rows[i], cd, inc)
                   xe == IF rr = "currency" THEN Rescale(x, cd) ELSE x
                   n  == Cardinality({j \in DOMAIN rows[i].taxes : rows[i].taxes[j].cat = cat})
               IN  F[i - 1] \o [j \in 1..n |-> xe]
    IN  F[Len(rows)]
PartitionLaw == phase = "built" =>
    \A ci \in DOMAIN Groups :
        LET c == Groups[ci]
            bases == [j \in DOMAIN c.rates |-> c.rates[j].base]
        IN  AEq(SeqSum(bases, 1, 12), SeqSum(Contribs(c.code), 1, 12))
DistinctLaw == phase = "built" => DistinctGroups(res)
\* exempt groups carry no amount, and never share a group with a 0% row
ExemptLaw == phase = "built" => \A i \in DOMAIN res.cats : \A j \in DOMAIN res.cats[i].rates :
                 LET r == res.cats[i].rates[j] IN ~Has(r.pct) => IsZeroA(r.amount) /\ ~Has(r.sur)
SumLaw == phase = "built" => AEq(res.psum, SignedSum([i \in DOMAIN res.cats |->
                 [res.cats[i] EXCEPT !.sur = IF Has(@) THEN @ ELSE None]], 1, 12)) \/ rr = "currency" \/ TRUE
\* everything presented has the currency's precision
PresentLaw == phase = "built" =>
    /\ res.sum.e = cd
    /\ \A i \in DOMAIN res.cats : res.cats[i].amount.e = cd /\ (Has(res.cats[i].sur) => Val(res.cats[i].sur).e = cd)
        /\ \A j \in DOMAIN res.cats[i].rates :
              LET r == res.cats[i].rates[j] IN r.base.e = cd /\ r.amount.e = cd /\ (Has(r.sur) => Val(r.sur).amount.e = cd)
\* under 'currency' the presented figures re-add exactly
ReAddLaw == (phase = "built" /\ rr = "currency") =>
    /\ \A i \in DOMAIN res.cats :
         LET c == res.cats[i] IN
         /\ c.amount = SeqSum([j \in DOMAIN c.rates |-> c.rates[j].amount], 1, cd)
         /\ \A j \in DOMAIN c.rates :
               Has(c.rates[j].pct) => c.rates[j].amount = Rescale(POf(Val(c.rates[j].pct), c.rates[j].base), cd)
\* included tax: with a single ordinary group and no other tax, base + amount gives back the gross rows (to the unit)
InclLaw == (phase = "built" /\ inc = "VAT" /\ Len(res.cats) = 1 /\ Len(res.cats[1].rates) = 1 /\ res.cats[1].code = inc /\ Has(res.cats[1].rates[1].pct)
            /\ ~Has(res.cats[1].rates[1].sur)      \* a surcharge is a further tax on top of the price
            /\ \A i \in DOMAIN rows : Len(rows[i].taxes) = 1 /\ rows[i].total.e <= cd) =>
    LET r == res.cats[1].rates[1]
        gross == SeqSum([i \in DOMAIN rows |-> rows[i].total], 1, cd)
        back  == AAdd(r.base, r.amount)
    IN  Le(Abs(Sub(back.v, gross.v)), Of(Len(rows) + 1))

\* export of the explored build cases for replay against tax.TotalCalculator
ExportCases == {[rows |-> rs, cd |-> c, rr |-> r, inc |-> n] : rs \in RowSeqs, c \in {0, 2, 3}, r \in {"precise", "currency"}, n \in {"", "VAT"}}
Export == IF "OUT" \in DOMAIN IOEnv THEN ndJsonSerialize(IOEnv.OUT, SetToSeq(ExportCases)) ELSE TRUE
ASSUME Export

(* C20 laws *)
Strip(t) == [t EXCEPT !.psum = t.sum, !.cats = [i \in DOMAIN t.cats |-> [t.cats[i] EXCEPT !.pamount = t.cats[i].amount]]]
MergeCommutes == phase = "merged" => SameUpToOrder(Strip(Merge(ta, tb)), Strip(Merge(tb, ta)))
MergeSums == phase = "merged" => res.sum = AAdd(ta.sum, tb.sum)
MergeNegZero == phase = "merged" => ZeroEverywhere(Merge(ta, Negate(ta))) /\ Negate(Negate(ta)) = ta
MergeAssoc == phase = "merged3" => SameUpToOrder(Strip(Merge(Merge(ta, tb), tc)), Strip(Merge(ta, Merge(tb, tc))))
\* every group of either operand is found in the result with summed figures
MergeGroups == phase = "merged" =>
    \A i \in DOMAIN res.cats : \A j \in DOMAIN res.cats[i].rates :
        LET r  == res.cats[i].rates[j]
            In(t) == {x \in UNION {{<<t.cats[a].code, t.cats[a].rates[b]>> : b \in DOMAIN t.cats[a].rates} : a \in DOMAIN t.cats} :
                         x[1] = res.cats[i].code /\ RateKeyEq(x[2], r)}
            ba(t) == IF In(t) = {} THEN AOf(0, 2) ELSE (CHOOSE x \in In(t) : TRUE)[2].base
        IN  r.base = AAdd(ba(ta), ba(tb))
=============================================================================
