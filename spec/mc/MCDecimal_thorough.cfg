SPECIFICATION Spec
CONSTANTS
  PosVals = {0, 1, 2, 3, 5, 7, 15, 25, 45, 50, 55, 149, 150, 151}
  Exps = {0, 1, 2, 3, 4, 5, 6, 7, 8, 9}
  Ks = {0, 1, 2, 3, 4, 5, 7, 9}
INVARIANTS TypeOK PrecisionLaw ExactLaw Laws
CHECK_DEADLOCK FALSE
