SPECIFICATION Spec
CONSTANT MaxMembers = 3
INVARIANTS OrderIndependent NullIndependent Injective
CHECK_DEADLOCK FALSE
