SPECIFICATION Spec
CONSTANTS
  MaxRows = 3
  Scope = "thorough"
  Triples = TRUE
INVARIANTS PartitionLaw DistinctLaw ExemptLaw PresentLaw ReAddLaw InclLaw MergeCommutes MergeSums MergeNegZero MergeAssoc MergeGroups
CHECK_DEADLOCK FALSE
