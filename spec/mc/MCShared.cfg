SPECIFICATION Spec
CONSTANTS
  Goroutines = {1, 2, 3}
  Docs = {"d1", "d2"}
  Ops = {"calc", "validate"}
INVARIANT ResultEquivalence
PROPERTY RegistryConstant
CHECK_DEADLOCK FALSE
