---------------------------- MODULE MCJsonSchema ----------------------------
(* Model for JsonSchema.tla.  One state per published schema file: the       *)
(* problems of that file (not draft 2020-12, unknown keyword, unresolvable   *)
(* $ref, malformed keyword value) are collected and reported.  In state 0    *)
(* the evaluator and the matcher are checked against hand-written schemas,   *)
(* expressions and values with known answers, so that the oracle itself is   *)
(* neither vacuous nor over-strict.                                          *)
EXTENDS JsonSchema, SequencesExt
VARIABLES f
vars == <<f>>
Init == LoadSchemas /\ f \in 0..Len(JsonDeserialize(IOEnv.MANIFEST).files)
Next == UNCHANGED vars
Spec == Init /\ [][Next]_vars

\* constructors of tagged values
\* printable ASCII in code order (the quote and the backslash are not used by the laws and are left out)
Ascii == " ! #$%&'()*+,-./0123456789:;<=>?@ABCDEFGHIJKLMNOPQRSTUVWXYZ[ ]^_`abcdefghijklmnopqrstuvwxyz{|}~"
CodeOf(c) == 31 + CHOOSE i \in 1..Len(Ascii) : SubSeq(Ascii, i, i) = c
Cs(str) == [i \in 1..Len(str) |-> CodeOf(SubSeq(str, i, i))]
S(str) == [t |-> "s", k |-> <<>>, v |-> str, c |-> Cs(str)]
N(str, isInt, n) == [t |-> "n", k |-> <<>>, v |-> str, int |-> isInt, n |-> n]
B(b) == [t |-> "b", k |-> <<>>, v |-> IF b THEN "true" ELSE "false"]
A(seq) == [t |-> "a", k |-> <<>>, v |-> seq]
O(keys, vals) == [t |-> "o", k |-> keys, kc |-> [i \in DOMAIN keys |-> <<>>], v |-> vals]
Plain(str) == [t |-> "s", k |-> <<>>, v |-> str, c |-> <<>>]     \* a string whose code points are not needed

\* expressions
Node(op, r, s, mn, mx) == [op |-> op, r |-> r, s |-> s, min |-> mn, max |-> mx]
CC(r) == Node("cc", r, <<>>, 0, 0)
Lit(r) == Node("lit", r, <<>>, 0, 0)
Rep(n, mn, mx) == Node("rep", <<>>, <<n>>, mn, mx)
Cat(s) == Node("cat", <<>>, s, 0, 0)
Alt(s) == Node("alt", <<>>, s, 0, 0)
Bol == Node("bol", <<>>, <<>>, 0, 0)
Eol == Node("eol", <<>>, <<>>, 0, 0)
DigitC == CC(<<48, 57>>)
\* ^\-?[0-9]+(\.[0-9]+)?$
AmountRE == Cat(<<Bol, Rep(Lit(<<45>>), 0, 1), Rep(DigitC, 1, -1), Rep(Node("cap", <<>>, <<Cat(<<Lit(<<46>>), Rep(DigitC, 1, -1)>>)>>, 0, 0), 0, 1), Eol>>)
\* [a-z]{2,3} unanchored
Lower23 == Rep(CC(<<97, 122>>), 2, 3)
MatcherLaws ==
    /\ Matches(AmountRE, Cs("10.90")) /\ Matches(AmountRE, Cs("-1")) /\ Matches(AmountRE, Cs("0"))
    /\ ~Matches(AmountRE, Cs("10.")) /\ ~Matches(AmountRE, Cs(".9")) /\ ~Matches(AmountRE, Cs("1.9%")) /\ ~Matches(AmountRE, Cs(""))
    /\ ~Matches(AmountRE, Cs("1 ")) /\ ~Matches(AmountRE, Cs("--1")) /\ ~Matches(AmountRE, Cs("NA"))
    /\ Matches(Lower23, Cs("ab")) /\ Matches(Lower23, Cs("1abz9")) /\ ~Matches(Lower23, Cs("a1b")) /\ ~Matches(Lower23, Cs(""))
    /\ Ends(Lower23, Cs("abab"), 1) = {3, 4}
    /\ Matches(Cat(<<Bol, Alt(<<Lit(<<97>>), Lit(<<98, 98>>)>>), Eol>>), Cs("bb")) /\ ~Matches(Cat(<<Bol, Alt(<<Lit(<<97>>), Lit(<<98, 98>>)>>), Eol>>), Cs("ab"))
    /\ Matches(Node("empty", <<>>, <<>>, 0, 0), Cs(""))
\* every expression the published schemas use is understood, and is neither empty nor universal on a small sample
Samples == {Cs("a"), Cs("ab"), Cs("a-b"), Cs("A1"), Cs("AB"), Cs("10.90"), Cs("10.9%"), Cs("-"), Cs(""), Cs("a b"), Cs("ABZ9"), Cs("A-1"), Cs("0")}
PublishedPatterns == \A p \in DOMAIN Patterns : Patterns[p].ok =>
                        (\E s \in Samples : Matches(Patterns[p].tree, s)) \/ Patterns[p].src = "^[0-9]{4}-[0-9]{2}-[0-9]{2}T[0-9]{2}:[0-9]{2}:[0-9]{2}$"
PublishedPatternsReject == \A p \in DOMAIN Patterns : Patterns[p].ok => \E s \in Samples : ~Matches(Patterns[p].tree, s)
FormatLaws ==
    /\ FormatUUID(Cs("0190b2f1-0a0a-7000-9fff-aaaaaaaaaaaa")) /\ FormatUUID(Cs("0190B2F1-0A0A-7000-9FFF-AAAAAAAAAAAA"))
    /\ ~FormatUUID(Cs("0190b2f10a0a70009fffaaaaaaaaaaaa")) /\ ~FormatUUID(Cs("0190b2f1-0a0a-7000-9fff-aaaaaaaaaaag")) /\ ~FormatUUID(Cs("0190b2f1-0a0a-7000-9fff-aaaaaaaaaaaaa"))
    /\ FormatDate(Cs("2024-02-29")) /\ ~FormatDate(Cs("2023-02-29")) /\ ~FormatDate(Cs("2024-13-01")) /\ ~FormatDate(Cs("2024-1-01")) /\ ~FormatDate(Cs("2024-00-10"))
    /\ FormatDate(Cs("1900-12-31")) /\ ~FormatDate(Cs("1900-02-29")) /\ FormatDate(Cs("2000-02-29"))
    /\ FormatURI(Cs("ab:x")) /\ ~FormatURI(Cs("ab x:b")) /\ ~FormatURI(Cs("ab")) /\ ~FormatURI(Cs("1a:b")) /\ ~FormatURI(Cs(":ab"))
\* hand-written schema: {type: object, required: [a], properties: {a: {type: string, minLength: 1}, b: {oneOf: [{const: "x"}, {type: integer}]}}}
TestSchema == O(<<"properties", "required", "type">>,
                <<O(<<"a", "b">>, <<O(<<"minLength", "type">>, <<N("1", TRUE, 1), Plain("string")>>),
                                    O(<<"oneOf">>, <<A(<<O(<<"const">>, <<S("x")>>), O(<<"type">>, <<Plain("integer")>>)>>)>>)>>),
                  A(<<Plain("a")>>), Plain("object")>>)
EvaluatorLaws ==
    /\ Valid(1, TestSchema, O(<<"a">>, <<S("ab")>>))
    /\ Valid(1, TestSchema, O(<<"a", "b">>, <<S("ab"), S("x")>>))
    /\ Valid(1, TestSchema, O(<<"a", "b", "c">>, <<S("ab"), N("3", TRUE, 3), B(TRUE)>>))
    /\ ~Valid(1, TestSchema, O(<<"b">>, <<S("x")>>))                            \* required
    /\ ~Valid(1, TestSchema, O(<<"a">>, <<S("")>>))                             \* minLength
    /\ ~Valid(1, TestSchema, O(<<"a">>, <<N("1", TRUE, 1)>>))                    \* type
    /\ ~Valid(1, TestSchema, O(<<"a", "b">>, <<S("ab"), S("ab")>>))              \* oneOf: none
    /\ ~Valid(1, TestSchema, O(<<"a", "b">>, <<S("ab"), N("1.5", FALSE, -1)>>))  \* integer
    /\ ~Valid(1, TestSchema, A(<<>>))
    /\ Valid(1, B(TRUE), S("a")) /\ ~Valid(1, B(FALSE), S("a"))
    /\ Valid(1, O(<<"items">>, <<O(<<"type">>, <<Plain("string")>>)>>), A(<<S("a"), S("b")>>))
    /\ ~Valid(1, O(<<"items">>, <<O(<<"type">>, <<Plain("string")>>)>>), A(<<S("a"), B(TRUE)>>))
    /\ ~Valid(1, O(<<"$ref">>, <<Plain("#/$defs/DoesNotExist")>>), S("a"))
    /\ WF(1, TestSchema) = {}
    /\ WF(1, O(<<"typo">>, <<Plain("string")>>)) = {"unknown keyword typo"}
    /\ WF(1, O(<<"type">>, <<Plain("strin")>>)) # {}
    /\ WF(1, O(<<"required">>, <<A(<<Plain("a"), Plain("a")>>)>>)) # {}
    /\ WF(1, O(<<"$ref">>, <<Plain("#/$defs/DoesNotExist")>>)) # {}
Laws == f = 0 => MatcherLaws /\ PublishedPatterns /\ PublishedPatternsReject /\ FormatLaws /\ EvaluatorLaws

Findings == UNION {{<<Files[g].name, p>> : p \in FileProblems(g)} : g \in DOMAIN Files}
UsedFormats == LET RECURSIVE Fm(_) Fm(s) == IF s.t = "o" THEN UNION {IF s.k[i] = "format" /\ s.v[i].t = "s" THEN {s.v[i].v} ELSE Fm(s.v[i]) : i \in DOMAIN s.k}
                                            ELSE IF s.t = "a" THEN UNION {Fm(s.v[i]) : i \in DOMAIN s.v} ELSE {}
               IN UNION {Fm(SchemaDoc[g]) : g \in DOMAIN Files}
Report == f = 0 => JsonSerialize(IOEnv.RESULT, [findings |-> SetToSeq(Findings), files |-> Len(Files),
                                                 unknown_formats |-> SetToSeq(UsedFormats \ KnownFormats), patterns |-> Len(Patterns)])
=============================================================================
