---------------------------- MODULE MCNumCodec ----------------------------
(***************************************************************************)
(* The scanner as the state machine: every action appends one character    *)
(* of the alphabet; TLC thereby enumerates every string up to MaxLen with  *)
(* its DFA state.  Invariants: the incremental DFA agrees with the         *)
(* declarative pattern; printing the value of an accepted text and         *)
(* reading it back is the identity on values; printed text matches the     *)
(* pattern.  The explored strings are exported for replay.                 *)
(***************************************************************************)
EXTENDS NumCodec, TLC, Json, IOUtils, FiniteSets, SequencesExt
CONSTANTS MaxLen, Sigma
VARIABLES s, stA, stP
vars == <<s, stA, stP>>

Init == s = <<>> /\ stA = "Start" /\ stP = "Start"
Append1(c) == /\ Len(s) < MaxLen
              /\ s' = Append(s, c)
              /\ stA' = DStep(stA, c, "amount")
              /\ stP' = DStep(stP, c, "percentage")
Next == \E c \in Sigma : Append1(c)
Spec == Init /\ [][Next]_vars

DFAAgrees == /\ Final(stA, "amount") = Matches(s, "amount")
             /\ Final(stP, "percentage") = Matches(s, "percentage")
             /\ Accepts(s, "amount") = Final(stA, "amount")
RoundTrip == /\ (Final(stA, "amount") =>
                   LET a == ValueOf(s, "amount")
                   IN  /\ Matches(Print(a), "amount")
                       /\ ValueOf(Print(a), "amount") = a)
             /\ (Final(stP, "percentage") =>
                   LET p == ValueOf(s, "percentage")
                   IN  /\ Matches(PrintPct(p), "percentage")
                       /\ AEq(ValueOf(PrintPct(p), "percentage"), p)
                       /\ PrintPct(ValueOf(PrintPct(p), "percentage")) = PrintPct(p))
BareSubset == JsonNumber(s) => Matches(s, "amount")

RECURSIVE Strings(_)
Strings(n) == IF n = 0 THEN {<<>>} ELSE LET S == Strings(n - 1) IN S \cup {Append(x, c) : x \in {y \in S : Len(y) = n - 1}, c \in Sigma}
Export == IF "OUT" \in DOMAIN IOEnv
          THEN ndJsonSerialize(IOEnv.OUT, SetToSeq({[in |-> x] : x \in Strings(MaxLen)}))
          ELSE TRUE
ASSUME Export
=============================================================================
