SPECIFICATION Spec
CONSTANT MaxMembers = 2
INVARIANTS OrderIndependent NullIndependent Injective
CHECK_DEADLOCK FALSE
