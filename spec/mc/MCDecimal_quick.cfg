SPECIFICATION Spec
CONSTANTS
  PosVals = {0, 1, 5, 15, 25, 150, 151}
  Exps = {0, 1, 2, 4, 9}
  Ks = {0, 1, 2, 3, 7}
INVARIANTS TypeOK PrecisionLaw ExactLaw Laws
CHECK_DEADLOCK FALSE
