SPECIFICATION Spec
INVARIANTS ExportDone GlobalKinds RegimeKinds NoRegime ExtKinds Patterns
CHECK_DEADLOCK FALSE
