SPECIFICATION Spec
CONSTANTS
  Keys = {"k1", "k2"}
  MaxName = 6
  Depth = 7
CONSTRAINT DepthBound
VIEW View
INVARIANTS TypeOK SignedImpliesWasValid StampsNeedSignature VerifySound ViaSound
CHECK_DEADLOCK FALSE
