SPECIFICATION Spec
CONSTANT MaxLen = 4
CONSTRAINT Bound
PROPERTY FixPoint
CHECK_DEADLOCK FALSE
