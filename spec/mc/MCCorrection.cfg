SPECIFICATION Spec
INVARIANT NoCodeRefused
INVARIANT PartialRefused
CHECK_DEADLOCK FALSE
