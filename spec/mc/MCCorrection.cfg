SPECIFICATION Spec
INVARIANT NoCodeRefused
CHECK_DEADLOCK FALSE
