----------------------------- MODULE MCPublished -----------------------------
(* One state per published / generated file: TLC evaluates the per-file     *)
(* verdict and the coherence predicates over the real artefacts.            *)
EXTENDS Published
VARIABLES fi, verdict, problems
vars == <<fi, verdict, problems>>
Init == fi \in DOMAIN Files /\ verdict = "pending" /\ problems = {}
Check == /\ verdict = "pending"
         /\ verdict' = FileVerdict(Files[fi])
         /\ problems' = IF Files[fi].pub # "" /\ Kind(Files[fi].name) \in {"regime", "addon"}
                        THEN Coherence(Files[fi].name, Load(Files[fi].pub)) ELSE {}
         /\ UNCHANGED fi
Spec == Init /\ [][Check]_vars
\* all findings are collected in one place for the driver
Findings == {<<Files[i].name, FileVerdict(Files[i])>> : i \in {j \in DOMAIN Files : FileVerdict(Files[j]) # "ok"}}
            \cup UNION {{<<Files[i].name, p>> : p \in Coherence(Files[i].name, Load(Files[i].pub))} :
                         i \in {j \in DOMAIN Files : Files[j].pub # "" /\ Kind(Files[j].name) \in {"regime", "addon"}}}
ASSUME JsonSerialize(IOEnv.RESULT, [findings |-> Findings, files |-> Len(Files)])
=============================================================================
