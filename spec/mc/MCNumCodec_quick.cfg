SPECIFICATION Spec
CONSTANTS
  MaxLen = 4
  Sigma = {45, 43, 48, 49, 57, 46, 37, 32, 101, 120, 34, 1635}
INVARIANTS DFAAgrees RoundTrip BareSubset
CHECK_DEADLOCK FALSE
