------------------------------ MODULE MCOutcome ------------------------------
(* Enumerates the mutation plan and the outcome automaton: from Call every  *)
(* operation returns; the plan is exported for the structure-aware sweep.   *)
EXTENDS Outcome, Json, IOUtils, SequencesExt
VARIABLES pc, step, outs
vars == <<pc, step, outs>>
Init == pc = "call" /\ step = 1 /\ outs = <<>>
Call == pc = "call" /\ step <= Len(Pipeline) /\ pc' = "running" /\ UNCHANGED <<step, outs>>
Return(o) == /\ pc = "running" /\ Returns(o)
             /\ outs' = Append(outs, [op |-> Pipeline[step], out |-> o])
             /\ pc' = IF step = 1 /\ o # "ok" THEN "done" ELSE "call"
             /\ step' = step + 1
Next == Call \/ \E o \in {"ok"} \cup DocumentedKeys : Return(o)
Spec == Init /\ [][Next]_vars
Total == (pc = "done" \/ step > Len(Pipeline)) => WellFormed(outs)
NeverStuck == pc = "running" => \E o \in {"ok"} \cup DocumentedKeys : Returns(o)
Bound == Len(outs) <= 3
Export == IF "OUT" \in DOMAIN IOEnv THEN ndJsonSerialize(IOEnv.OUT, SetToSeq({[target |-> p[1], mut |-> p[2]] : p \in Plan})) ELSE TRUE
ASSUME Export
=============================================================================
