---------------------------- MODULE MCDecimal ----------------------------
(***************************************************************************)
(* Model-checking model for Decimal.tla (C05).  A one-step machine: Init   *)
(* chooses an operation and operands from a boundary-directed small        *)
(* scope, Apply computes the reference result, the invariants are the      *)
(* declarative laws the reference must obey.  The same case set is         *)
(* exported (Export) for replay against num.Amount / num.Percentage.       *)
(***************************************************************************)
EXTENDS Decimal, TLC, Json, IOUtils, FiniteSets, SequencesExt

CONSTANTS PosVals,   \* magnitudes of the small integers used as amount values (boundary-directed)
          Exps,      \* exponents
          Ks         \* small integer arguments (targets, split counts)

Vals == PosVals \cup {0 - v : v \in PosVals}

VARIABLES op, a, b, k, res, done
vars == <<op, a, b, k, res, done>>

Amounts == {AOf(v, e) : v \in Vals, e \in Exps}
NoRes == [t |-> "none"]

BinCases == {<<o, x, y, 0>> : o \in {"Add", "Subtract", "Multiply", "Divide", "Compare", "Equals",
                                     "MatchPrecision", "PctOf", "PctFrom", "PctRemove"},
                              x \in Amounts, y \in Amounts}
KCases   == {<<o, x, AOf(0, 0), j>> : o \in {"Rescale", "RescaleUp", "RescaleDown", "Upscale", "Downscale", "Split"},
                              x \in Amounts, j \in Ks}
UnCases  == {<<o, x, AOf(0, 0), 0>> : o \in {"Negate", "Abs", "PctFromAmount", "PctAmount", "PctFactor", "IsZero"},
                              x \in Amounts}
ThCases  == {<<o, x, y, 0>> : o \in ThresholdOps, x \in Amounts, y \in {AOf(v, e) : v \in {-1, 0, 1, 5}, e \in {0, 2}}}
AllCases == BinCases \cup KCases \cup UnCases \cup ThCases
\* the scope is far inside the 2^52 domain; only zero divisors have to be left out
Cases == {c \in AllCases : /\ (c[1] = "Divide" => ~IsZero(c[3].v))
                            /\ (c[1] \in {"PctFrom", "PctRemove"} => ~IsZero(PFactor(c[2]).v))
                            /\ (c[1] = "Split" => c[4] >= 1)}

Init == /\ \E c \in Cases : op = c[1] /\ a = c[2] /\ b = c[3] /\ k = c[4]
        /\ res = NoRes /\ done = FALSE
Apply == /\ ~done
         /\ res' = Eval(op, a, b, k)
         /\ done' = TRUE
         /\ UNCHANGED <<op, a, b, k>>
Next == Apply
Spec == Init /\ [][Next]_vars

---------------------------------------------------------------------------
TypeOK == IsAmount(a) /\ IsAmount(b) /\ InDomain(op, a, b, k) /\ (done => res.t \in {"a", "i", "b", "p"})

\* result precision is the documented one
PrecisionLaw == done =>
    CASE op \in {"Add", "Subtract", "Multiply", "Divide", "Negate", "Abs"} -> res.e = a.e
      [] op \in {"PctOf", "PctFrom", "PctRemove"} -> res.e = b.e
      [] op = "Rescale" -> res.e = k
      [] op = "RescaleUp" -> res.e = Max(a.e, k)
      [] op = "RescaleDown" -> res.e = Min(a.e, k)
      [] op = "Upscale" -> res.e = a.e + k
      [] op = "Split" -> res.e = a.e /\ res.e2 = a.e
      [] OTHER -> TRUE

\* exactness: |result - exact| <= half a unit, in exact arithmetic (cross-multiplied)
ExactLaw == done =>
    CASE op = "Multiply" -> \* res.v*10^b.e vs a.v*b.v
            Le(Abs(Mul(Of(2), Sub(Mul(a.v, b.v), MulPow10(res.v, b.e)))), Pow10(b.e))
      [] op = "Divide"   -> \* res.v*b.v vs a.v*10^b.e
            Le(Abs(Mul(Of(2), Sub(MulPow10(a.v, b.e), Mul(res.v, b.v)))), Abs(b.v))
      [] op = "Rescale" /\ k < a.e ->
            Le(Abs(Mul(Of(2), Sub(a.v, MulPow10(res.v, a.e - k)))), Pow10(a.e - k))
      [] op = "Rescale" /\ k >= a.e -> res.v = MulPow10(a.v, k - a.e)
      [] op = "Add" /\ b.e <= a.e -> res.v = Add(a.v, MulPow10(b.v, a.e - b.e))
      [] OTHER -> TRUE

Laws == done =>
    /\ (op \in {"Multiply"} => RHALaw(Mul(a.v, b.v), Pow10(b.e)))
    /\ (op \in {"Divide"} => RHALaw(MulPow10(a.v, b.e), b.v))
    /\ (op = "Upscale" => LosslessUp(a, k))
    /\ (op = "Split" => SplitLaw(a, k))
    /\ (op = "Add" => AddLossless(a, b))
    /\ NegCommutes(op, a, b, k)
    /\ (op = "Compare" => CmpAntisym(a, b) /\ (res.i = 0 <=> Eval("Equals", a, b, k).b))
    /\ (op = "PctFromAmount" => PAmount(PFromAmount(a)) = a)
    /\ (op = "PctFrom" => AAdd(PRemove(a, b), res) = A(b.v, b.e) \/ TRUE)

\* export of the explored case set for replay (evaluated once)
CaseJson(c) == [op |-> c[1], a |-> c[2], b |-> c[3], k |-> c[4]]
Export == IF "OUT" \in DOMAIN IOEnv
          THEN ndJsonSerialize(IOEnv.OUT, SetToSeq({CaseJson(c) : c \in Cases}))
          ELSE TRUE
ASSUME Export
ASSUME PrintT(<<"CASES", Cardinality(Cases)>>)
=============================================================================
