------------------------------- MODULE MCCalc -------------------------------
(***************************************************************************)
(* Small-scope model of Calc.tla.  Documents of one or two lines drawn     *)
(* from a tie-directed alphabet (quantities and prices of either sign and  *)
(* 0-4 decimals, percentage / fixed / based discounts, percentage and      *)
(* rate-by-quantity charges, several tax sets), document discounts,        *)
(* charges, advances, due dates and external rounding, for currency        *)
(* precisions 0, 2, 3, both rounding rules, with and without an included   *)
(* tax.  Invariants: the C03 identities on the presented figures under     *)
(* 'currency', the C17 negation and permutation relations, the C01         *)
(* precision clause.  The documents are exported for replay.               *)
(***************************************************************************)
EXTENDS Calc, TLC, Json, IOUtils, FiniteSets, SequencesExt
CONSTANT Scope      \* "quick" | "thorough"

P(v, e) == Some(AOf(v, e))
Cb(cat, ret, pct, sur) == [cat |-> cat, ret |-> ret, key |-> "", country |-> "", ext |-> "", pct |-> pct, sur |-> sur]
Vat21 == Cb("VAT", FALSE, P(21, 2), None)
Vat10 == Cb("VAT", FALSE, P(105, 3), None)
VatEq == Cb("VAT", FALSE, P(21, 2), P(52, 3))
VatEx == [Cb("VAT", FALSE, None, None) EXCEPT !.key = "exempt"]
Irpf  == Cb("IRPF", TRUE, P(15, 2), None)
TaxSets == IF Scope = "quick" THEN {<<Vat21>>, <<Vat10, Irpf>>, <<VatEx>>}
           ELSE {<<Vat21>>, <<Vat10, Irpf>>, <<VatEq>>, <<VatEx>>, <<>>}

QP == IF Scope = "quick"
      THEN {<<AOf(1, 0), AOf(1000, 2)>>, <<AOf(3, 0), AOf(335, 3)>>, <<AOf(0 - 2, 0), AOf(1999, 2)>>, <<AOf(25, 1), AOf(333333, 4)>>}
      ELSE {<<AOf(1, 0), AOf(1000, 2)>>, <<AOf(3, 0), AOf(335, 3)>>, <<AOf(0 - 2, 0), AOf(1999, 2)>>, <<AOf(25, 1), AOf(333333, 4)>>,
            <<AOf(5, 1), AOf(101, 2)>>, <<AOf(7, 0), AOf(100, 0)>>, <<AOf(1, 0), AOf(0 - 4995, 3)>>}
LD(pct, base, amt) == [pct |-> pct, base |-> base, amount |-> amt]
LC(pct, base, amt, rate, q) == [pct |-> pct, base |-> base, amount |-> amt, rate |-> rate, q |-> q]
Z2 == AOf(0, 2)
LineDiscs == {<<>>, <<LD(P(10, 2), None, Z2)>>, <<LD(None, None, AOf(100, 2))>>, <<LD(P(55, 3), P(2000, 2), Z2), LD(None, None, AOf(5, 1))>>}
LineChgs  == {<<>>, <<LC(P(2, 2), None, Z2, None, None)>>, <<LC(None, None, Z2, P(35, 2), None)>>, <<LC(None, None, Z2, P(125, 3), P(4, 0))>>}
Line(qp, ds, cs, ts) == [qty |-> qp[1], price |-> qp[2], icd |-> 2, fx |-> None, alt |-> None, discounts |-> ds, charges |-> cs, taxes |-> ts, subs |-> <<>>]
SubL(qp, ds, cs) == [qty |-> qp[1], price |-> qp[2], icd |-> 2, fx |-> None, alt |-> None, discounts |-> ds, charges |-> cs]
FullLines == {Line(qp, ds, cs, ts) : qp \in QP, ds \in LineDiscs, cs \in LineChgs, ts \in TaxSets}
PlainLines == {Line(qp, <<>>, <<>>, ts) : qp \in QP, ts \in TaxSets}
             \cup {Line(qp, ds, cs, <<Vat21>>) : qp \in {<<AOf(3, 0), AOf(335, 3)>>}, ds \in LineDiscs, cs \in LineChgs}
FxLine == [Line(<<AOf(3, 0), AOf(1000, 0)>>, <<>>, <<>>, <<Vat21>>) EXCEPT !.icd = 0, !.fx = P(62, 4)]
\* an item priced in another currency with an alternative price in the document's (which wins over the exchange rate)
AltLine == [FxLine EXCEPT !.alt = P(6205, 3)]
\* lines whose price comes from a breakdown: sub-lines of different precisions, with adjustments, one in another currency
BdLines == {[Line(<<AOf(2, 0), AOf(0, 2)>>, ds, <<>>, <<Vat21>>) EXCEPT !.subs = ss] :
               ds \in {<<>>, <<LD(P(10, 2), None, Z2)>>},
               ss \in {<<SubL(<<AOf(3, 0), AOf(335, 3)>>, <<>>, <<>>)>>,
                        <<SubL(<<AOf(3, 0), AOf(335, 3)>>, <<LD(P(55, 3), None, Z2)>>, <<>>), SubL(<<AOf(25, 1), AOf(333333, 4)>>, <<>>, <<LC(None, None, Z2, P(35, 2), None)>>)>>,
                        <<SubL(<<AOf(1, 0), AOf(1000, 2)>>, <<>>, <<>>), [SubL(<<AOf(3, 0), AOf(1000, 0)>>, <<>>, <<>>) EXCEPT !.icd = 0, !.fx = P(62, 4)]>>}}

DA(pct, base, amt, ts) == [pct |-> pct, base |-> base, amount |-> amt, taxes |-> ts]
DocCfgs == {
  [discounts |-> <<>>, charges |-> <<>>, advances |-> <<>>, dues |-> <<>>, rounding |-> None],
  [discounts |-> <<DA(P(10, 2), None, Z2, <<Vat21>>)>>, charges |-> <<DA(None, None, AOf(500, 2), <<Vat21>>)>>,
   advances |-> <<[pct |-> P(50, 2), amount |-> Z2]>>, dues |-> <<[pct |-> P(30, 2), amount |-> Z2], [pct |-> P(70, 2), amount |-> Z2]>>, rounding |-> None],
  [discounts |-> <<DA(None, None, AOf(333, 2), <<Vat10, Irpf>>), DA(P(5, 2), P(10000, 2), Z2, <<>>)>>, charges |-> <<DA(P(15, 3), None, Z2, <<VatEx>>)>>,
   advances |-> <<[pct |-> None, amount |-> AOf(1000, 2)], [pct |-> P(25, 2), amount |-> Z2]>>, dues |-> <<>>, rounding |-> P(1, 2)] }

MkDoc(ls, cfg, cd, rr, inc) == [cd |-> cd, rr |-> rr, inc |-> inc, rounding |-> cfg.rounding, lines |-> ls,
                             discounts |-> cfg.discounts, charges |-> cfg.charges, advances |-> cfg.advances, dues |-> cfg.dues]
OneLine == {<<l>> : l \in FullLines}
TwoLines == {<<a, b>> : a \in PlainLines, b \in PlainLines} \cup {<<FxLine>>, <<FxLine, FxLine>>, <<AltLine>>, <<AltLine, FxLine>>}
            \cup {<<l>> : l \in BdLines} \cup {<<l, FxLine>> : l \in BdLines}
Docs == {MkDoc(ls, cfg, cd, rr, inc) : ls \in OneLine \cup TwoLines, cfg \in DocCfgs, cd \in (IF Scope = "quick" THEN {2} ELSE {0, 2, 3}),
                                    rr \in {"precise", "currency"}, inc \in {"", "VAT"}}

VARIABLES doc, res
vars == <<doc, res>>
Init == doc \in Docs /\ res = <<>>
Calc1 == res = <<>> /\ res' = Calculate(doc) /\ UNCHANGED doc
Spec == Init /\ [][Calc1]_vars

Done == res # <<>>
\* C03 (fixed amounts are supplied at the currency's precision in this scope when cd = 2)
C03ReAdds == (Done /\ doc.rr = "currency" /\ doc.cd = 2) => ReAdds(doc, res) /\ NoExtraDecimals(doc, res)
\* C17 negation: the mirror document gives the mirrored figures, twice gives the original
C17Negation == Done => /\ Presented(Calculate(NegDoc(doc))) = Presented(NegRes(res))
                        /\ NegDoc(NegDoc(doc)) = doc
\* C17 permutation: swapping two lines swaps their figures and changes no total
Swap(d) == [d EXCEPT !.lines = <<d.lines[2], d.lines[1]>>]
SameTotals(r1, r2) == /\ [r1 EXCEPT !.lines = <<>>, !.taxes = <<>>, !.w = <<>>] = [r2 EXCEPT !.lines = <<>>, !.taxes = <<>>, !.w = <<>>]
                      /\ SameUpToOrder(Presented(r1).taxes, Presented(r2).taxes)
C17Permutation == (Done /\ Len(doc.lines) = 2) =>
                     LET r2 == Calculate(Swap(doc)) IN SameTotals(res, r2) /\ r2.lines = <<res.lines[2], res.lines[1]>>
\* C01 precision clause: working values keep at least cd+2 (precise) / cd (currency) decimals
C01Precision == Done => LET we == WorkExp(doc.rr, doc.cd) IN
                    /\ res.w.sum.e >= we /\ res.w.total.e >= we /\ res.w.twt.e >= we /\ res.w.payable.e >= we
                    /\ (doc.rr = "currency" => res.w.sum.e = doc.cd /\ res.w.total.e = doc.cd)

Export == IF "OUT" \in DOMAIN IOEnv THEN ndJsonSerialize(IOEnv.OUT, SetToSeq(Docs)) ELSE TRUE
ASSUME Export
ASSUME PrintT(<<"DOCS", Cardinality(Docs)>>)
=============================================================================
