---------------------------- MODULE MCEnvelope ----------------------------
(* Exhaustive model of the envelope life-cycle: all histories up to Depth  *)
(* operations from the alphabet below, over the four base documents.       *)
EXTENDS Envelope
CONSTANT Depth

Provs == {"p1", "p2"}
Vals  == {"a", "b"}
KeySeqs == {<<>>, <<"k1">>, <<"k2">>, <<"k2", "k1">>}

Next ==
    \/ \E b \in DOMAIN BaseDocs : Insert(b)
    \/ Calculate \/ EditBenign
    \/ \E c \in BOOLEAN : SetCode(c)
    \/ \E v \in BOOLEAN : SetValid(v)
    \/ \E k \in Keys : Sign(k)
    \/ Unsign
    \/ \E p \in Provs, v \in Vals : AddStamp(p, v)
    \/ DupStamp("p1", "b") \/ ClearStamps
    \/ \E u \in {"x", "y"} : AddLink("l1", u)
    \/ DupLink("l1", "y")
    \/ AddTag("t1")
    \/ \E v \in Vals : SetMeta("m1", v)
    \/ \E n \in {"n1", "n2"} : SetNotes(n)
    \/ SetUUID("u2")
    \/ Validate
    \/ \E K \in KeySeqs : Verify(K)
    \/ Reserialise
Spec == Init /\ [][Next]_vars

DepthBound == TLCGet("level") <= Depth
View == <<doc, head, sigs>>
=============================================================================
