SPECIFICATION Spec
CONSTANT Scope = "thorough"
INVARIANTS SingleDigitDetected NormalForm
CHECK_DEADLOCK FALSE
