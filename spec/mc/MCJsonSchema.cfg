SPECIFICATION Spec
INVARIANTS Laws Report
CHECK_DEADLOCK FALSE
