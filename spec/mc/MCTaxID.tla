------------------------------ MODULE MCTaxID ------------------------------
(***************************************************************************)
(* Generation of tax identity codes from the published rules: for every    *)
(* regime a structured family of bodies (all-equal digits, ascending,      *)
(* descending, boundary prefixes, mixed); the check characters are found   *)
(* by searching the candidates the rule accepts, which gives valid codes;  *)
(* from each valid code all single-character substitutions, the swap of    *)
(* the last two characters and formatted variants (spaces, dots, dashes,   *)
(* lower case, country prefix).  Invariants: schemes that detect single    *)
(* digit errors reject every single-digit change of a valid code; the      *)
(* normal form is idempotent and insensitive to formatting.                *)
(***************************************************************************)
EXTENDS TaxID, Json, IOUtils, SequencesExt
CONSTANT Scope

Dg(k) == 48 + k
Rep(d, n) == [i \in 1..n |-> Dg(d)]
Asc(n) == [i \in 1..n |-> Dg(i % 10)]
Desc(n) == [i \in 1..n |-> Dg((10 - i) % 10)]
Mixed(n, a, b) == [i \in 1..n |-> Dg((a * i + b) % 10)]
Bodies(n) == {Rep(d, n) : d \in (IF Scope = "quick" THEN {0, 1, 5, 9} ELSE 0..9)} \cup {Asc(n), Desc(n), Mixed(n, 3, 1), Mixed(n, 7, 4)}
               \cup (IF Scope = "quick" THEN {} ELSE {Mixed(n, 1, 7), Mixed(n, 9, 2), Mixed(n, 3, 8), Mixed(n, 7, 0)})
\* arithmetic progressions of bodies, long enough to meet every residue of the scheme's modulus
\* (check values 0, 10, 97, ... are where the special cases of the national rules live)
RECURSIVE ToDigits(_, _)
ToDigits(v, n) == IF n = 0 THEN <<>> ELSE Append(ToDigits(v \div 10, n - 1), Dg(v % 10))
Prog(n, start, count) == {ToDigits(start + j, n) : j \in 0..(count - 1)}
Checks1 == {<<Dg(k)>> : k \in 0..9}
Checks2 == {<<Dg(a), Dg(b)>> : a \in 0..9, b \in 0..9}
Letters1 == {<<x>> : x \in 65..90}
\* candidate codes per regime: prefix o body o check
Cands(cc) ==
    CASE cc = "AT" -> {<<85>> \o b \o k : b \in Bodies(7) \cup Prog(7, 1234500, 12), k \in Checks1}
      [] cc = "BE" -> {<<Dg(0)>> \o b \o k : b \in Bodies(7) \cup Prog(7, 1000060, 100), k \in Checks2}
      [] cc = "BR" -> {b \o k : b \in Bodies(12), k \in Checks2}
      [] cc = "CH" -> {<<69>> \o b \o k : b \in Bodies(8) \cup Prog(8, 10041630, 24), k \in Checks1}
      [] cc = "CO" -> {b \o k : b \in Bodies(9) \cup Bodies(8), k \in Checks1}
      [] cc = "DE" -> {b \o k : b \in Bodies(8) \cup Prog(8, 13634500, 12), k \in Checks1}
      [] cc = "ES" -> {b \o k : b \in Bodies(8), k \in Letters1}
                      \cup {<<x>> \o b \o k : x \in {88, 89, 90, 75, 76}, b \in Bodies(7), k \in Letters1}
                      \cup {<<x>> \o b \o k : x \in {65, 66, 71, 78, 81, 87}, b \in Bodies(7), k \in Checks1 \cup {<<y>> : y \in 65..74}}
      [] cc = "FR" -> {k \o b : b \in Bodies(9) \cup Prog(9, 732829300, 100), k \in Checks2}
      [] cc = "GB" -> {b \o k : b \in Bodies(7) \cup Prog(7, 4344300, 100), k \in Checks2}
      [] cc = "EL" -> {b \o k : b \in Bodies(8) \cup Prog(8, 92566700, 24), k \in Checks1}
      [] cc = "IT" -> {b \o k : b \in Bodies(10), k \in Checks1}
      [] cc = "NL" -> {b \o k \o <<66, 48, 49>> : b \in Bodies(8) \cup Prog(8, 21890950, 24), k \in Checks1}
      [] cc = "PL" -> {b \o k : b \in Bodies(9) \cup Prog(9, 526000140, 24), k \in Checks1}
      [] cc = "PT" -> {b \o k : b \in Bodies(8) \cup Prog(8, 50000000, 24), k \in Checks1}
ValidCodes(cc) == {c \in Cands(cc) : Valid(cc, c)}

\* single-character substitutions (digits by digits, letters by letters)
Subst(c) == UNION {{[c EXCEPT ![i] = x] : x \in (IF IsDigit(c[i]) THEN 48..57 ELSE 65..90)} : i \in DOMAIN c} \ {c}
SwapLast(c) == IF Len(c) >= 2 THEN [c EXCEPT ![Len(c)] = c[Len(c) - 1], ![Len(c) - 1] = c[Len(c)]] ELSE c
Lower(c) == [i \in DOMAIN c |-> IF IsUpper(c[i]) THEN c[i] + 32 ELSE c[i]]
RECURSIVE Spread(_, _, _)
Spread(c, i, sep) == IF i > Len(c) THEN <<>> ELSE <<c[i]>> \o (IF i % 3 = 0 /\ i < Len(c) THEN <<sep>> ELSE <<>>) \o Spread(c, i + 1, sep)
Formats(cc, c) == {Spread(c, 1, 32), Spread(c, 1, 46), Spread(c, 1, 45), Lower(c), CC(cc) \o c, Lower(CC(cc)) \o <<32>> \o Spread(Lower(c), 1, 46)}
                  \cup (IF cc = "EL" THEN {<<71, 82>> \o c} ELSE {}) \cup (IF cc = "CH" THEN {<<67, 72>> \o c \o <<77, 87, 83, 84>>, <<67, 72>> \o c \o <<32, 84, 86, 65>>,
                                                         \* the suffixes in lower and mixed case, with punctuation inside the code
                                                         <<99, 104, 101, 45>> \o Spread(Tail(c), 1, 46) \o <<32, 109, 119, 115, 116>>,
                                                         c \o <<32, 116, 118, 97>>, c \o <<73, 118, 97>>, Lower(c) \o <<105, 118, 97>>, c \o <<45, 77, 119, 83, 116>>} ELSE {})

VARIABLES cc, code
vars == <<cc, code>>
Init == cc \in Regimes /\ code \in ValidCodes(cc)
Next == UNCHANGED vars
Spec == Init /\ [][Next]_vars

SingleDigitDetected == cc \in DetectsSingleDigit =>
                          \A e \in {x \in Subst(code) : \A i \in DOMAIN code : x[i] # code[i] => IsDigit(code[i]) /\ (cc = "NL" => i <= 9)} : ~Valid(cc, e)
NormalForm == /\ Normalize(cc, code) = code
              /\ \A f \in Formats(cc, code) : Normalize(cc, f) = code /\ Normalize(cc, Normalize(cc, f)) = Normalize(cc, f)

\* export: valid codes, their edits and their formatted variants, with the expected verdict and normal form
Case(r, raw, norm, ok, kind) == [cc |-> r, raw |-> raw, norm |-> norm, valid |-> ok, kind |-> kind]
Cases == UNION {UNION {{Case(r, c, c, TRUE, "valid")}
                       \cup {Case(r, e, e, Valid(r, e), "substitution") : e \in Subst(c)}
                       \cup {Case(r, SwapLast(c), SwapLast(c), Valid(r, SwapLast(c)), "transposition")}
                       \cup {Case(r, f, c, TRUE, "formatted") : f \in Formats(r, c)} : c \in ValidCodes(r)} : r \in Regimes}
\* BE: the nine digit form of every valid number, its single-digit changes, and nine digit texts that begin with 0
\* whose check digits agree (not of the national format: the number itself would begin with 0)
BENineBad == {c \in {<<Dg(0)>> \o b \o k : b \in Bodies(6) \cup Prog(6, 123450, 40), k \in Checks2} : c[2] # Dg(0) /\ BEcheck(<<48>> \o c)}
BECases == UNION {{Case("BE", Tail(c), Tail(c), TRUE, "nine-digit")}
                  \cup {Case("BE", e, e, Valid("BE", e), "nine-digit-substitution") : e \in Subst(Tail(c))}
                  \cup {Case("BE", f, Tail(c), TRUE, "nine-digit-formatted") : f \in {Spread(Tail(c), 1, 46), CC("BE") \o Tail(c), Lower(CC("BE")) \o <<32>> \o Spread(Tail(c), 1, 32)}} : c \in ValidCodes("BE")}
           \cup {Case("BE", c, c, FALSE, "nine-digit-leading-zero") : c \in BENineBad}
BELaw == /\ \A c \in ValidCodes("BE") : Valid("BE", Tail(c)) /\ \A e \in Subst(Tail(c)) : ~Valid("BE", e)
         /\ BENineBad # {} /\ \A c \in BENineBad : ~Valid("BE", c)
         /\ \E c \in ValidCodes("BE") : c[3] = Dg(0)
ASSUME BELaw
\* GB: numbers at the ends of the ranges in which each of the two schemes was issued, with the check digits either
\* scheme would give them
GBt(c) == WSum(c, <<8, 7, 6, 5, 4, 3, 2>>, 1, 7) + D(c, 8) * 10 + D(c, 9)
GBRange == {c \in {b \o k : b \in Prog(7, 99994, 12) \cup Prog(7, 999994, 12) \cup Prog(7, 123456, 12) \cup Prog(7, 555550, 12) \cup Prog(7, 9489995, 12)
                                  \cup Prog(7, 9699995, 12) \cup Prog(7, 9989995, 12) \cup Prog(7, 1, 6), k \in Checks2} :
               GBt(c) % 97 = 0 \/ (GBt(c) + 55) % 97 = 0}
GBCases == {Case("GB", c, c, Valid("GB", c), "range-boundary") : c \in GBRange}
ASSUME \E c \in GBRange : Valid("GB", c)
ASSUME \E c \in GBRange : ~Valid("GB", c)
\* FR: bare SIRENs (Luhn digit found by search), each promoted to the VAT number, and every single-digit change of them
Sirens == {c \in {b \o k : b \in Bodies(8) \cup Prog(8, 35600000, (IF Scope = "quick" THEN 12 ELSE 60)), k \in Checks1} : IsSiren(c)}
SirenCases == UNION {{Case("FR", c, Normalize("FR", c), TRUE, "siren")}
                     \cup {Case("FR", e, Normalize("FR", e), Valid("FR", Normalize("FR", e)), "siren-substitution") : e \in Subst(c)}
                     \cup {Case("FR", f, Normalize("FR", c), TRUE, "siren-formatted") : f \in {Spread(c, 1, 32), CC("FR") \o c}} : c \in Sirens}
SirenLaw == \A c \in Sirens : /\ Valid("FR", Normalize("FR", c)) /\ Len(Normalize("FR", c)) = 11
                              /\ \A e \in Subst(c) : ~IsSiren(e) /\ Normalize("FR", e) = e /\ ~Valid("FR", e)
ASSUME SirenLaw
Export == IF "OUT" \in DOMAIN IOEnv THEN ndJsonSerialize(IOEnv.OUT, SetToSeq(Cases \cup SirenCases \cup BECases \cup GBCases)) ELSE TRUE
ASSUME Export
=============================================================================
