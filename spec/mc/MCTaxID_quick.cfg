SPECIFICATION Spec
CONSTANT Scope = "quick"
INVARIANTS SingleDigitDetected NormalForm
CHECK_DEADLOCK FALSE
