SPECIFICATION Spec
CONSTANT MaxLen = 5
CONSTRAINT Bound
PROPERTY FixPoint
CHECK_DEADLOCK FALSE
