------------------------------- MODULE MCRefs -------------------------------
(* Model for Refs.tla over the published definition files.  States: one per  *)
(* reference kind; the invariants check on the specification itself that     *)
(* every defined value of the kind resolves and every near miss that is not  *)
(* itself defined does not (the resolution predicate is neither vacuous nor  *)
(* over-strict), and that every declared pattern is understood.  Exports the *)
(* replacement candidates for the substitution sweep.                        *)
EXTENDS Refs, SequencesExt
Near(v) == {v \o "x", v \o "+extra", "x" \o v, v \o "-x"}
Kinds == {"currency", "country", "regime", "addon", "tag", "cat", "rate", "extkey"}
DefinedOf(kind) ==
    CASE kind = "currency" -> Currencies [] kind = "country" -> Countries [] kind = "regime" -> RegimeCodes
      [] kind = "addon" -> AddonKeys [] kind = "tag" -> AllTags [] kind = "cat" -> AllCats
      [] kind = "rate" -> AllRateKeys [] kind = "extkey" -> ExtKeysAll
Cand(kind, v, base, key) == [kind |-> kind, v |-> v, base |-> base, key |-> key]
Fixed == {"", "ZZ", "XXX", "zz-undefined-key", "undefined", "standard", "VAT", "EUR", "ES", "SE", "simplified"}
PatSamples == {"12345", "1234", "123456", "1234567", "12.34.5.67", "12 34 5 67", "12-34-5-67", "12/34/5/67", "12..34567", "1234567x", "abcde", "0000", "00000"}
ValCands == UNION {LET key == ExtKeyAt[x] IN
                     {Cand("extval", v, "", key) : v \in ExtValsAt[x]}
                     \cup UNION {{Cand("extval", n, v, key) : n \in Near(v)} : v \in ExtValsAt[x]}
                     \cup {Cand("extval", v, "", key) : v \in PatSamples \cup Fixed} : x \in ExtIdxAll}
Cands == UNION {{Cand(k, v, "", "") : v \in DefinedOf(k) \cup Fixed}
                \cup UNION {{Cand(k, n, v, "") : n \in Near(v)} : v \in DefinedOf(k)} : k \in Kinds} \cup ValCands

VARIABLES kind
vars == <<kind>>
Init == LoadTables /\ kind \in Kinds \cup {"extval", "patterns"}
Next == UNCHANGED vars
Spec == Init /\ [][Next]_vars

Chars(s) == [i \in 1..Len(s) |-> SubSeq(s, i, i)]
Ref(k, v) == [kind |-> k, v |-> v, cc |-> "", cat |-> "", key |-> "", parts |-> <<v>>, chars |-> <<>>, addons |-> <<>>, schema |-> ""]
\* global kinds: defined values resolve, undefined near misses do not
GlobalKinds == kind \in {"currency", "country", "regime", "addon"} =>
    /\ \A v \in DefinedOf(kind) : Resolves(Ref(kind, v))
    /\ \A v \in DefinedOf(kind) : \A n \in Near(v) \ DefinedOf(kind) : ~Resolves(Ref(kind, n))
    /\ DefinedOf(kind) # {}
\* regime-relative kinds: every category of a regime resolves for that regime, its rates for that category
RegimeKinds == kind \in {"cat", "rate", "tag"} =>
    \A di \in RegimeIdx : LET d == Doc[di] cc == Str(d, "country") IN
       /\ \A c \in Categories(d) : Resolves([Ref("cat", c) EXCEPT !.cc = cc])
       /\ \A c \in Categories(d) : \A n \in Near(c) \ Categories(d) : ~Resolves([Ref("cat", n) EXCEPT !.cc = cc])
       /\ \A c \in Categories(d) : \A ci \in CatIdx(d, c) : LET cd == Cats(d)[ci] IN \A k \in RateKeysOf(cd) :
             /\ Resolves([Ref("rate", k) EXCEPT !.cc = cc, !.cat = c])
             /\ Resolves([Ref("rate", k) EXCEPT !.cc = cc, !.cat = c, !.parts = <<k, "other">>])
             /\ \A n \in {k \o "x", "x" \o k} \ RateKeysOf(cd) : ~Resolves([Ref("rate", n) EXCEPT !.cc = cc, !.cat = c])
       /\ \A c \in Categories(d) : \A ci \in CatIdx(d, c) : RateKeysOf(Cats(d)[ci]) = {} => ~Resolves([Ref("rate", "standard") EXCEPT !.cc = cc, !.cat = c])
       /\ \A t \in TagsFor(d, "bill/invoice") : Resolves([Ref("tag", t) EXCEPT !.cc = cc, !.schema = "bill/invoice"])
       /\ \A t \in TagsFor(d, "bill/invoice") : \A n \in Near(t) \ TagsFor(d, "bill/invoice") : ~Resolves([Ref("tag", n) EXCEPT !.cc = cc, !.schema = "bill/invoice"])
\* a rate key with no published regime for the combo's country never resolves
NoRegime == kind = "rate" => \A cc \in {"SE", "ZZ", ""} \ RegimeCodes : ~Resolves([Ref("rate", "standard") EXCEPT !.cc = cc, !.cat = "VAT"])
ExtKinds == kind \in {"extkey", "extval"} =>
    \A x \in ExtIdxAll : LET key == ExtKeyAt[x] IN
       /\ \A v \in ExtValsAt[x] : Resolves([Ref("ext", v) EXCEPT !.key = key, !.chars = Chars(v)])
       /\ \A v \in ExtValsAt[x] : \A n \in Near(v) \ ExtValsAt[x] : ~Resolves([Ref("ext", n) EXCEPT !.key = key, !.chars = Chars(n)])
       /\ \A n \in Near(key) \ ExtKeysAll : ~Resolves([Ref("ext", "1") EXCEPT !.key = n, !.chars = <<"1">>])
Patterns == kind = "patterns" =>
    /\ UnknownPatterns = {}
    /\ PatMatch("^\\d{5}$", Chars("12345")) /\ ~PatMatch("^\\d{5}$", Chars("1234")) /\ ~PatMatch("^\\d{5}$", Chars("123456")) /\ ~PatMatch("^\\d{5}$", Chars("1234a"))
    /\ \A p \in DeclaredPatterns : \E s \in PatSamples : PatMatch(p, Chars(s))
    /\ \A p \in DeclaredPatterns : \E s \in PatSamples : ~PatMatch(p, Chars(s))
    /\ LET p == "^\\d{2}[\\s\\.\\-\\/]?\\d{2}[\\s\\.\\-\\/]?\\d[\\s\\.\\-\\/]?\\d{2}$" IN
         p \in DeclaredPatterns => PatMatch(p, Chars("12.34.5.67")) /\ PatMatch(p, Chars("1234567")) /\ ~PatMatch(p, Chars("12..34567")) /\ ~PatMatch(p, Chars("1234567x"))

Export == IF "OUT" \in DOMAIN IOEnv THEN ndJsonSerialize(IOEnv.OUT, SetToSeq(Cands)) ELSE TRUE
ExportDone == kind = "patterns" => Export
=============================================================================
