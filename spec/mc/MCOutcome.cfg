SPECIFICATION Spec
INVARIANTS Total NeverStuck
CONSTRAINT Bound
CHECK_DEADLOCK FALSE
