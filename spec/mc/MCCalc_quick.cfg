SPECIFICATION Spec
CONSTANT Scope = "quick"
INVARIANTS C03ReAdds C17Negation C17Permutation C01Precision
CHECK_DEADLOCK FALSE
