SPECIFICATION Spec
CONSTANTS
  N = 4
  Bad = 3
INVARIANTS ExactlyOnce OwnIdentity FinalLast
PROPERTY Answered
CHECK_DEADLOCK FALSE
