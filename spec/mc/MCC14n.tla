------------------------------ MODULE MCC14n ------------------------------
(***************************************************************************)
(* Small-scope model of C14n.tla: all values of depth <= 2 over a leaf     *)
(* alphabet chosen to exercise every rule (empty / ASCII / escaped /       *)
(* non-ASCII strings and keys, integers of both signs and zero, decimals   *)
(* with and without fraction, large and negative exponents, booleans,      *)
(* nulls in objects and arrays).  Invariants: the canonical form depends   *)
(* on the logical content only and is injective on it.  The values are     *)
(* exported; the harness renders each in several styles (member order,     *)
(* white space, escape style, number spelling) for the real code.          *)
(***************************************************************************)
EXTENDS C14n, TLC, Json, IOUtils, SequencesExt
CONSTANT MaxMembers

StrV(s) == [t |-> "str", s |-> s]
IntV(k) == [t |-> "int", n |-> Of(k)]
DecV(neg, d, e) == [t |-> "dec", neg |-> neg, d |-> d, e |-> e]
Null == [t |-> "null"]
Strings == {<<>>, <<97>>, <<233>>, <<10, 34, 92>>, <<128512, 47>>, <<1, 31, 127>>}
Leaves == {StrV(s) : s \in Strings}
          \cup {IntV(0), IntV(7), IntV(0 - 1), IntV(1234567), [t |-> "int", n |-> Sub(Two63, Of(1))], [t |-> "int", n |-> Neg(Two63)]}
          \cup {DecV(0, <<1, 5>>, 0), DecV(1, <<2, 5>>, 0 - 7), DecV(0, <<1>>, 2), DecV(0, <<0>>, 0), DecV(0, <<1, 2, 3, 4>>, 2),
                DecV(1, <<9, 9, 9>>, 21), DecV(0, <<1>>, 0 - 100)}
          \cup {[t |-> "bool", b |-> TRUE], [t |-> "bool", b |-> FALSE], Null}
SmallLeaves == {StrV(<<97>>), IntV(0 - 1), DecV(0, <<1, 5>>, 0), Null, [t |-> "bool", b |-> TRUE]}
Arrays == {[t |-> "arr", a |-> <<>>]} \cup {[t |-> "arr", a |-> <<x>>] : x \in Leaves}
          \cup {[t |-> "arr", a |-> <<x, y>>] : x \in SmallLeaves, y \in SmallLeaves}
Keys == {<<>>, <<97>>, <<97, 97>>, <<98>>, <<233>>, <<65>>, <<128512>>, <<65281>>, <<10>>}
Inner == Leaves \cup {[t |-> "arr", a |-> <<x, Null>>] : x \in SmallLeaves} \cup {[t |-> "obj", m |-> <<[k |-> <<97>>, v |-> Null], [k |-> <<98>>, v |-> IntV(7)]>>]}
KeySeqs(n) == {ks \in [1..n -> Keys] : \A i, j \in 1..n : i < j => KeyLess(ks[i], ks[j])}     \* one representative order; styles permute
Objects == {[t |-> "obj", m |-> <<>>]}
           \cup {[t |-> "obj", m |-> <<[k |-> k1, v |-> x]>>] : k1 \in Keys, x \in Inner}
           \cup (IF MaxMembers >= 2 THEN {[t |-> "obj", m |-> <<[k |-> ks[1], v |-> x], [k |-> ks[2], v |-> y]>>] :
                                            ks \in KeySeqs(2), x \in SmallLeaves, y \in SmallLeaves} ELSE {})
           \cup (IF MaxMembers >= 3 THEN {[t |-> "obj", m |-> <<[k |-> ks[1], v |-> x], [k |-> ks[2], v |-> Null], [k |-> ks[3], v |-> y]>>] :
                                            ks \in KeySeqs(3), x \in {Null, IntV(7)}, y \in {Null, StrV(<<97>>)}} ELSE {})
Values == Leaves \cup Arrays \cup Objects

VARIABLES v, out
vars == <<v, out>>
Init == v \in Values /\ out = <<>>
Canonicalise == out = <<>> /\ out' = Canon(v) /\ UNCHANGED v
Spec == Init /\ [][Canonicalise]_vars

\* reversing the member order (one of the rendering styles) does not change the canonical form
Rev(ms) == [i \in DOMAIN ms |-> ms[Len(ms) + 1 - i]]
OrderIndependent == (out # <<>> /\ v.t = "obj") => Canon([v EXCEPT !.m = Rev(v.m)]) = out
NullIndependent  == (out # <<>> /\ v.t = "obj") => Canon([v EXCEPT !.m = DropNulls(v.m)]) = out
\* injective on content (checked against a sample of the value space)
Sample == Leaves \cup {x \in Objects : Len(x.m) <= 1}
Injective == out # <<>> => \A w \in Sample : Canon(w) = out => Content(w) = Content(v)
NoBareSpace == out # <<>> /\ v.t # "str" /\ v.t # "obj" => \A i \in DOMAIN out : out[i] \notin {32, 9, 13} \/ v.t = "arr"

Export == IF "OUT" \in DOMAIN IOEnv THEN ndJsonSerialize(IOEnv.OUT, SetToSeq({[v |-> x] : x \in Values})) ELSE TRUE
ASSUME Export
=============================================================================
