------------------------------ MODULE MCRates ------------------------------
(***************************************************************************)
(* Exhaustive enumeration over the real rate tables: every regime x        *)
(* category x rate key x value x {start-1, start, start+1} (and fixed      *)
(* early / late dates) x every qualification that occurs in the table.     *)
(* Invariants: tables ordered, the choice is never ambiguous, a value is   *)
(* chosen on its own start date, nothing is chosen before the first value. *)
(* The look-ups are exported for replay on the real code.                  *)
(***************************************************************************)
EXTENDS Rates, SequencesExt

Leap(y) == (y % 4 = 0 /\ y % 100 # 0) \/ y % 400 = 0
DaysIn(y, m) == IF m \in {4, 6, 9, 11} THEN 30 ELSE IF m = 2 THEN (IF Leap(y) THEN 29 ELSE 28) ELSE 31
NextDay(d) == IF d[3] < DaysIn(d[1], d[2]) THEN <<d[1], d[2], d[3] + 1>>
              ELSE IF d[2] < 12 THEN <<d[1], d[2] + 1, 1>> ELSE <<d[1] + 1, 1, 1>>
PrevDay(d) == IF d[3] > 1 THEN <<d[1], d[2], d[3] - 1>>
              ELSE IF d[2] > 1 THEN <<d[1], d[2] - 1, DaysIn(d[1], d[2] - 1)>> ELSE <<d[1] - 1, 12, 31>>

FixedDates == {<<1950, 1, 1>>, <<1999, 12, 31>>, <<2016, 2, 29>>, <<2035, 6, 30>>}
DatesOf(rd) == FixedDates \cup UNION {IF rd.values[i].since = <<>> THEN {}
                                      ELSE {PrevDay(rd.values[i].since), rd.values[i].since, NextDay(rd.values[i].since)} : i \in DOMAIN rd.values}
QualsOf(rd) == {<<>>} \cup {rd.values[i].ext : i \in DOMAIN rd.values}

VARIABLES ri, date, ext, res
vars == <<ri, date, ext, res>>
Init == /\ ri \in DOMAIN RateDefs
        /\ date \in DatesOf(RateDefs[ri]) /\ ext \in QualsOf(RateDefs[ri])
        /\ res = [res |-> "pending", pct |-> <<>>, sur |-> <<>>]
Lookup == /\ res.res = "pending"
          /\ res' = Expected(RateDefs[ri], date, <<>>, ext)
          /\ UNCHANGED <<ri, date, ext>>
Spec == Init /\ [][Lookup]_vars

TablesOrdered == Ordered(RateDefs[ri])
Unambiguous == res.res # "ambiguous"
\* on a start date the value starting that day (for this qualification or a less specific one) is chosen
StartDateIncluded ==
    res.res = "value" =>
        \A i \in DOMAIN RateDefs[ri].values :
            LET v == RateDefs[ri].values[i]
            IN  (v.since = date /\ v.ext = ext /\ v.tags = <<>>) => res.pct = <<v.pct>>
NothingBeforeFirst ==
    (res.res = "none") <=> (res.res # "pending" /\ ~RateDefs[ri].exempt /\ RateDefs[ri].values # <<>>
                            /\ Candidates(RateDefs[ri], date, <<>>, ext) = {})

Cases == UNION {{[cc |-> RateDefs[r].cc, cat |-> RateDefs[r].cat, key |-> RateDefs[r].key, date |-> d, tags |-> <<>>, ext |-> q] :
                   d \in DatesOf(RateDefs[r]), q \in QualsOf(RateDefs[r])} : r \in DOMAIN RateDefs}
Export == IF "OUT" \in DOMAIN IOEnv THEN ndJsonSerialize(IOEnv.OUT, SetToSeq(Cases)) ELSE TRUE
ASSUME Export
=============================================================================
