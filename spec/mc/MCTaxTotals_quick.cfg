SPECIFICATION Spec
CONSTANTS
  MaxRows = 2
  Scope = "quick"
  Triples = FALSE
INVARIANTS PartitionLaw DistinctLaw ExemptLaw PresentLaw ReAddLaw InclLaw MergeCommutes MergeSums MergeNegZero MergeAssoc MergeGroups
CHECK_DEADLOCK FALSE
