--------------------------- MODULE DecimalTrace ---------------------------
(***************************************************************************)
(* Trace specification for Decimal.tla (C05).  Each line of the trace is   *)
(* one call of the real num.Amount / num.Percentage API with its arguments *)
(* and its result.  A step consumes one event; the event is accepted iff   *)
(* the reference evaluation of the same operation on the same arguments    *)
(* gives exactly the logged result.  Calls are independent, so instead of  *)
(* stopping at the first rejected event the specification records the      *)
(* indices of all rejected events (bad) – this is what allows a listed     *)
(* known finding to be told apart from a new violation in the same run.    *)
(* Events outside the property's domain (2^52) are counted, not judged.    *)
(***************************************************************************)
EXTENDS Decimal, TLC, Json, IOUtils, Sequences

Trace == ndJsonDeserialize(IOEnv.TRACE)

VARIABLES i, bad, ood, rounded, ties
vars == <<i, bad, ood, rounded, ties>>

Init == i = 1 /\ bad = <<>> /\ ood = 0 /\ rounded = 0 /\ ties = 0

\* the exact quotient that the operation rounds, as <<numerator, denominator>>, if it rounds at all
Quot(ev) ==
    CASE ev.op \in {"Multiply"}  -> <<Mul(ev.a.v, ev.b.v), Pow10(ev.b.e)>>
      [] ev.op = "PctOf"         -> <<Mul(ev.a.v, ev.b.v), Pow10(ev.a.e)>>
      [] ev.op = "Divide" /\ ~IsZero(ev.b.v) -> <<MulPow10(ev.a.v, ev.b.e), ev.b.v>>
      [] ev.op \in {"PctRemove", "PctFrom"} /\ ~IsZero(PFactor(ev.a).v)
                                 -> <<MulPow10(ev.b.v, ev.a.e), PFactor(ev.a).v>>
      [] ev.op \in {"Rescale", "RescaleDown", "PctRescale"} /\ ev.k < ev.a.e
                                 -> <<ev.a.v, Pow10(ev.a.e - ev.k)>>
      [] ev.op \in {"Add", "Subtract"} /\ ev.a.e < ev.b.e
                                 -> <<ev.b.v, Pow10(ev.b.e - ev.a.e)>>
      [] OTHER                   -> <<Zero, Of(1)>>
Rounds(ev) == LET q == Quot(ev) IN ~Divides(q[2], q[1])
IsTieEv(ev) == LET q == Quot(ev) IN Rounds(ev) /\ Divides(q[2], Mul(Of(2), q[1]))

EventOK(ev) == Eval(ev.op, ev.a, ev.b, ev.k) = ev.r

Step == /\ i <= Len(Trace)
        /\ LET ev == Trace[i]
           IN  IF ~InDomain(ev.op, ev.a, ev.b, ev.k)
               THEN ood' = ood + 1 /\ bad' = bad
               ELSE ood' = ood /\ bad' = IF EventOK(ev) THEN bad ELSE Append(bad, i)
        /\ LET ev == Trace[i]
           IN  /\ rounded' = rounded + (IF Rounds(ev) THEN 1 ELSE 0)
               /\ ties' = ties + (IF IsTieEv(ev) THEN 1 ELSE 0)
        /\ i' = i + 1
Next == Step
Spec == Init /\ [][Next]_vars

\* reported once, when the whole trace has been consumed
Done == i = Len(Trace) + 1
Report == Done => JsonSerialize(IOEnv.RESULT, [events |-> Len(Trace), bad |-> bad, ood |-> ood,
                                                rounded |-> rounded, ties |-> ties])
=============================================================================
