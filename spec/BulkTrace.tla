------------------------------ MODULE BulkTrace ------------------------------
(***************************************************************************)
(* Trace specification for Bulk.tla.  A trace is the output stream of the  *)
(* bulk processor for one input stream: start (the requests that were      *)
(* written, and where the input was cut by malformed text), then resp /    *)
(* final lines in the order they appeared, then end.  Decode and Process   *)
(* are unobserved: a response to request i needs Decode(1..i) and          *)
(* Process(i) to have happened, which is always possible - so a response   *)
(* is accepted iff Respond(i) is, i.e. i is readable, has not been         *)
(* answered yet, and carries the identifier of the i-th request; Final is  *)
(* accepted iff every readable request has been answered.                  *)
(***************************************************************************)
EXTENDS Integers, Sequences, FiniteSets, TLC, Json, IOUtils
Trace == ndJsonDeserialize(IOEnv.TRACE)
VARIABLES i, n, bad, ids, responded, final, reject, badl, orders
vars == <<i, n, bad, ids, responded, final, reject, badl, orders>>
Init == i = 1 /\ n = 0 /\ bad = 0 /\ ids = <<>> /\ responded = <<>> /\ final = FALSE /\ reject = 0 /\ badl = <<>> /\ orders = 0
Readable == IF bad = 0 THEN n ELSE bad - 1
Rej(ev, why) == badl' = Append(badl, <<i, why>>) /\ reject' = ev.tr
SetOf(s) == {s[j] : j \in DOMAIN s}
Step ==
    /\ i <= Len(Trace) /\ i' = i + 1
    /\ LET ev == Trace[i] IN
       IF ev.kind = "start"
       THEN /\ n' = ev.nreq /\ bad' = ev.bad /\ ids' = ev.ids /\ responded' = <<>> /\ final' = FALSE
            /\ reject' = 0 /\ badl' = badl /\ orders' = orders
       ELSE IF reject = ev.tr THEN UNCHANGED <<n, bad, ids, responded, final, reject, badl, orders>>
       ELSE IF ev.kind = "resp"
       THEN /\ UNCHANGED <<n, bad, ids, final>>
            /\ IF final THEN Rej(ev, "response-after-final") /\ UNCHANGED <<responded, orders>>
               ELSE IF ev.seq \notin 1..Readable THEN Rej(ev, "response-for-unread-position") /\ UNCHANGED <<responded, orders>>
               ELSE IF ev.seq \in SetOf(responded) THEN Rej(ev, "duplicate-response") /\ UNCHANGED <<responded, orders>>
               ELSE IF ev.req # ids[ev.seq] THEN Rej(ev, "wrong-request-id") /\ UNCHANGED <<responded, orders>>
               ELSE IF ev.cmp /\ ~ev.same THEN Rej(ev, "payload-differs-from-standalone:" \o ev.action) /\ UNCHANGED <<responded, orders>>
               ELSE responded' = Append(responded, ev.seq) /\ UNCHANGED <<reject, badl, orders>>
       ELSE IF ev.kind = "final"
       THEN /\ UNCHANGED <<n, bad, ids, responded>>
            /\ IF final THEN Rej(ev, "second-final-marker") /\ UNCHANGED <<final, orders>>
               ELSE IF SetOf(responded) # 1..Readable THEN Rej(ev, "final-before-all-responses") /\ UNCHANGED <<final, orders>>
               ELSE IF ev.seq # Readable + 1 THEN Rej(ev, "final-wrong-position") /\ UNCHANGED <<final, orders>>
               ELSE IF (bad # 0) # ev.err THEN Rej(ev, "final-error-flag") /\ UNCHANGED <<final, orders>>
               ELSE /\ final' = TRUE /\ UNCHANGED <<reject, badl>>
                    \* how many streams completed out of request order (interleavings actually realised)
                    /\ orders' = orders + (IF \E a, b \in DOMAIN responded : a < b /\ responded[a] > responded[b] THEN 1 ELSE 0)
       ELSE \* end of the stream
            /\ UNCHANGED <<n, bad, ids, responded, final, orders>>
            /\ IF ev.err THEN Rej(ev, "process-failed")
               ELSE IF ~final THEN Rej(ev, "stream-ended-without-final") ELSE UNCHANGED <<reject, badl>>
Spec == Init /\ [][Step]_vars
Done == i = Len(Trace) + 1
Report == Done => JsonSerialize(IOEnv.RESULT, [events |-> Len(Trace), bad |-> badl, reordered |-> orders])
=============================================================================
