------------------------------ MODULE Published ------------------------------
(***************************************************************************)
(* Published definition files are what the code defines, and are coherent  *)
(* (C19).  The harness hands over a manifest of fully tagged JSON files    *)
(*   tagged value == [t : "o"|"a"|"s"|"n"|"b"|"z", k : Seq(key), v : ...]  *)
(* for every file name: the published one (data/), the one the generators  *)
(* produce in a scratch copy, the definition held by the running library   *)
(* after a workload, and the one served by the bulk processor.             *)
(***************************************************************************)
EXTENDS Integers, Sequences, FiniteSets, TLC, Json, IOUtils

Manifest == JsonDeserialize(IOEnv.MANIFEST)
Files == Manifest.files
Load(p) == JsonDeserialize(p)
SetOf(s) == {s[i] : i \in DOMAIN s}

RECURSIVE Eq(_, _)
Eq(a, b) == /\ a.t = b.t
            /\ CASE a.t = "o" -> a.k = b.k /\ \A i \in DOMAIN a.v : Eq(a.v[i], b.v[i])
                 [] a.t = "a" -> Len(a.v) = Len(b.v) /\ \A i \in DOMAIN a.v : Eq(a.v[i], b.v[i])
                 [] OTHER     -> a.v = b.v

\* navigation
Has(o, key) == o.t = "o" /\ \E i \in DOMAIN o.k : o.k[i] = key /\ o.v[i].t # "z"
Get(o, key) == o.v[CHOOSE i \in DOMAIN o.k : o.k[i] = key]
Items(o, key) == IF Has(o, key) /\ Get(o, key).t = "a" THEN Get(o, key).v ELSE <<>>
Str(o, key) == IF Has(o, key) THEN Get(o, key).v ELSE ""
Strs(o, key) == {Items(o, key)[i].v : i \in DOMAIN Items(o, key)}
Kind(name) == IF SubSeq(name, 1, 8) = "regimes/" THEN "regime" ELSE IF SubSeq(name, 1, 7) = "addons/" THEN "addon"
              ELSE IF SubSeq(name, 1, 11) = "catalogues/" THEN "catalogue" ELSE "schema"

---------------------------------------------------------------------------
(* per-file verdicts *)
FileVerdict(f) ==
    IF f.pub = "" THEN "generated-but-not-published"
    ELSE IF f.gen = "" THEN "published-but-not-generated"
    ELSE IF ~Eq(Load(f.pub), Load(f.gen)) THEN "published-differs-from-generated"
    ELSE IF f.mem # "" /\ ~Eq(Load(f.pub), Load(f.mem)) THEN "published-differs-from-library"
    ELSE IF f.served # "" /\ ~Eq(Load(f.pub), Load(f.served)) THEN "served-differs-from-published"
    ELSE IF Kind(f.name) \in {"regime", "schema"} /\ f.served = "" THEN "not-served"
    ELSE "ok"

---------------------------------------------------------------------------
(* coherence of a regime or addon definition d (tagged), given all definitions *)
\* groups of [schema, list] -> the union of list[*].<key>
RECURSIVE Flatten(_, _)
Flatten(seq, i) == IF i > Len(seq) THEN <<>> ELSE Items(seq[i], "list") \o Flatten(seq, i + 1)
Listed(d, member) == Flatten(Items(d, member), 1)
TagKeys(d) == {Str(Listed(d, "tags")[i], "key") : i \in DOMAIN Listed(d, "tags")}
ExtKeys(d) == {Str(Items(d, "extensions")[i], "key") : i \in DOMAIN Items(d, "extensions")}
ExtDef(d, key) == LET S == {i \in DOMAIN Items(d, "extensions") : Str(Items(d, "extensions")[i], "key") = key} IN Items(d, "extensions")[CHOOSE i \in S : TRUE]
Scenarios(d) == Listed(d, "scenarios")
ScenarioTags(d) == UNION {Strs(Scenarios(d)[i], "tags") : i \in DOMAIN Scenarios(d)}
ScenarioTypes(d) == UNION {Strs(Scenarios(d)[i], "type") : i \in DOMAIN Scenarios(d)}
ObjKeys(o) == IF o.t = "o" THEN SetOf(o.k) ELSE {}
ScenarioExtKeys(d) == UNION {(IF Has(Scenarios(d)[i], "ext") THEN ObjKeys(Get(Scenarios(d)[i], "ext")) ELSE {})
                             \cup (IF Has(Scenarios(d)[i], "ext_key") THEN {Str(Scenarios(d)[i], "ext_key")} ELSE {})
                             \cup (IF Has(Scenarios(d)[i], "filter") THEN {} ELSE {}) : i \in DOMAIN Scenarios(d)}
CorrectionTypes(d) == UNION {Strs(Items(d, "corrections")[i], "types") : i \in DOMAIN Items(d, "corrections")}
CorrectionExts(d) == UNION {Strs(Items(d, "corrections")[i], "extensions") : i \in DOMAIN Items(d, "corrections")}
Categories(d) == {Str(Items(d, "categories")[i], "code") : i \in DOMAIN Items(d, "categories")}
CategoryExts(d) == UNION {Strs(Items(d, "categories")[i], "extensions") : i \in DOMAIN Items(d, "categories")}

\* extension values used by scenarios: (key, code) pairs from ext_key/ext_code filters and from ext assignments
ObjPairs(o) == IF o.t = "o" THEN {<<o.k[i], o.v[i].v>> : i \in DOMAIN o.k} ELSE {}
ScenarioExtPairs(d) == UNION {(IF Has(Scenarios(d)[i], "ext") THEN ObjPairs(Get(Scenarios(d)[i], "ext")) ELSE {})
                              \cup (IF Has(Scenarios(d)[i], "ext_key") /\ Has(Scenarios(d)[i], "ext_code")
                                    THEN {<<Str(Scenarios(d)[i], "ext_key"), Str(Scenarios(d)[i], "ext_code")>>} ELSE {}) : i \in DOMAIN Scenarios(d)}
ExtValues(e) == {Str(Items(e, "values")[i], "code") : i \in DOMAIN Items(e, "values")}

Defs(kind) == {Load(Files[i].pub) : i \in {j \in DOMAIN Files : Files[j].pub # "" /\ Kind(Files[j].name) = kind}}
AllExtKeys == UNION {ExtKeys(d) : d \in Defs("regime") \cup Defs("addon") \cup Defs("catalogue")}
AllRegimeTags == UNION {TagKeys(d) : d \in Defs("regime")}
AllExtDefs == UNION {{Items(d, "extensions")[i] : i \in DOMAIN Items(d, "extensions")} : d \in Defs("regime") \cup Defs("addon") \cup Defs("catalogue")}
\* a code is allowed for a key when the key's definition lists it (or lists no values at all: free or pattern)
CodeAllowed(key, code) == \A e \in AllExtDefs : Str(e, "key") = key => (ExtValues(e) = {} \/ code \in ExtValues(e))

Coherence(name, d) ==
    LET kind == Kind(name)
        tags == IF kind = "regime" THEN TagKeys(d) ELSE TagKeys(d) \cup AllRegimeTags
        probs ==
          (IF kind = "regime" /\ Str(d, "currency") \notin SetOf(Manifest.currencies) THEN {"unknown-currency"} ELSE {})
          \cup (IF kind = "regime" /\ Str(d, "time_zone") \notin SetOf(Manifest.zones_ok) THEN {"unknown-time-zone"} ELSE {})
          \cup {"undefined-scenario-tag:" \o t : t \in ScenarioTags(d) \ tags}
          \cup {"undefined-scenario-type:" \o t : t \in ScenarioTypes(d) \ SetOf(Manifest.invoice_types)}
          \cup {"undefined-scenario-extension:" \o k : k \in ScenarioExtKeys(d) \ AllExtKeys}
          \cup {"scenario-extension-value-not-allowed:" \o p[1] \o "=" \o p[2] : p \in {q \in ScenarioExtPairs(d) : q[1] \in AllExtKeys /\ ~CodeAllowed(q[1], q[2])}}
          \cup {"undefined-correction-type:" \o t : t \in CorrectionTypes(d) \ SetOf(Manifest.invoice_types)}
          \cup {"undefined-correction-extension:" \o k : k \in CorrectionExts(d) \ AllExtKeys}
          \cup {"undefined-category-extension:" \o k : k \in CategoryExts(d) \ AllExtKeys}
          \cup (IF name \in SetOf(Manifest.invalid_definitions) THEN {"definition-does-not-validate"} ELSE {})
    IN  probs
=============================================================================
