--------------------------- MODULE PipelineTrace ---------------------------
(***************************************************************************)
(* Trace specification for Pipeline.tla.  A trace (field tr) starts with a *)
(* Load event; b and d are identities of the serialised bytes and of the   *)
(* digest (the harness numbers distinct values per trace); cb is the       *)
(* identity of the bytes produced elsewhere (clone, other process, other   *)
(* goroutine).  Rejected traces are recorded with the reason and skipped.  *)
(***************************************************************************)
EXTENDS Integers, Sequences, TLC, Json, IOUtils
Trace == ndJsonDeserialize(IOEnv.TRACE)
VARIABLES i, bytes, dig, calculated, bad, skip, steps
vars == <<i, bytes, dig, calculated, bad, skip, steps>>
Init == i = 1 /\ bytes = 0 /\ dig = 0 /\ calculated = FALSE /\ bad = <<>> /\ skip = 0 /\ steps = 0

Reject(ev, why) == bad' = Append(bad, <<i, why>>) /\ skip' = ev.tr /\ UNCHANGED <<bytes, dig, calculated>>
Accept == bad' = bad /\ skip' = skip
Step ==
    /\ i <= Len(Trace) /\ i' = i + 1
    /\ LET ev == Trace[i] IN
       IF ev.op = "Load"
       THEN /\ steps' = steps
            /\ IF ev.ok THEN bytes' = ev.b /\ dig' = ev.d /\ calculated' = FALSE /\ skip' = 0 /\ bad' = bad
               ELSE bytes' = 0 /\ dig' = 0 /\ calculated' = FALSE /\ skip' = ev.tr /\ bad' = bad      \* input is not a document: nothing to check
       ELSE IF skip = ev.tr THEN UNCHANGED <<bytes, dig, calculated, bad, skip, steps>>
       ELSE /\ steps' = steps + 1
            /\ IF ev.panic THEN Reject(ev, "panic:" \o ev.op)
               ELSE IF ev.op = "Reserialise"
               THEN IF ~ev.ok THEN Reject(ev, "own-serialisation-unreadable")
                    ELSE IF ev.b # bytes THEN Reject(ev, "reserialise-changes-bytes")
                    ELSE Accept /\ UNCHANGED <<bytes, dig, calculated>>
               ELSE IF ev.op = "Calculate"
               THEN IF ~calculated
                    THEN IF ev.ok THEN bytes' = ev.b /\ dig' = ev.d /\ calculated' = TRUE /\ Accept
                         ELSE \* not calculable: the property does not speak about this document
                              skip' = ev.tr /\ bad' = bad /\ UNCHANGED <<bytes, dig, calculated>>
                    ELSE IF ~ev.ok THEN Reject(ev, "calculate-fails-after-success")
                         ELSE IF ev.b # bytes THEN Reject(ev, "not-a-fixpoint")
                         ELSE IF ev.d # dig THEN Reject(ev, "digest-changes")
                         ELSE Accept /\ UNCHANGED <<bytes, dig, calculated>>
               ELSE \* observers: Validate, Digest, Verify, Extract, Clone, OtherProcess, OtherGoroutine
                    IF ev.b # bytes \/ ev.d # dig THEN Reject(ev, "observer-changes:" \o ev.op)
                    ELSE IF ev.op \in {"Clone", "OtherProcess", "OtherGoroutine"} /\ ev.ok /\ ev.cb # bytes THEN Reject(ev, "differs-elsewhere:" \o ev.op)
                    ELSE Accept /\ UNCHANGED <<bytes, dig, calculated>>
Spec == Init /\ [][Step]_vars
\* the action property of Pipeline.tla, evaluated on every accepted step
FixPoint == [][(calculated /\ skip' = skip /\ Trace[i].op # "Load") => (bytes' = bytes /\ dig' = dig)]_vars
Done == i = Len(Trace) + 1
Report == Done => JsonSerialize(IOEnv.RESULT, [events |-> Len(Trace), bad |-> bad, steps |-> steps])
=============================================================================
