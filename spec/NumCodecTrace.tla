--------------------------- MODULE NumCodecTrace ---------------------------
(***************************************************************************)
(* Trace specification for NumCodec.tla (C06).  read events: the reader    *)
(* must accept exactly the pattern members that fit in 64 bits (for the    *)
(* bare JSON reader: those that are also JSON numbers) and return the      *)
(* value the text denotes.  rt events: the written text is Print(value),   *)
(* matches the pattern, reads back to the same value (amount: same         *)
(* precision; percentage: equal value, stable text).                       *)
(* All rejected events are recorded, with the kind of divergence.          *)
(***************************************************************************)
EXTENDS NumCodec, Regex, TLC, Json, IOUtils

Trace == ndJsonDeserialize(IOEnv.TRACE)
\* the patterns PUBLISHED in data/schemas/num/amount.json and percentage.json, as syntax trees
Published == JsonDeserialize(IOEnv.PATTERNS)
PublishedMember(ev) == ReMatches(IF ev.ty = "amount" THEN Published.amount ELSE Published.percentage, ev.in)
VARIABLES i, bad, members, near
vars == <<i, bad, members, near>>
Init == i = 1 /\ bad = <<>> /\ members = 0 /\ near = 0

(***************************************************************************)
(* The "json-bare" reader hands the text to the JSON decoder as it is.     *)
(* JSON allows insignificant white space around a value, and a text that   *)
(* happens to be a quoted string is a string: the token the number reader  *)
(* finally sees is Token(s), of kind "string" or "bare".                   *)
(***************************************************************************)
RECURSIVE TrimL(_)
TrimL(s) == IF s # <<>> /\ s[1] = 32 THEN TrimL(Tail(s)) ELSE s
RECURSIVE TrimR(_)
TrimR(s) == IF s # <<>> /\ s[Len(s)] = 32 THEN TrimR(SubSeq(s, 1, Len(s) - 1)) ELSE s
Trim(s) == TrimR(TrimL(s))
IsQuotedTok(t) == Len(t) >= 2 /\ t[1] = Quote /\ t[Len(t)] = Quote
                  /\ \A j \in 2..(Len(t) - 1) : t[j] # Quote /\ t[j] # 92
Text(ev) == IF ev.rd = "json-bare"
            THEN LET t == Trim(ev.in) IN IF IsQuotedTok(t) THEN SubSeq(t, 2, Len(t) - 1) ELSE t
            ELSE ev.in
BareNumber(ev) == ev.rd = "json-bare" /\ ~IsQuotedTok(Trim(ev.in))

ShouldAccept(ev) ==
    /\ Matches(Text(ev), ev.ty)
    /\ Fits64(Text(ev), ev.ty)
    /\ (BareNumber(ev) => ev.ty = "amount" /\ JsonNumber(Text(ev)))

\* "ok" | kind of divergence
ReadVerdict(ev) ==
    \* the published pattern is the one the specification states (checked on the plain string reader's inputs)
    IF ev.rd = "string" /\ Published.ok /\ PublishedMember(ev) # Matches(ev.in, ev.ty) THEN "published-pattern-differs"
    ELSE IF ShouldAccept(ev)
    THEN IF ~ev.ok THEN "rejects-member"
         ELSE IF A(ev.v, ev.e) = ValueOf(Text(ev), ev.ty) THEN "ok" ELSE "wrong-value"
    ELSE IF ev.ok THEN "accepts-nonmember" ELSE "ok"

PctInDomain(a) == W(Mul(a.v, Of(100)))
RtVerdict(ev) ==
    IF ev.ty = "amount"
    THEN LET txt == IF ev.wr = "json" THEN Quoted(Print(ev.a)) ELSE Print(ev.a)
         IN  IF ev.out # txt THEN "wrong-text"
             ELSE IF ~ev.ok THEN "unreadable-own-text"
             ELSE IF A(ev.v, ev.e) # ev.a THEN "roundtrip-differs"
             ELSE IF ev.out2 # ev.out THEN "unstable-text" ELSE "ok"
    ELSE IF ~PctInDomain(ev.a) THEN "ok"
    ELSE LET txt == IF ev.wr = "json" THEN Quoted(PrintPct(ev.a)) ELSE PrintPct(ev.a)
         IN  IF ev.out # txt THEN "wrong-text"
             ELSE IF ~ev.ok THEN "unreadable-own-text"
             ELSE IF ~AEq(A(ev.v, ev.e), ev.a) THEN "roundtrip-differs"
             ELSE IF ev.out2 # ev.out THEN "unstable-text" ELSE "ok"

Verdict(ev) == IF ev.k = "read" THEN ReadVerdict(ev) ELSE RtVerdict(ev)
HasDigit(s) == \E j \in 1..Len(s) : IsDigit(s[j])

Step == /\ i <= Len(Trace)
        /\ LET ev == Trace[i]
               v  == Verdict(ev)
           IN  /\ bad' = IF v = "ok" THEN bad ELSE Append(bad, <<i, v>>)
               /\ members' = members + (IF ev.k = "read" /\ ShouldAccept(ev) THEN 1 ELSE 0)
               /\ near' = near + (IF ev.k = "read" /\ ~ShouldAccept(ev) /\ HasDigit(ev.in) THEN 1 ELSE 0)
        /\ i' = i + 1
Spec == Init /\ [][Step]_vars
Done == i = Len(Trace) + 1
Report == Done => JsonSerialize(IOEnv.RESULT, [events |-> Len(Trace), bad |-> bad, members |-> members, near |-> near])
=============================================================================
