--------------------------- MODULE NumCodecTrace ---------------------------
(***************************************************************************)
(* Trace specification for NumCodec.tla (C06).  read events: the reader    *)
(* must accept exactly the pattern members that fit in 64 bits (for the    *)
(* bare JSON reader: those that are also JSON numbers) and return the      *)
(* value the text denotes.  rt events: the written text is Print(value),   *)
(* matches the pattern, reads back to the same value (amount: same         *)
(* precision; percentage: equal value, stable text).                       *)
(* All rejected events are recorded, with the kind of divergence.          *)
(***************************************************************************)
EXTENDS NumCodec, TLC, Json, IOUtils

Trace == ndJsonDeserialize(IOEnv.TRACE)
VARIABLES i, bad, members, near
vars == <<i, bad, members, near>>
Init == i = 1 /\ bad = <<>> /\ members = 0 /\ near = 0

ShouldAccept(ev) ==
    /\ Matches(ev.in, ev.ty)
    /\ Fits64(ev.in, ev.ty)
    /\ (ev.rd = "json-bare" => ev.ty = "amount" /\ JsonNumber(ev.in))

\* "ok" | kind of divergence
ReadVerdict(ev) ==
    IF ShouldAccept(ev)
    THEN IF ~ev.ok THEN "rejects-member"
         ELSE IF A(ev.v, ev.e) = ValueOf(ev.in, ev.ty) THEN "ok" ELSE "wrong-value"
    ELSE IF ev.ok THEN "accepts-nonmember" ELSE "ok"

PctInDomain(a) == W(Mul(a.v, Of(100)))
RtVerdict(ev) ==
    IF ev.ty = "amount"
    THEN LET txt == IF ev.wr = "json" THEN Quoted(Print(ev.a)) ELSE Print(ev.a)
         IN  IF ev.out # txt THEN "wrong-text"
             ELSE IF ~ev.ok THEN "unreadable-own-text"
             ELSE IF A(ev.v, ev.e) # ev.a THEN "roundtrip-differs"
             ELSE IF ev.out2 # ev.out THEN "unstable-text" ELSE "ok"
    ELSE IF ~PctInDomain(ev.a) THEN "ok"
    ELSE LET txt == IF ev.wr = "json" THEN Quoted(PrintPct(ev.a)) ELSE PrintPct(ev.a)
         IN  IF ev.out # txt THEN "wrong-text"
             ELSE IF ~ev.ok THEN "unreadable-own-text"
             ELSE IF ~AEq(A(ev.v, ev.e), ev.a) THEN "roundtrip-differs"
             ELSE IF ev.out2 # ev.out THEN "unstable-text" ELSE "ok"

Verdict(ev) == IF ev.k = "read" THEN ReadVerdict(ev) ELSE RtVerdict(ev)
HasDigit(s) == \E j \in 1..Len(s) : IsDigit(s[j])

Step == /\ i <= Len(Trace)
        /\ LET ev == Trace[i]
               v  == Verdict(ev)
           IN  /\ bad' = IF v = "ok" THEN bad ELSE Append(bad, <<i, v>>)
               /\ members' = members + (IF ev.k = "read" /\ ShouldAccept(ev) THEN 1 ELSE 0)
               /\ near' = near + (IF ev.k = "read" /\ ~ShouldAccept(ev) /\ HasDigit(ev.in) THEN 1 ELSE 0)
        /\ i' = i + 1
Spec == Init /\ [][Step]_vars
Done == i = Len(Trace) + 1
Report == Done => JsonSerialize(IOEnv.RESULT, [events |-> Len(Trace), bad |-> bad, members |-> members, near |-> near])
=============================================================================
