------------------------------ MODULE Scenario ------------------------------
(***************************************************************************)
(* The scenario engine: which notes and extensions a calculated invoice    *)
(* receives from the scenarios PUBLISHED for its regime and addons         *)
(* (data/regimes/*.json, data/addons/*.json: scenarios[].list[] with the   *)
(* filters type / tags / ext_key / ext_code and the outputs note / ext).   *)
(* A scenario matches when every filter it states holds; the summary takes *)
(* the matching scenarios in order (regime first, then the addons in the   *)
(* document's order): notes are keyed by (key, code, src) - a later one    *)
(* replaces an earlier one -, the note's code is the scenario's ext_code,   *)
(* extensions are merged, later ones winning.  At the fix-point of         *)
(* calculation the document carries every summary note and extension, and  *)
(* no note of a scenario that does not match.                              *)
(* Filters written in code only (json:"-") are not published; scenarios    *)
(* known to have one are listed in CodeOnlyFilter and not judged.          *)
(***************************************************************************)
EXTENDS Refs

RECURSIVE CatSeq(_, _)
CatSeq(ss, i) == IF i > Len(ss) THEN <<>> ELSE ss[i] \o CatSeq(ss, i + 1)
\* the scenarios a definition offers for a document type, in order
ScenOf(d, schema) == CatSeq([g \in DOMAIN Items(d, "scenarios") |->
                                IF Str(Items(d, "scenarios")[g], "schema") = schema THEN Items(Items(d, "scenarios")[g], "list") ELSE <<>>], 1)
AnyOf(S) == CHOOSE x \in S : TRUE
ScenList(cc, addons, schema) ==
    (IF RegimesFor(cc) = {} THEN <<>> ELSE ScenOf(Doc[AnyOf(RegimesFor(cc))], schema))
    \o CatSeq([a \in DOMAIN addons |-> IF AddonsFor(addons[a]) = {} THEN <<>> ELSE ScenOf(Doc[AnyOf(AddonsFor(addons[a]))], schema)], 1)

\* doc == [type, tags : set, exts : Seq(Seq(<<key, value>>))]
ExtHas(e, key, code) == \E j \in DOMAIN e : e[j][1] = key /\ (code = "" \/ e[j][2] = code)
Matches(s, doc) ==
    /\ (Strs(s, "type") # {} => doc.type \in Strs(s, "type"))
    /\ (Strs(s, "tags") # {} => Strs(s, "tags") \subseteq doc.tags)
    /\ (Str(s, "ext_key") # "" => \E i \in DOMAIN doc.exts : ExtHas(doc.exts[i], Str(s, "ext_key"), Str(s, "ext_code")))

NoteOf(s) == LET n == Get(s, "note") IN [key |-> Str(n, "key"), code |-> Str(s, "ext_code"), src |-> Str(n, "src"), text |-> Str(n, "text")]
OwnNote(s) == LET n == Get(s, "note") IN [key |-> Str(n, "key"), code |-> Str(n, "code"), src |-> Str(n, "src"), text |-> Str(n, "text")]
Same(a, b) == a.key = b.key /\ a.code = b.code /\ a.src = b.src

RECURSIVE NotesFrom(_, _, _, _)
\* notes of the matching scenarios, a later note with the same identity replacing the earlier one
NotesFrom(list, doc, i, acc) ==
    IF i > Len(list) THEN acc
    ELSE IF Matches(list[i], doc) /\ Has(list[i], "note")
         THEN LET n == NoteOf(list[i])
                  hit == {j \in DOMAIN acc : Same(acc[j], n)}
              IN  NotesFrom(list, doc, i + 1, IF hit = {} THEN Append(acc, n) ELSE [acc EXCEPT ![AnyOf(hit)] = n])
         ELSE NotesFrom(list, doc, i + 1, acc)
\* extensions of the matching scenarios as a function key -> value, later ones winning
ExtPairs(s) == IF Has(s, "ext") /\ Get(s, "ext").t = "o" THEN {<<Get(s, "ext").k[j], Get(s, "ext").v[j].v>> : j \in DOMAIN Get(s, "ext").k} ELSE {}
LastWith(list, doc, key) == LET S == {i \in DOMAIN list : Matches(list[i], doc) /\ \E p \in ExtPairs(list[i]) : p[1] = key}
                            IN  CHOOSE i \in S : \A j \in S : j <= i
SummaryExt(list, doc) ==
    LET keys == UNION {{p[1] : p \in ExtPairs(list[i])} : i \in {j \in DOMAIN list : Matches(list[j], doc)}}
    IN  [k \in keys |-> (CHOOSE p \in ExtPairs(list[LastWith(list, doc, k)]) : p[1] = k)[2]]

\* scenarios whose filter exists in code only: <<addon or regime key, position in its list>> is avoided by naming the output
CodeOnlyFilter(s) == \E p \in ExtPairs(s) : p = <<"pt-saft-invoice-type", "FR">>

\* verdict on a calculated invoice at its fix-point:  got == [notes : Seq(note), ext : Seq(<<k, v>>)]
ScenarioVerdict(cc, addons, schema, doc, got) ==
    LET all  == ScenList(cc, addons, schema)
        list == SelectSeq(all, LAMBDA s : ~CodeOnlyFilter(s))
        ns   == NotesFrom(list, doc, 1, <<>>)
        ext  == SummaryExt(list, doc)
        overridden == {p[1] : p \in UNION {ExtPairs(all[i]) : i \in {j \in DOMAIN all : CodeOnlyFilter(all[j])}}}
    IN  IF \E i \in DOMAIN ns : ~\E j \in DOMAIN got.notes : Same(got.notes[j], ns[i]) /\ got.notes[j].text = ns[i].text
        THEN "scenario-note-missing"
        ELSE IF \E k \in (DOMAIN ext) \ overridden : ~\E j \in DOMAIN got.ext : got.ext[j][1] = k /\ got.ext[j][2] = ext[k]
        THEN "scenario-extension-missing"
        ELSE IF \E j \in DOMAIN got.notes : (\E i \in DOMAIN list : Has(list[i], "note") /\ Same(got.notes[j], OwnNote(list[i])))
                                            /\ ~\E i \in DOMAIN ns : Same(got.notes[j], ns[i])
        THEN "stale-scenario-note"
        ELSE "ok"
=============================================================================
