-------------------------------- MODULE Bulk --------------------------------
(***************************************************************************)
(* The bulk stream protocol (C15): a reader decodes requests in order and  *)
(* gives each its 1-based position (seq); one worker per request computes  *)
(* the response and puts it on the single output stream; when the input    *)
(* ends (end of input, or a request that cannot be decoded) the reader     *)
(* waits for all workers and emits a single final marker with seq = n+1.   *)
(*                                                                         *)
(* N requests; request i has identifier ReqId[i].  The stream may be cut   *)
(* by a malformed request at position Bad (0 = none): requests after it    *)
(* are never read.                                                         *)
(***************************************************************************)
EXTENDS Integers, Sequences, FiniteSets, TLC
CONSTANTS N, Bad
ASSUME N \in Nat /\ Bad \in 0..N

Readable == IF Bad = 0 THEN N ELSE Bad - 1     \* requests that are decoded and dispatched

VARIABLES decoded,     \* number of requests read so far
          running,     \* requests whose worker has started and not yet responded
          computed,    \* requests whose worker has finished computing
          out,         \* the output stream: sequence of [kind, seq, req]
          ended        \* the reader has seen the end of the input
vars == <<decoded, running, computed, out, ended>>

Init == decoded = 0 /\ running = {} /\ computed = {} /\ out = <<>> /\ ended = FALSE

Decode == /\ ~ended /\ decoded < Readable
          /\ decoded' = decoded + 1
          /\ running' = running \cup {decoded + 1}
          /\ UNCHANGED <<computed, out, ended>>
Process(i) == /\ i \in running /\ i \notin computed
              /\ computed' = computed \cup {i}
              /\ UNCHANGED <<decoded, running, out, ended>>
Respond(i) == /\ i \in running /\ i \in computed
              /\ out' = Append(out, [kind |-> "resp", seq |-> i, req |-> i])
              /\ running' = running \ {i}
              /\ UNCHANGED <<decoded, computed, ended>>
InputEnds == /\ ~ended /\ decoded = Readable
             /\ ended' = TRUE
             /\ UNCHANGED <<decoded, running, computed, out>>
Final == /\ ended /\ running = {}
         /\ ~\E j \in DOMAIN out : out[j].kind = "final"
         /\ out' = Append(out, [kind |-> "final", seq |-> Readable + 1, req |-> IF Bad = 0 THEN 0 ELSE Bad])
         /\ UNCHANGED <<decoded, running, computed, ended>>
Next == Decode \/ InputEnds \/ Final \/ \E i \in 1..N : Process(i) \/ Respond(i)
Spec == Init /\ [][Next]_vars /\ WF_vars(Next)

---------------------------------------------------------------------------
Responses == {j \in DOMAIN out : out[j].kind = "resp"}
Finals == {j \in DOMAIN out : out[j].kind = "final"}
\* every request gets at most one response, carrying its own id and its position
ExactlyOnce == \A j, k \in Responses : out[j].seq = out[k].seq => j = k
OwnIdentity == \A j \in Responses : out[j].req = out[j].seq /\ out[j].seq \in 1..Readable
\* a single final marker, after all responses, numbered after the last request read
FinalLast == /\ Cardinality(Finals) <= 1
             /\ \A j \in Finals : /\ j = Len(out)
                                  /\ {out[k].seq : k \in Responses} = 1..Readable
                                  /\ out[j].seq = Readable + 1
\* every readable request is eventually answered and the stream is eventually closed
Answered == <>(\E j \in DOMAIN out : out[j].kind = "final")
=============================================================================
