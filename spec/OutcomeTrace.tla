---------------------------- MODULE OutcomeTrace ----------------------------
(* Trace specification for Outcome.tla: each event is the behaviour of the   *)
(* pipeline (or of the bulk processor) on one input.                         *)
EXTENDS Outcome, Json, IOUtils
Trace == ndJsonDeserialize(IOEnv.TRACE)
VARIABLES i, bad, failing
vars == <<i, bad, failing>>
Init == i = 1 /\ bad = <<>> /\ failing = 0
FirstBad(ev) == LET B == {j \in DOMAIN ev.steps : IF ev.k = "bulk" THEN ~BulkReturns(ev.steps[j].out) ELSE ~Returns(ev.steps[j].out)}
                IN  IF B = {} THEN 0 ELSE CHOOSE j \in B : \A k \in B : j <= k
Verdict(ev) == LET f == FirstBad(ev)
               IN  IF f # 0 THEN ev.steps[f].out \o ":" \o ev.steps[f].op
                   ELSE IF ev.k = "pipeline" /\ ~WellFormed(ev.steps) THEN "malformed-behaviour"
                   ELSE "ok"
Step == /\ i <= Len(Trace)
        /\ LET ev == Trace[i]
               v  == Verdict(ev)
           IN  /\ bad' = IF v = "ok" THEN bad ELSE Append(bad, <<i, v>>)
               /\ failing' = failing + (IF \E j \in DOMAIN ev.steps : ev.steps[j].out # "ok" THEN 1 ELSE 0)
        /\ i' = i + 1
Spec == Init /\ [][Step]_vars
Done == i = Len(Trace) + 1
Report == Done => JsonSerialize(IOEnv.RESULT, [events |-> Len(Trace), bad |-> bad, failing |-> failing])
=============================================================================
