SPECIFICATION Spec
INVARIANT Report
PROPERTY FixPoint
CHECK_DEADLOCK FALSE
