------------------------------- MODULE Rates -------------------------------
(***************************************************************************)
(* The tax rate in force on a date (C12).  The rate tables are a constant  *)
(* of the specification: the in-code definitions of every registered       *)
(* regime, exported by the harness (Tables.rates, one record per regime x  *)
(* category x rate key):                                                   *)
(*   [cc, cat, key, exempt, values : Seq([since : <<>> | <<y,m,d>>,         *)
(*        pct, sur : Opt(Amount), tags : Seq(STRING), ext : Seq("k=v")])]  *)
(***************************************************************************)
EXTENDS Integers, Sequences, FiniteSets, Json, IOUtils, TLC

Tables == JsonDeserialize(IOEnv.TABLES)
RateDefs == Tables.rates
SetOf(seq) == {seq[i] : i \in DOMAIN seq}

\* dates are <<y, m, d>>; an absent start date counts as minus infinity
DateLe(a, b) == \/ a[1] < b[1]
                \/ a[1] = b[1] /\ a[2] < b[2]
                \/ a[1] = b[1] /\ a[2] = b[2] /\ a[3] <= b[3]
DateLt(a, b) == DateLe(a, b) /\ a # b
InForce(v, date) == v.since = <<>> \/ DateLe(v.since, date)        \* takes effect on its start date itself

\* a value applies when its qualifications hold: no tags or a shared tag; no extensions or all contained
Applies(v, tags, ext) == /\ (v.tags = <<>> \/ SetOf(v.tags) \cap SetOf(tags) # {})
                         /\ SetOf(v.ext) \subseteq SetOf(ext)
Specificity(v) == Len(v.tags) + Len(v.ext)

\* v1 is a better choice than v2 on a date on which both are in force
Later(v1, v2) == IF v2.since = <<>> THEN v1.since # <<>> ELSE v1.since # <<>> /\ DateLt(v2.since, v1.since)
SameSince(v1, v2) == v1.since = v2.since
Better(v1, v2) == Later(v1, v2) \/ (SameSince(v1, v2) /\ Specificity(v1) > Specificity(v2))

Candidates(rd, date, tags, ext) ==
    {i \in DOMAIN rd.values : Applies(rd.values[i], tags, ext) /\ InForce(rd.values[i], date)}
Best(rd, date, tags, ext) ==
    LET C == Candidates(rd, date, tags, ext)
    IN  {i \in C : \A j \in C : j # i => Better(rd.values[i], rd.values[j])}

\* result: [res |-> "exempt" | "novalues" | "none" | "value" | "ambiguous", pct, sur]
NoPct == <<>>
Expected(rd, date, tags, ext) ==
    IF rd.exempt THEN [res |-> "exempt", pct |-> NoPct, sur |-> NoPct]
    ELSE IF rd.values = <<>> THEN [res |-> "novalues", pct |-> NoPct, sur |-> NoPct]
    ELSE LET C == Candidates(rd, date, tags, ext)
             B == Best(rd, date, tags, ext)
         IN  IF C = {} THEN [res |-> "none", pct |-> NoPct, sur |-> NoPct]        \* before the first value: an error, not a guess
             ELSE IF Cardinality(B) # 1 THEN [res |-> "ambiguous", pct |-> NoPct, sur |-> NoPct]
             ELSE LET v == rd.values[CHOOSE i \in B : TRUE]
                  IN  [res |-> "value", pct |-> <<v.pct>>, sur |-> v.sur]

\* table invariant: within each qualification group the start dates are strictly descending
QualKey(v) == <<SetOf(v.tags), SetOf(v.ext)>>
Ordered(rd) == \A i, j \in DOMAIN rd.values :
                  (i < j /\ QualKey(rd.values[i]) = QualKey(rd.values[j])) =>
                      /\ rd.values[i].since # <<>>
                      /\ (rd.values[j].since # <<>> => DateLt(rd.values[j].since, rd.values[i].since))
=============================================================================
