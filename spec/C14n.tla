-------------------------------- MODULE C14n --------------------------------
(***************************************************************************)
(* GOBL canonical JSON (C07), rule by rule from c14n/README.md.            *)
(*                                                                         *)
(* Abstract JSON values are tagged records:                                *)
(*   [t |-> "obj",  m |-> Seq([k : Seq(codepoint), v : value])]  distinct keys *)
(*   [t |-> "arr",  a |-> Seq(value)]                                      *)
(*   [t |-> "str",  s |-> Seq(codepoint)]                                  *)
(*   [t |-> "int",  n |-> BigInt]                 integer literal          *)
(*   [t |-> "dec",  neg, d |-> Seq(0..9), e]      any other number:        *)
(*         d1.d2d3.. x 10^e, d without leading/trailing zeros (<<0>> = 0)  *)
(*   [t |-> "bool", b]      [t |-> "null"]                                 *)
(* Texts are sequences of Unicode code points (the harness decodes the     *)
(* UTF-8 output of the real code; undecodable output is reported as such). *)
(***************************************************************************)
EXTENDS BigInt, Sequences, FiniteSets

RECURSIVE MDigits(_)
MDigits(m) == IF m = <<>> THEN <<>> ELSE LET x == MDivSmall(m, 10) IN Append(MDigits(x[1]), 48 + x[2])
NatText(k) == IF k = 0 THEN <<48>> ELSE MDigits(MOfNat(k))
IntText(k) == IF k < 0 THEN <<45>> \o NatText(0 - k) ELSE NatText(k)

Hex(n) == IF n < 10 THEN 48 + n ELSE 55 + n            \* upper case
\* rule 8: minimal escapes
EscapeCp(c) ==
    CASE c = 34 -> <<92, 34>>
      [] c = 92 -> <<92, 92>>
      [] c = 8  -> <<92, 98>>
      [] c = 9  -> <<92, 116>>
      [] c = 10 -> <<92, 110>>
      [] c = 12 -> <<92, 102>>
      [] c = 13 -> <<92, 114>>
      [] c < 32 -> <<92, 117, 48, 48, Hex(c \div 16), Hex(c % 16)>>
      [] OTHER  -> <<c>>
RECURSIVE EscapeFrom(_, _)
EscapeFrom(s, i) == IF i > Len(s) THEN <<>> ELSE EscapeCp(s[i]) \o EscapeFrom(s, i + 1)
StrText(s) == <<34>> \o EscapeFrom(s, 1) \o <<34>>

\* rule 6: integers plain, no minus on zero
BigText(n) == IF n.m = <<>> THEN <<48>> ELSE (IF n.n = 1 THEN <<45>> ELSE <<>>) \o MDigits(n.m)
\* rule 7: d.ddd E x, at least one fraction digit, capital E, no plus, no leading zeros in the exponent
DecText(v) == LET ds == [i \in DOMAIN v.d |-> 48 + v.d[i]]
                  fr == IF Len(ds) = 1 THEN <<48>> ELSE SubSeq(ds, 2, Len(ds))
              IN  (IF v.neg = 1 THEN <<45>> ELSE <<>>) \o <<ds[1], 46>> \o fr \o <<69>> \o IntText(v.e)

\* rule 3: order of names by code point
RECURSIVE SeqLess(_, _, _)
SeqLess(a, b, i) == IF i > Len(a) THEN i <= Len(b)
                    ELSE IF i > Len(b) THEN FALSE
                    ELSE IF a[i] < b[i] THEN TRUE
                    ELSE IF a[i] > b[i] THEN FALSE
                    ELSE SeqLess(a, b, i + 1)
KeyLess(a, b) == SeqLess(a, b, 1)
\* the members in canonical order (keys are distinct)
RECURSIVE SortMembers(_)
SortMembers(ms) ==
    IF ms = <<>> THEN <<>>
    ELSE LET mi == CHOOSE i \in DOMAIN ms : \A j \in DOMAIN ms : j # i => KeyLess(ms[i].k, ms[j].k)
             rest == [j \in 1..(Len(ms) - 1) |-> IF j < mi THEN ms[j] ELSE ms[j + 1]]
         IN  <<ms[mi]>> \o SortMembers(rest)
DropNulls(ms) == LET idx == {i \in DOMAIN ms : ms[i].v.t # "null"}
                     F[i \in 0..Len(ms)] == IF i = 0 THEN <<>> ELSE IF i \in idx THEN Append(F[i - 1], ms[i]) ELSE F[i - 1]
                 IN  F[Len(ms)]

RECURSIVE Canon(_), Join(_, _), MemberTexts(_), ElemTexts(_)
Join(parts, i) == IF i > Len(parts) THEN <<>>
                  ELSE IF i = Len(parts) THEN parts[i] ELSE parts[i] \o <<44>> \o Join(parts, i + 1)
MemberTexts(ms) == [i \in DOMAIN ms |-> StrText(ms[i].k) \o <<58>> \o Canon(ms[i].v)]
ElemTexts(a) == [i \in DOMAIN a |-> Canon(a[i])]
Canon(v) ==
    CASE v.t = "obj"  -> <<123>> \o Join(MemberTexts(SortMembers(DropNulls(v.m))), 1) \o <<125>>   \* rules 3, 4
      [] v.t = "arr"  -> <<91>> \o Join(ElemTexts(v.a), 1) \o <<93>>                                 \* rule 5
      [] v.t = "str"  -> StrText(v.s)
      [] v.t = "int"  -> BigText(v.n)
      [] v.t = "dec"  -> DecText(v)
      [] v.t = "bool" -> IF v.b THEN <<116, 114, 117, 101>> ELSE <<102, 97, 108, 115, 101>>
      [] v.t = "null" -> <<110, 117, 108, 108>>

\* the logical content: members with a null value do not count, member order does not count
RECURSIVE Content(_)
Content(v) ==
    CASE v.t = "obj" -> LET ms == DropNulls(v.m)
                        IN  [t |-> "obj", m |-> {[k |-> ms[i].k, v |-> Content(ms[i].v)] : i \in DOMAIN ms}]
      [] v.t = "arr" -> [t |-> "arr", a |-> [i \in DOMAIN v.a |-> Content(v.a[i])]]
      [] OTHER -> v
=============================================================================
