----------------------------- MODULE DigestTrace -----------------------------
(***************************************************************************)
(* Trace specification for C08 on top of Envelope.tla.  Every event starts *)
(* from a calculated, valid, unsigned envelope (D holds, V holds, S does   *)
(* not) and applies one re-encoding or one edit to its serialised form.    *)
(* In terms of the envelope state machine an event is                      *)
(*      Reserialise (content unchanged)   or   EditDoc (content changed)   *)
(* followed by Validate and then Calculate.  The harness reports whether   *)
(* the logical content changed (independent canonical form), so the        *)
(* specification's Validate outcome can be compared with the real one:     *)
(*   content unchanged -> D still holds     -> "ok"                        *)
(*   content changed   -> D no longer holds -> "digest", or "validation"   *)
(*                        when the edited document is not valid either     *)
(* and after Calculate the digest differs exactly when the recalculated    *)
(* content differs from the original.                                      *)
(***************************************************************************)
EXTENDS Integers, Sequences, TLC, Json, IOUtils
CONSTANTS Keys, MaxName
\* the operators of the envelope specification (its variables play no role here)
E == INSTANCE Envelope WITH doc <- 0, head <- 0, sigs <- <<>>, out <- ""
Trace == ndJsonDeserialize(IOEnv.TRACE)
VARIABLES i, bad, edits
tvars == <<i, bad, edits>>
TInit == i = 1 /\ bad = <<>> /\ edits = 0

Orig == E!Doc("inv", 0, TRUE, TRUE)
Edited(valid) == E!Doc("inv", 1, TRUE, valid)
HeadOf == [E!Head0 EXCEPT !.dig = Orig]
\* outcomes the specification allows for Validate after the event
Allowed(ev) == IF ~ev.changed THEN {E!ValidateOut(Orig, HeadOf, <<>>)}
               ELSE {E!ValidateOut(Edited(TRUE), HeadOf, <<>>), E!ValidateOut(Edited(FALSE), HeadOf, <<>>)}

Verdict(ev) ==
    IF ev.panic THEN "panic"
    ELSE IF ev.k = "reencode"
    THEN IF ~ev.parse THEN "reencoding-refused"
         ELSE IF ev.changed THEN "reencoding-changes-content"
         ELSE IF ev.validate \notin Allowed(ev) THEN "reencoding-invalidates"
         ELSE "ok"
    ELSE IF ~ev.parse THEN "ok"                                     \* refused outright: evident
    \* the same text read into a value that already held the original envelope must give the same document
    ELSE IF ev.reuse = "differs" THEN "edit-hidden-when-read-into-held-envelope"
    ELSE IF ev.changed /\ ev.validate = "ok" THEN "edit-not-evident"
    \* an altered value or reordered array that the parser silently undoes (the text said something else than
    \* what was digested) - members that are derived (regime) or unknown to the type are legitimately dropped
    ELSE IF ~ev.changed /\ ev.kind \in {"alter-leaf", "reorder-array", "remove-element", "swap-control-char"} /\ ev.validate = "ok"
         THEN "edit-lost-in-parsing"
    ELSE IF ~ev.changed /\ ev.validate \notin Allowed(ev) THEN "same-content-rejected"
    ELSE IF ev.recalc /\ ev.changed2 /\ ~ev.digdiff THEN "recalculated-digest-unchanged"
    ELSE IF ev.recalc /\ ~ev.changed2 /\ ev.digdiff THEN "digest-differs-for-same-content"
    ELSE "ok"

Step == /\ i <= Len(Trace)
        /\ LET ev == Trace[i]
               v  == Verdict(ev)
           IN  /\ bad' = IF v = "ok" THEN bad ELSE Append(bad, <<i, v>>)
               /\ edits' = edits + (IF ev.k = "edit" /\ ev.parse /\ ev.changed THEN 1 ELSE 0)
        /\ i' = i + 1
TSpec == TInit /\ [][Step]_tvars
Done == i = Len(Trace) + 1
Report == Done => JsonSerialize(IOEnv.RESULT, [events |-> Len(Trace), bad |-> bad, edits |-> edits])
=============================================================================
