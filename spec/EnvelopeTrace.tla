--------------------------- MODULE EnvelopeTrace ---------------------------
(***************************************************************************)
(* Trace specification for Envelope.tla.  The trace file holds many        *)
(* traces (field tr); an "Init" event starts a new one (TraceReset).       *)
(* Every other event is one operation on a real gobl.Envelope: the         *)
(* specification action of the same name is taken with the logged          *)
(* arguments, and then                                                     *)
(*   - the logged outcome must equal the outcome the action computed,      *)
(*   - the logged projection of the real envelope must equal the           *)
(*     projection of the specification state.                              *)
(* A trace whose event is rejected is abandoned (the rest of it cannot be  *)
(* interpreted) and recorded in bad with the reason; validation continues  *)
(* with the next trace, so one run reports every rejected trace.           *)
(***************************************************************************)
EXTENDS Envelope, Json, IOUtils

Trace == ndJsonDeserialize(IOEnv.TRACE)

VARIABLES i, bad, skip, nsteps
tvars == <<doc, head, sigs, out, i, bad, skip, nsteps>>

Pairs(seq) == [j \in DOMAIN seq |-> <<seq[j][1], seq[j][2]>>]
SetOfSeq(seq) == {seq[j] : j \in DOMAIN seq}
PairSet(seq) == {<<seq[j][1], seq[j][2]>> : j \in DOMAIN seq}
Bool(s) == s = "true"

\* the harness names a digest by the features of the content it was computed over
BoolStr(b) == IF b THEN "true" ELSE "false"
DigLabel(d) == IF d = None THEN "none"
               ELSE d.kind \o "/" \o ToString(d.name) \o "/" \o BoolStr(d.code) \o "/" \o BoolStr(d.valid)

\* projection of the specification state, in the shape the harness logs
ProjSig(sg) == [key |-> sg.key, uuid |-> sg.hdr.uuid, hasdig |-> sg.hdr.dig # None, dig |-> DigLabel(sg.hdr.dig),
                samedig |-> sg.hdr.dig # None /\ sg.hdr.dig = head'.dig,
                stamps |-> sg.hdr.stamps, links |-> sg.hdr.links, tags |-> sg.hdr.tags,
                meta |-> sg.hdr.meta, notes |-> sg.hdr.notes,
                contains |-> Contains(head', sg.hdr)]
LogSig(l) == [key |-> l.key, uuid |-> l.uuid, hasdig |-> l.hasdig, dig |-> l.dig, samedig |-> l.samedig,
              stamps |-> Pairs(l.stamps), links |-> Pairs(l.links), tags |-> SetOfSeq(l.tags),
              meta |-> PairSet(l.meta), notes |-> l.notes, contains |-> l.contains]

StateMatches(st) ==
    /\ st.kind = doc'.kind
    /\ (doc'.kind = "inv" => st.code = doc'.code)
    /\ st.valid = doc'.valid /\ st.name = doc'.name
    /\ st.D = FactD(doc', head')
    /\ st.hasdig = (head'.dig # None) /\ st.dig = DigLabel(head'.dig)
    /\ st.uuid = head'.uuid
    /\ Pairs(st.stamps) = head'.stamps
    /\ Pairs(st.links) = head'.links
    /\ SetOfSeq(st.tags) = head'.tags
    /\ PairSet(st.meta) = head'.meta
    /\ st.notes = head'.notes
    /\ Len(st.sigs) = Len(sigs')
    /\ \A j \in DOMAIN sigs' : st.sigs[j].real /\ LogSig(st.sigs[j]) = ProjSig(sigs'[j])

\* the specification action named by the event
Act(ev) ==
    CASE ev.op = "Insert"      -> Insert(ev.a)
      [] ev.op = "Calculate"   -> Calculate
      [] ev.op = "EditBenign"  -> doc' = [doc EXCEPT !.name = @ + 1] /\ out' = "ok" /\ UNCHANGED <<head, sigs>>
      [] ev.op = "SetCode"     -> IF doc.kind = "inv" THEN SetCode(Bool(ev.a))
                                  ELSE out' = "ok" /\ UNCHANGED <<doc, head, sigs>>
      [] ev.op = "SetValid"    -> SetValid(Bool(ev.a))
      [] ev.op = "Sign"        -> Sign(ev.a)
      [] ev.op = "Unsign"      -> Unsign
      [] ev.op = "AddStamp"    -> AddStamp(ev.a, ev.b)
      [] ev.op = "DupStamp"    -> DupStamp(ev.a, ev.b)
      [] ev.op = "ClearStamps" -> ClearStamps
      [] ev.op = "AddLink"     -> AddLink(ev.a, ev.b)
      [] ev.op = "DupLink"     -> DupLink(ev.a, ev.b)
      [] ev.op = "AddTag"      -> AddTag(ev.a)
      [] ev.op = "SetMeta"     -> SetMeta(ev.a, ev.b)
      [] ev.op = "SetNotes"    -> SetNotes(ev.a)
      [] ev.op = "SetUUID"     -> SetUUID(ev.a)
      [] ev.op = "Validate"    -> Validate
      [] ev.op = "Verify"      -> Verify(ev.k)
      [] ev.op = "Reserialise" -> Reserialise
      [] ev.op = "ParseEmptySig" -> ParseEmptySig
      \* a verify entry point outside the library (ev.a = "cli" | "bulk" | "http"), given the
      \* serialised envelope and one public key
      [] ev.op = "VerifyVia"   -> out' = VerifyViaOut(doc, head, sigs, ev.k) /\ UNCHANGED <<doc, head, sigs>>

Observer(ev) == ev.op \in {"Validate", "Verify", "VerifyVia", "ParseEmptySig"}

TInit == /\ doc = BaseDocs["inv"] /\ head = Head0 /\ sigs = <<>> /\ out = "ok"
         /\ i = 1 /\ bad = <<>> /\ skip = 0 /\ nsteps = 0

Reset(ev) == /\ doc' = BaseDocs[ev.base]
             /\ head' = [Head0 EXCEPT !.dig = BaseDocs[ev.base]]
             /\ sigs' = <<>> /\ out' = "ok"

Step ==
    /\ i <= Len(Trace)
    /\ i' = i + 1
    /\ LET ev == Trace[i] IN
       IF ev.op = "Init"
       THEN /\ Reset(ev)
            /\ IF StateMatches(ev.st) THEN skip' = 0 /\ bad' = bad
               ELSE skip' = ev.tr /\ bad' = Append(bad, <<i, "init-state">>)
            /\ nsteps' = nsteps
       ELSE IF skip = ev.tr
       THEN UNCHANGED <<doc, head, sigs, out, bad, skip, nsteps>>
       ELSE /\ Act(ev)
            /\ nsteps' = nsteps + 1
            /\ IF out' # ev.out
               THEN /\ bad' = Append(bad, <<i, "outcome", out'>>)
                    \* a wrong verdict of an observer leaves the rest of the trace interpretable
                    /\ skip' = IF Observer(ev) /\ StateMatches(ev.st) THEN skip ELSE ev.tr
               ELSE IF ~StateMatches(ev.st)
               THEN skip' = ev.tr /\ bad' = Append(bad, <<i, "state">>)
               ELSE skip' = skip /\ bad' = bad
TSpec == TInit /\ [][Step]_tvars

\* the design invariants are evaluated in every state of every trace as well
TraceInv == SignedImpliesWasValid /\ StampsNeedSignature /\ VerifySound /\ ViaSound

Done == i = Len(Trace) + 1
Report == Done => JsonSerialize(IOEnv.RESULT, [events |-> Len(Trace), bad |-> bad, steps |-> nsteps])
=============================================================================
