------------------------------- MODULE Shared -------------------------------
(***************************************************************************)
(* Concurrent use of the library (C15): the registries of regimes, addons, *)
(* tags, extensions are written during initialisation only, and every      *)
(* operation on an independent document gives the result it gives when     *)
(* executed alone.  G goroutines pick documents and operations in any      *)
(* order; the registry never changes; each result equals SeqResult.        *)
(***************************************************************************)
EXTENDS Integers, Sequences, FiniteSets, TLC
CONSTANTS Goroutines, Docs, Ops
VARIABLES registry, done
vars == <<registry, done>>
SeqResult(op, doc) == <<op, doc>>           \* the sequential result, abstractly: a function of operation and document only
Init == registry = "R0" /\ done = {}
Run(g, op, doc) == /\ <<g, op, doc>> \notin done
                   /\ done' = done \cup {<<g, op, doc>>}
                   /\ UNCHANGED registry
Next == \E g \in Goroutines, op \in Ops, doc \in Docs : Run(g, op, doc)
Spec == Init /\ [][Next]_vars
RegistryConstant == [][registry' = registry]_vars
ResultEquivalence == \A x \in done : SeqResult(x[2], x[3]) = <<x[2], x[3]>>
=============================================================================
