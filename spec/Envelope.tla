------------------------------ MODULE Envelope ------------------------------
(***************************************************************************)
(* The envelope life-cycle of GOBL as a state machine (C10, C09, C08,      *)
(* C16).  One action per public operation of gobl.Envelope / head.Header;  *)
(* the outcome of every operation is a function of the abstract state:     *)
(*                                                                         *)
(*   D  the header digest matches the document's logical content           *)
(*   V  the document is valid (in the signed context when signatures exist)*)
(*   S  signatures are present                                             *)
(*   H  the header still contains each signed header                       *)
(*                                                                         *)
(* A document is abstracted to the features the life-cycle depends on:     *)
(*   kind  "inv" (needs a code to be signed) | "note"                      *)
(*   name  an edit counter standing for any benign content change          *)
(*   code  whether the invoice has a code                                  *)
(*   valid whether its own validation rules hold                           *)
(* The digest is "the content it was computed over" (or "none"), so         *)
(* D == head.dig = doc.                                                    *)
(***************************************************************************)
EXTENDS Integers, Sequences, FiniteSets, TLC

CONSTANTS Keys,        \* signing keys, e.g. {"k1","k2"}
          MaxName      \* bound on the edit counter (model checking only)

VARIABLES doc, head, sigs, out
vars == <<doc, head, sigs, out>>

\* "no digest": a record of the same shape as a document so that TLC can compare it with one
None == [kind |-> "none", name |-> 0, code |-> FALSE, valid |-> FALSE]

Doc(kind, name, code, valid) == [kind |-> kind, name |-> name, code |-> code, valid |-> valid]
BaseDocs == [inv         |-> Doc("inv", 0, TRUE, TRUE),
             invnocode   |-> Doc("inv", 0, FALSE, TRUE),
             invinvalid  |-> Doc("inv", 0, TRUE, FALSE),
             note        |-> Doc("note", 0, FALSE, TRUE)]

Head0 == [uuid |-> "u1", dig |-> None, stamps |-> <<>>, links |-> <<>>, tags |-> {}, meta |-> {}, notes |-> ""]

---------------------------------------------------------------------------
(* the four facts *)
Range(s) == {s[i] : i \in DOMAIN s}
HasPair(seq, p) == \E i \in DOMAIN seq : seq[i] = p

\* head h contains the signed header g
Contains(h, g) ==
    /\ h.uuid = g.uuid
    /\ (g.dig # None => h.dig = g.dig)
    /\ \A i \in DOMAIN g.stamps : HasPair(h.stamps, g.stamps[i])
    /\ \A i \in DOMAIN g.links  : HasPair(h.links, g.links[i])
    /\ g.tags \subseteq h.tags
    /\ g.meta \subseteq h.meta
    /\ (g.notes # "" => h.notes = g.notes)

FactD(d, h) == h.dig = d
FactS(s)    == Len(s) > 0
FactV(d, s) == d.valid /\ (FactS(s) /\ d.kind = "inv" => d.code)
FactH(h, s) == \A i \in DOMAIN s : Contains(h, s[i].hdr)

NoDupFirst(seq) == \A i, j \in DOMAIN seq : i # j => seq[i][1] # seq[j][1]

HeadOK(h, s) == /\ h.dig # None
                /\ (h.stamps # <<>> => FactS(s))
                /\ NoDupFirst(h.stamps)
                /\ NoDupFirst(h.links)

\* Validate: structure (header + document in context) first, then the digest
ValidateOut(d, h, s) ==
    IF ~HeadOK(h, s) \/ ~FactV(d, s) THEN "validation"
    ELSE IF ~FactD(d, h) THEN "digest" ELSE "ok"

\* Verify with an ordered key list K (a sequence); <<>> = check contents only.
\* For each signature the first key of K that made the signature decides.
SigOK(h, sg, K) ==
    IF K = <<>> THEN Contains(h, sg.hdr)
    ELSE /\ \E i \in DOMAIN K : K[i] = sg.key
         /\ Contains(h, sg.hdr)
VerifyOut(h, s, K) ==
    IF ~FactS(s) THEN "no-signatures"
    ELSE IF \A i \in DOMAIN s : SigOK(h, s[i], K) THEN "ok" ELSE "validation"

---------------------------------------------------------------------------
(* operations *)

Init == /\ \E b \in DOMAIN BaseDocs : doc = BaseDocs[b] /\ head = [Head0 EXCEPT !.dig = BaseDocs[b]]
        /\ sigs = <<>> /\ out = "ok"

\* Insert(d): replace the document and recalculate
Insert(b) == /\ doc' = BaseDocs[b]
             /\ head' = [head EXCEPT !.dig = BaseDocs[b]]
             /\ out' = "ok" /\ UNCHANGED sigs

Calculate == /\ head' = [head EXCEPT !.dig = doc]
             /\ out' = "ok" /\ UNCHANGED <<doc, sigs>>

\* edits of the document (no recalculation)
EditBenign == /\ doc.name < MaxName
              /\ doc' = [doc EXCEPT !.name = @ + 1]
              /\ out' = "ok" /\ UNCHANGED <<head, sigs>>
SetCode(c)  == /\ doc.kind = "inv"
               /\ doc' = [doc EXCEPT !.code = c]
               /\ out' = "ok" /\ UNCHANGED <<head, sigs>>
SetValid(v) == /\ doc' = [doc EXCEPT !.valid = v]
               /\ out' = "ok" /\ UNCHANGED <<head, sigs>>

\* Sign: snapshot the header, append, validate in the signed context, roll back ALL signatures on failure
Sign(k) == LET s1 == Append(sigs, [key |-> k, hdr |-> head])
               v  == ValidateOut(doc, head, s1)
           IN  /\ sigs' = IF v = "ok" THEN s1 ELSE <<>>
               /\ out' = v
               /\ UNCHANGED <<doc, head>>
Unsign == sigs' = <<>> /\ out' = "ok" /\ UNCHANGED <<doc, head>>

\* header edits.  AddStamp/AddLink replace an entry with the same first component
\* (the first such entry: lists with duplicates can only arise by direct manipulation or parsing)
Put(seq, p) == IF \E i \in DOMAIN seq : seq[i][1] = p[1]
               THEN LET f == CHOOSE i \in DOMAIN seq : seq[i][1] = p[1] /\ \A j \in 1..(i - 1) : seq[j][1] # p[1]
                    IN  [seq EXCEPT ![f] = p]
               ELSE Append(seq, p)
AddStamp(p, v)  == head' = [head EXCEPT !.stamps = Put(@, <<p, v>>)] /\ out' = "ok" /\ UNCHANGED <<doc, sigs>>
DupStamp(p, v)  == head' = [head EXCEPT !.stamps = Append(@, <<p, v>>)] /\ out' = "ok" /\ UNCHANGED <<doc, sigs>>
ClearStamps     == head' = [head EXCEPT !.stamps = <<>>] /\ out' = "ok" /\ UNCHANGED <<doc, sigs>>
AddLink(k, u)   == head' = [head EXCEPT !.links = Put(@, <<k, u>>)] /\ out' = "ok" /\ UNCHANGED <<doc, sigs>>
DupLink(k, u)   == head' = [head EXCEPT !.links = Append(@, <<k, u>>)] /\ out' = "ok" /\ UNCHANGED <<doc, sigs>>
AddTag(t)       == head' = [head EXCEPT !.tags = @ \cup {t}] /\ out' = "ok" /\ UNCHANGED <<doc, sigs>>
SetMeta(k, v)   == head' = [head EXCEPT !.meta = {m \in @ : m[1] # k} \cup {<<k, v>>}] /\ out' = "ok" /\ UNCHANGED <<doc, sigs>>
SetNotes(n)     == head' = [head EXCEPT !.notes = n] /\ out' = "ok" /\ UNCHANGED <<doc, sigs>>
SetUUID(u)      == head' = [head EXCEPT !.uuid = u] /\ out' = "ok" /\ UNCHANGED <<doc, sigs>>

\* observers: never change the envelope
Validate   == out' = ValidateOut(doc, head, sigs) /\ UNCHANGED <<doc, head, sigs>>
Verify(K)  == out' = VerifyOut(head, sigs, K) /\ UNCHANGED <<doc, head, sigs>>
\* serialise + parse: the identity on the abstract state
Reserialise == out' = "ok" /\ UNCHANGED <<doc, head, sigs>>
\* a serialised envelope whose signature list has an empty entry appended is not an envelope:
\* the parser (or at the latest validation) must refuse it; nothing changes
ParseEmptySig == out' = "rejected" /\ UNCHANGED <<doc, head, sigs>>

\* the verify entry points outside the library first validate the envelope (CLI, bulk, HTTP)
VerifyViaOut(d, h, s, K) ==
    LET v == ValidateOut(d, h, s)
    IN  IF v # "ok" THEN "fail"
        ELSE IF Len(K) # 1 THEN "fail"             \* these entry points take exactly one key
        ELSE IF VerifyOut(h, s, K) = "ok" THEN "ok" ELSE "fail"

---------------------------------------------------------------------------
(* invariants of the design *)
TypeOK == /\ doc.kind \in {"inv", "note"} /\ doc.name \in 0..MaxName
          /\ doc.code \in BOOLEAN /\ doc.valid \in BOOLEAN
          /\ \A i \in DOMAIN sigs : sigs[i].key \in Keys

\* only valid envelopes with a matching digest can be (and stay recorded as having been) signed:
\* every signature was made over a header whose digest was the digest of a document valid for signing
SignedImpliesWasValid ==
    \A i \in DOMAIN sigs : LET g == sigs[i].hdr
                           IN g.dig # None /\ g.dig.valid /\ (g.dig.kind = "inv" => g.dig.code)
\* stamps on an unsigned envelope never validate
StampsNeedSignature == (head.stamps # <<>> /\ ~FactS(sigs)) => ValidateOut(doc, head, sigs) = "validation"
\* verification succeeds exactly when signatures exist, are by an offered key, and H holds
VerifySound == \A K \in {<<>>} \cup {<<k>> : k \in Keys} \cup {<<k, j>> : k, j \in Keys \cup {"other"}} :
                  VerifyOut(head, sigs, K) = "ok" =>
                      FactS(sigs) /\ FactH(head, sigs) /\ (K # <<>> => \A i \in DOMAIN sigs : \E j \in DOMAIN K : sigs[i].key = K[j])
\* no outside entry point accepts what the library rejects
ViaSound == \A k \in Keys : VerifyViaOut(doc, head, sigs, <<k>>) = "ok" =>
                VerifyOut(head, sigs, <<k>>) = "ok" /\ ValidateOut(doc, head, sigs) = "ok"
=============================================================================
