SPECIFICATION TSpec
CONSTANTS
  Keys = {"k1"}
  MaxName = 10
INVARIANT Report
CHECK_DEADLOCK FALSE
