------------------------------- MODULE Outcome -------------------------------
(***************************************************************************)
(* Total outcomes (C14).  Every operation of the library, whatever its     *)
(* input, is a call followed by a return: a result, or an error carrying   *)
(* one of the documented keys that serialises to JSON.  Panics, hangs and  *)
(* process aborts are not behaviours of the specification.                 *)
(*                                                                         *)
(* The life-cycle applied to an input is the fixed pipeline below; when    *)
(* parsing fails nothing else is called, otherwise every later operation   *)
(* is called whether or not the previous one failed.                       *)
(***************************************************************************)
EXTENDS Integers, Sequences, FiniteSets, TLC

DocumentedKeys == {"no-document", "validation", "calculation", "marshal", "unmarshal", "signature", "digest", "internal", "unknown-schema"}
Pipeline == <<"Parse", "ValidateRaw", "Calculate", "Validate", "Digest", "Sign", "Verify", "VerifyPartly", "Correct", "CorrectCopy", "CorrectData", "OptionsSchema",
              "Replicate", "Marshal">>

\* a return is acceptable iff it is a result or a keyed error
Returns(out) == out = "ok" \/ out \in DocumentedKeys
\* the bulk processor answers every request with a payload or a well-formed error, and ends with a final marker
BulkReturns(out) == out \in {"ok", "error"}

\* a behaviour of the pipeline on one input: a sequence of <<op, out>> steps
WellFormed(steps) ==
    /\ Len(steps) >= 1
    /\ \A j \in DOMAIN steps : steps[j].op = Pipeline[j] \/ steps[j].op = "YAML"
    /\ (steps[1].out # "ok" => Len(steps) = 1 \/ steps[Len(steps)].op = "YAML")

(* the mutation plan: which mutation is applied to which kind of node *)
Targets == {"object", "array", "string", "number", "bool", "date", "amount",
            "key:$schema", "key:$regime", "key:$addons", "key:currency", "key:country", "key:code", "key:sigs", "key:dig", "key:uuid"}
Mutations == {"delete", "null", "retype-string", "retype-number", "retype-object", "retype-array", "retype-bool", "empty",
              "huge", "tiny", "tiny64", "negative", "unknown-code", "duplicate", "nulls-inside", "deep-nest", "empty-signature", "zero"}
Applies(t, m) ==
    CASE m \in {"delete", "null", "retype-string", "retype-number", "retype-object", "retype-array", "retype-bool"} -> TRUE
      [] m = "empty" -> t \in {"object", "array", "string"}
      [] m \in {"huge", "tiny", "tiny64", "negative", "zero"} -> t \in {"amount", "number", "date"}
      [] m = "unknown-code" -> t \in {"key:$regime", "key:$addons", "key:currency", "key:country", "key:$schema", "key:code"}
      [] m \in {"duplicate", "nulls-inside"} -> t = "array"
      [] m = "deep-nest" -> t \in {"object", "array", "string"}
      [] m = "empty-signature" -> t = "key:sigs"
Plan == {<<t, m>> \in Targets \X Mutations : Applies(t, m)}
=============================================================================
