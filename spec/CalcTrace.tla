----------------------------- MODULE CalcTrace -----------------------------
(***************************************************************************)
(* Trace specification for Calc.tla.  Events (independent):                *)
(*   calc       document d -> presented figures r (invoice/order/delivery) *)
(*   invert     r and the figures r2 after Invoice.Invert                  *)
(*   invert2    the figures after inverting twice                          *)
(*   permute    figures after re-ordering lines (perm) and reversing the   *)
(*              document discounts / charges                               *)
(*   removeinc  figures after Invoice.RemoveIncludedTaxes                  *)
(* calc is judged twice: against the operational reference (Calculate) and, *)
(* independently of it, by the C03 identities evaluated on the logged      *)
(* figures themselves, so a slip of the reference can be told from a       *)
(* broken identity.                                                        *)
(***************************************************************************)
EXTENDS Calc, TLC, Json, IOUtils
Trace == ndJsonDeserialize(IOEnv.TRACE)
VARIABLES i, bad, nt
vars == <<i, bad, nt>>
Init == i = 1 /\ bad = <<>> /\ nt = 0

\* the reference result in the shape the harness logs (no working values)
Logged(m) == [lines |-> m.lines, damts |-> m.damts, camts |-> m.camts, sum |-> m.sum, discount |-> m.discount, charge |-> m.charge,
              taxincluded |-> m.taxincluded, total |-> m.total, tax |-> m.tax, twt |-> m.twt, payable |-> m.payable,
              advance |-> m.advance, due |-> m.due, advs |-> m.advs, dues |-> m.dues, taxes |-> m.taxes]
PresTaxes(t) == [t EXCEPT !.psum = t.sum, !.cats = [a \in DOMAIN t.cats |-> [t.cats[a] EXCEPT !.pamount = t.cats[a].amount]]]
PreciseOK(e, g) == Len(e.cats) = Len(g.cats) /\ AEq(e.psum, g.psum) /\ \A a \in DOMAIN e.cats : AEq(e.cats[a].pamount, g.cats[a].pamount)

\* first part of the result that differs from the reference
Diff(e, g) ==
    IF Len(e.lines) # Len(g.lines) THEN "shape"
    ELSE IF \E j \in DOMAIN e.lines : e.lines[j].subs # g.lines[j].subs THEN "line-breakdown"
    ELSE IF \E j \in DOMAIN e.lines : e.lines[j].price # g.lines[j].price THEN "line-price"
    ELSE IF \E j \in DOMAIN e.lines : e.lines[j].sum # g.lines[j].sum THEN "line-sum"
    ELSE IF \E j \in DOMAIN e.lines : e.lines[j].damts # g.lines[j].damts \/ e.lines[j].camts # g.lines[j].camts THEN "line-adjustment"
    ELSE IF \E j \in DOMAIN e.lines : e.lines[j].total # g.lines[j].total THEN "line-total"
    ELSE IF e.sum # g.sum THEN "sum"
    ELSE IF e.damts # g.damts \/ e.camts # g.camts \/ e.discount # g.discount \/ e.charge # g.charge THEN "doc-adjustment"
    ELSE IF PresTaxes(e.taxes) # PresTaxes(g.taxes) THEN "taxes"
    ELSE IF ~PreciseOK(e.taxes, g.taxes) THEN "taxes-precise"
    ELSE IF e.taxincluded # g.taxincluded THEN "tax-included"
    ELSE IF e.total # g.total THEN "total"
    ELSE IF e.tax # g.tax THEN "tax"
    ELSE IF e.twt # g.twt THEN "total-with-tax"
    ELSE IF e.payable # g.payable THEN "payable"
    ELSE IF e.advs # g.advs \/ e.advance # g.advance THEN "advances"
    ELSE IF e.due # g.due THEN "due"
    ELSE IF e.dues # g.dues THEN "due-dates"
    ELSE "ok"

\* inputs in the domain of C03: fixed amounts at the currency's precision
FixedAtCd(d) ==
    /\ \A j \in DOMAIN d.lines :
          /\ \A k \in DOMAIN d.lines[j].discounts : d.lines[j].discounts[k].amount.e <= d.cd
          /\ \A k \in DOMAIN d.lines[j].charges : d.lines[j].charges[k].amount.e <= d.cd /\ ~Has(d.lines[j].charges[k].rate)
          /\ d.lines[j].subs = <<>>      \* C03 speaks of lines; a breakdown's price may carry the sub-lines' precision
    /\ \A j \in DOMAIN d.discounts : d.discounts[j].amount.e <= d.cd
    /\ \A j \in DOMAIN d.charges : d.charges[j].amount.e <= d.cd
    /\ \A j \in DOMAIN d.advances : d.advances[j].amount.e <= d.cd
    /\ (Has(d.rounding) => Val(d.rounding).e <= d.cd)

\* fixed amounts (discounts, charges, advances, rounding) are supplied at the currency's precision; with more decimals the
\* library rounds them when it presents the document, and an operation that recalculates the presented document
\* (Invert, ConvertInto) starts from the rounded amounts - outside the input variety the properties name
AmountsAtCd(d) ==
    /\ \A j \in DOMAIN d.lines :
          /\ \A k \in DOMAIN d.lines[j].discounts : d.lines[j].discounts[k].amount.e <= d.cd
          /\ \A k \in DOMAIN d.lines[j].charges : d.lines[j].charges[k].amount.e <= d.cd
    /\ \A j \in DOMAIN d.discounts : d.discounts[j].amount.e <= d.cd
    /\ \A j \in DOMAIN d.charges : d.charges[j].amount.e <= d.cd
    /\ \A j \in DOMAIN d.advances : d.advances[j].amount.e <= d.cd
    /\ (Has(d.rounding) => Val(d.rounding).e <= d.cd)

Features(d) == IF \E j \in DOMAIN d.lines : \E k \in DOMAIN d.lines[j].discounts : Has(d.lines[j].discounts[k].base) THEN "explicit-base"
               ELSE IF \E j \in DOMAIN d.lines : \E k \in DOMAIN d.lines[j].charges : Has(d.lines[j].charges[k].base) \/ Has(d.lines[j].charges[k].q) THEN "explicit-base"
               ELSE IF \E j \in DOMAIN d.discounts : Has(d.discounts[j].base) THEN "explicit-base"
               ELSE IF \E j \in DOMAIN d.charges : Has(d.charges[j].base) THEN "explicit-base"
               ELSE IF Has(d.rounding) THEN "rounding"
               ELSE IF \E j \in DOMAIN d.advances : Has(d.advances[j].pct) THEN "percent-advance"
               ELSE "plain"

\* domain of C01/C05: every figure stays far enough inside 2^52 units for the intermediate products
Small(a) == Within52(MulPow10(a.v, 4))
InDomainRes(m) == /\ \A j \in DOMAIN m.lines : Small(m.lines[j].sum) /\ Small(m.lines[j].total) /\ Small(m.lines[j].price)
                  /\ \A j \in DOMAIN m.lines : \A k \in DOMAIN m.lines[j].subs : Small(m.lines[j].subs[k].sum) /\ Small(m.lines[j].subs[k].total)
                  /\ Small(m.w.sum) /\ Small(m.w.total) /\ Small(m.w.twt) /\ Small(m.w.payable) /\ Small(m.w.tax)

PermLines(r, perm) == [r EXCEPT !.lines = [j \in DOMAIN perm |-> r.lines[perm[j]]]]
Rev(s) == [j \in DOMAIN s |-> s[Len(s) + 1 - j]]
TotalsOf(r) == [r EXCEPT !.lines = <<>>, !.taxes = <<>>, !.damts = <<>>, !.camts = <<>>]

Verdict(ev) ==
    CASE ev.k = "calc" ->
            IF ~ev.ok THEN (IF ev.err = "" THEN "ok" ELSE "refused")
            ELSE LET m == Calculate(ev.d)
                     df == Diff(Logged(m), ev.r)
                 IN  IF ~InDomainRes(m) THEN "out-of-domain"
                     ELSE IF df # "ok" THEN "calc-" \o df
                     ELSE IF ev.d.rr = "currency" /\ FixedAtCd(ev.d) /\ ~ReAdds(ev.d, ev.r) THEN "c03-does-not-readd"
                     ELSE IF ev.d.rr = "currency" /\ FixedAtCd(ev.d) /\ ~NoExtraDecimals(ev.d, ev.r) THEN "c03-extra-decimals"
                     ELSE "ok"
      [] ev.k = "invert" ->
            IF ~InDomainRes(Calculate(ev.d)) \/ ~AmountsAtCd(ev.d) THEN "out-of-domain"
            ELSE IF ~ev.ok2 THEN "invert-refused:" \o Features(ev.d)
            ELSE LET df == Diff(Logged(NegRes(Calculate(ev.d))), ev.r2) IN IF df \in {"ok", "taxes-precise"} THEN "ok" ELSE "invert-" \o df
      [] ev.k = "invert2" ->
            IF ~InDomainRes(Calculate(ev.d)) \/ ~AmountsAtCd(ev.d) THEN "out-of-domain"
            ELSE IF ~ev.ok2 THEN "invert2-refused"
            ELSE LET df == Diff(Logged(Calculate(ev.d)), ev.r2) IN IF df \in {"ok", "taxes-precise"} THEN "ok" ELSE "invert2-" \o df
      [] ev.k = "permute" ->
            IF ~ev.ok2 THEN "permute-refused"
            ELSE IF ev.r2.lines # PermLines(ev.r, ev.perm).lines THEN "permute-line-figures"
            ELSE IF ev.r2.damts # Rev(ev.r.damts) \/ ev.r2.camts # Rev(ev.r.camts) THEN "permute-adjustments"
            ELSE IF TotalsOf(ev.r2) # TotalsOf(ev.r) THEN "permute-totals"
            ELSE IF ~SameUpToOrder(PresTaxes(ev.r2.taxes), PresTaxes(ev.r.taxes)) THEN "permute-taxes"
            ELSE "ok"
      \* converting into another currency yields a new document; the converted one keeps its figures
      [] ev.k = "convert" -> IF ev.r2 # ev.r THEN "convert-alters-original" ELSE "ok"
      \* ... nor does inverting the converted copy: the original, calculated again, gives what it gave
      [] ev.k = "convert-invert" -> IF ~ev.ok2 THEN "ok" ELSE IF ev.r2 # ev.r THEN "inverting-a-converted-copy-alters-the-original" ELSE "ok"
      \* totals left in the input by an earlier calculation of another state of the document have no say
      [] ev.k = "stale" -> IF ~ev.ok2 THEN "stale-totals-refused" ELSE IF ev.r2 # ev.r THEN "stale-totals-survive" ELSE "ok"
      [] ev.k = "removeinc" ->
            IF ~ev.ok2 THEN "removeinc-refused"
            ELSE IF ev.r2.payable # ev.r.twt THEN "removeinc-payable"
            ELSE IF ev.r2.payable # AAdd(ev.r2.twt, OptVal(ev.rounding_after, ev.d.cd)) THEN "removeinc-rounding"
            \* what is still due follows the payable amount, whichever entry point produced it (under the currency
            \* rule the presented figures add up exactly; under the precise rule each is rounded from a finer one)
            ELSE IF ev.d.rr = "currency" /\ Has(ev.r2.advance) /\ ev.r2.due # <<ASub(ev.r2.payable, Val(ev.r2.advance))>> THEN "removeinc-due"
            ELSE "ok"

Step == /\ i <= Len(Trace)
        /\ LET ev == Trace[i]
               v  == Verdict(ev)
           IN  /\ bad' = IF v \in {"ok", "refused", "out-of-domain"} THEN bad ELSE Append(bad, <<i, v>>)
               /\ nt' = nt + (IF ev.ok /\ (Len(ev.d.lines) > 1 \/ ev.d.discounts # <<>> \/ ev.d.charges # <<>> \/ ev.d.inc # "") THEN 1 ELSE 0)
        /\ i' = i + 1
Spec == Init /\ [][Step]_vars
Done == i = Len(Trace) + 1
Report == Done => JsonSerialize(IOEnv.RESULT, [events |-> Len(Trace), bad |-> bad, nontrivial |-> nt])
=============================================================================
