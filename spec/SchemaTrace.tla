----------------------------- MODULE SchemaTrace -----------------------------
(* Trace specification for JsonSchema.tla: each event is the serialised       *)
(* envelope of a document the real code calculated and validated; it must be  *)
(* accepted by the published envelope schema and its document by the          *)
(* published schema of its type.                                              *)
EXTENDS JsonSchema, SequencesExt
Trace == TLCGet(53)
VARIABLES i, bad, types
vars == <<i, bad, types>>
Init == LoadSchemas /\ TLCSet(53, ndJsonDeserialize(IOEnv.TRACE)) /\ i = 1 /\ bad = <<>> /\ types = {}
EnvelopeID == "https://gobl.org/draft-0/envelope"
\* a value the running library enumerates for a schema location must be accepted by the published schema there
EnumVerdict(ev) ==
    IF FileFor(ev.id) = {} THEN "no-published-schema-for-type"
    ELSE LET f == CHOOSE g \in FileFor(ev.id) : TRUE
             d == Descend(SchemaDoc[f], ev.segs, 1)
         IN  IF ~d[1] THEN "enumeration-location-not-published"
             ELSE IF ~Valid(f, d[2], ev.val) THEN "enumerated-value-not-in-published-schema"
             ELSE "ok"
Verdict(ev) ==
    IF ev.k = "enum" THEN EnumVerdict(ev) ELSE
    LET env == ev.env IN
    IF FileFor(EnvelopeID) = {} THEN "no-envelope-schema"
    ELSE LET ef == CHOOSE f \in FileFor(EnvelopeID) : TRUE IN
    IF ~Valid(ef, SchemaDoc[ef], env) THEN "envelope-rejected: " \o Why(ef, SchemaDoc[ef], env, 30)
    ELSE IF FileFor(ev.schema) = {} THEN "no-schema-for-type"
    ELSE LET df == CHOOSE f \in FileFor(ev.schema) : TRUE IN
    IF ~Valid(df, SchemaDoc[df], Get(env, "doc")) THEN "document-rejected: " \o Why(df, SchemaDoc[df], Get(env, "doc"), 30)
    ELSE "ok"
Step == /\ i <= Len(Trace)
        /\ LET ev == Trace[i]
               v  == Verdict(ev)
           IN  /\ bad' = IF v = "ok" THEN bad ELSE Append(bad, <<i, v>>)
               /\ types' = types \cup (IF ev.k = "enum" THEN {} ELSE {ev.schema})
        /\ i' = i + 1
Spec == Init /\ [][Step]_vars
Done == i = Len(Trace) + 1
Report == Done => JsonSerialize(IOEnv.RESULT, [events |-> Len(Trace), bad |-> bad, types |-> SetToSeq(types)])
=============================================================================
