------------------------------ MODULE TaxTotals ------------------------------
(***************************************************************************)
(* Tax summaries (C02, C20): building a summary from taxable rows, and      *)
(* combining summaries (Merge, Negate).                                    *)
(*                                                                         *)
(* Optional values are sequences of length 0 or 1 (JSON has no null here). *)
(*   Combo    [cat, ret, key, country, ext, pct : Opt(Amount), sur : Opt(Amount)]          *)
(*   Row      [total : Amount, taxes : Seq(Combo)]     a line, discount (negative) or charge *)
(*   Rate     [key, country, ext, base, pct, sur : Opt([pct, amount]), amount]              *)
(*   Cat      [code, ret, rates : Seq(Rate), amount, sur : Opt(Amount), pamount]            *)
(*   Summary  [cats : Seq(Cat), sum, psum]                                                  *)
(* pamount / psum are the unrounded ("precise") copies kept for the        *)
(* document totals.  Percentages are ratios as in Decimal.tla.             *)
(***************************************************************************)
EXTENDS Decimal, Sequences

None == <<>>
Some(x) == <<x>>
Has(o) == o # <<>>
Val(o) == o[1]

OptEq(a, b) == IF Has(a) /\ Has(b) THEN AEq(Val(a), Val(b)) ELSE ~Has(a) /\ ~Has(b)

---------------------------------------------------------------------------
(* which rate group a combo belongs to *)
GroupMatches(r, c) ==
    /\ r.ext = c.ext
    /\ r.country = c.country
    /\ IF ~Has(r.pct) \/ ~Has(c.pct) THEN ~Has(r.pct) /\ ~Has(c.pct)       \* exempt rows apart
       ELSE /\ (Has(r.sur) \/ Has(c.sur) =>
                  Has(r.sur) /\ Has(c.sur) /\ AEq(Val(r.sur).pct, Val(c.sur)))
            /\ AEq(Val(r.pct), Val(c.pct))

\* rule-dependent accumulation: under 'precise' the accumulator is first raised to the operand's precision
Acc(rr, acc, x) == IF rr = "currency" THEN AAdd(acc, x) ELSE AAdd(MatchPrecision(acc, x), x)
AccSub(rr, acc, x) == IF rr = "currency" THEN ASub(acc, x) ELSE ASub(MatchPrecision(acc, x), x)

ZeroAt(cd) == AOf(0, cd)

NewRate(c, cd) == [key |-> c.key, country |-> c.country, ext |-> c.ext, base |-> ZeroAt(cd), pct |-> c.pct,
                   sur |-> IF Has(c.sur) THEN Some([pct |-> Val(c.sur), amount |-> ZeroAt(cd)]) ELSE None,
                   amount |-> ZeroAt(cd)]
NewCat(c, cd)  == [code |-> c.cat, ret |-> c.ret, rates |-> <<>>, amount |-> ZeroAt(cd), sur |-> None,
                   pamount |-> ZeroAt(cd)]

FirstIdx(seq, P(_)) == IF \E i \in DOMAIN seq : P(seq[i])
                       THEN CHOOSE i \in DOMAIN seq : P(seq[i]) /\ \A j \in 1..(i - 1) : ~P(seq[j])
                       ELSE 0

\* add the row total to the group of combo c (creating category / group in first-appearance order)
AddToGroup(cats, c, total, cd, rr) ==
    LET ci    == FirstIdx(cats, LAMBDA x : x.code = c.cat)
        cats1 == IF ci = 0 THEN Append(cats, NewCat(c, cd)) ELSE cats
        ci1   == IF ci = 0 THEN Len(cats1) ELSE ci
        cat   == cats1[ci1]
        ri    == FirstIdx(cat.rates, LAMBDA r : GroupMatches(r, c))
        rates1 == IF ri = 0 THEN Append(cat.rates, NewRate(c, cd)) ELSE cat.rates
        ri1   == IF ri = 0 THEN Len(rates1) ELSE ri
        r     == rates1[ri1]
        r2    == [r EXCEPT !.base = Acc(rr, r.base, total)]
    IN  [cats1 EXCEPT ![ci1] = [cat EXCEPT !.rates = [rates1 EXCEPT ![ri1] = r2]]]

RECURSIVE AddCombos(_, _, _, _, _, _)
AddCombos(cats, taxes, i, total, cd, rr) ==
    IF i > Len(taxes) THEN cats
    ELSE AddCombos(AddToGroup(cats, taxes[i], total, cd, rr), taxes, i + 1, total, cd, rr)

\* tax-exclusive total of a row: working precision cd+2; the included tax is taken out with the row's own percentage
Exclusive(row, cd, inc) ==
    LET t  == IF Len(row.taxes) > 0 THEN RescaleUp(row.total, cd + 2) ELSE row.total
        ii == FirstIdx(row.taxes, LAMBDA c : c.cat = inc)
    IN  IF inc # "" /\ ii # 0 /\ Has(row.taxes[ii].pct) THEN PRemove(Val(row.taxes[ii].pct), t) ELSE t

RECURSIVE AddRows(_, _, _, _, _, _)
AddRows(cats, rows, i, cd, rr, inc) ==
    IF i > Len(rows) THEN cats
    ELSE AddRows(AddCombos(cats, rows[i].taxes, 1, Exclusive(rows[i], cd, inc), cd, rr), rows, i + 1, cd, rr, inc)

---------------------------------------------------------------------------
(* amounts of a category from its group bases *)
RECURSIVE CatAmounts(_, _, _, _, _)
\* state: [rates (processed so far), amount, sur]
CatAmounts(st, rates, i, cd, rr) ==
    IF i > Len(rates) THEN st
    ELSE LET r == rates[i] IN
         IF ~Has(r.pct)
         THEN CatAmounts([st EXCEPT !.rates = Append(@, [r EXCEPT !.amount = ZeroAt(cd)])], rates, i + 1, cd, rr)
         ELSE LET amt == POf(Val(r.pct), r.base)
                  am2 == Acc(rr, st.amount, amt)
                  r2  == [r EXCEPT !.amount = amt]
              IN  IF Has(r.sur)
                  THEN LET sa == POf(Val(r.sur).pct, r.base)
                           s0 == IF Has(st.sur) THEN Val(st.sur) ELSE ZeroAt(cd)
                           r3 == [r2 EXCEPT !.sur = Some([pct |-> Val(r.sur).pct, amount |-> sa])]
                       IN  CatAmounts([rates |-> Append(st.rates, r3), amount |-> am2, sur |-> Some(Acc(rr, s0, sa))],
                                      rates, i + 1, cd, rr)
                  ELSE CatAmounts([rates |-> Append(st.rates, r2), amount |-> am2, sur |-> st.sur], rates, i + 1, cd, rr)

\* a category whose surcharge accumulator starts from sur0 (None for a fresh calculation)
CalcCat(cat, sur0, cd, rr) ==
    LET st == CatAmounts([rates |-> <<>>, amount |-> ZeroAt(cd), sur |-> sur0], cat.rates, 1, cd, rr)
    IN  [cat EXCEPT !.rates = st.rates, !.amount = st.amount, !.sur = st.sur]

RECURSIVE SumCats(_, _, _, _)
SumCats(sum, cats, i, rr) ==
    IF i > Len(cats) THEN sum
    ELSE LET c  == cats[i]
             s0 == IF rr = "currency" THEN sum ELSE MatchPrecision(sum, c.amount)
             s1 == IF c.ret THEN ASub(s0, c.amount) ELSE AAdd(s0, c.amount)
             s2 == IF Has(c.sur) THEN (IF c.ret THEN ASub(s1, Val(c.sur)) ELSE AAdd(s1, Val(c.sur))) ELSE s1
         IN  SumCats(s2, cats, i + 1, rr)

\* presentation rounding to the currency's decimals
RoundRate(r, cd) == [r EXCEPT !.amount = Rescale(@, cd), !.base = Rescale(@, cd),
                              !.sur = IF Has(@) THEN Some([Val(@) EXCEPT !.amount = Rescale(@, cd)]) ELSE None]
RoundCat(c, cd) == [c EXCEPT !.rates = [i \in DOMAIN c.rates |-> RoundRate(c.rates[i], cd)],
                             !.pamount = c.amount, !.amount = Rescale(c.amount, cd),
                             !.sur = IF Has(c.sur) THEN Some(Rescale(Val(c.sur), cd)) ELSE None]

\* (re)calculation of a summary from its group bases
Calc(cats, cd, rr) ==
    LET cs  == [i \in DOMAIN cats |-> CalcCat(cats[i], None, cd, rr)]
        sum == SumCats(ZeroAt(cd), cs, 1, rr)
    IN  [cats |-> [i \in DOMAIN cs |-> RoundCat(cs[i], cd)], sum |-> Rescale(sum, cd), psum |-> sum]

Build(rows, cd, rr, inc) == Calc(AddRows(<<>>, rows, 1, cd, rr, inc), cd, rr)

---------------------------------------------------------------------------
(* combining summaries *)
RateKeyEq(r1, r2) ==
    /\ r1.ext = r2.ext /\ r1.country = r2.country
    /\ IF ~Has(r1.pct) \/ ~Has(r2.pct) THEN ~Has(r1.pct) /\ ~Has(r2.pct)
       ELSE /\ AEq(Val(r1.pct), Val(r2.pct))
            /\ IF Has(r1.sur) /\ Has(r2.sur) THEN AEq(Val(r1.sur).pct, Val(r2.sur).pct)
               ELSE ~Has(r1.sur) /\ ~Has(r2.sur)

OptAdd(a, b) == IF Has(a) /\ Has(b) THEN Some(AAdd(Val(a), Val(b))) ELSE IF Has(a) THEN a ELSE b

MergeRate(r1, r2) == [r1 EXCEPT !.base = AAdd(@, r2.base), !.amount = AAdd(@, r2.amount),
                                !.sur = IF Has(@) THEN Some([Val(@) EXCEPT !.amount = AAdd(@, Val(r2.sur).amount)]) ELSE None]
RECURSIVE MergeRates(_, _, _)
MergeRates(rs, rs2, j) ==
    IF j > Len(rs2) THEN rs
    ELSE LET k == FirstIdx(rs, LAMBDA r : RateKeyEq(r, rs2[j]))
         IN  MergeRates(IF k = 0 THEN Append(rs, rs2[j]) ELSE [rs EXCEPT ![k] = MergeRate(rs[k], rs2[j])], rs2, j + 1)
MergeCat(c1, c2) == [c1 EXCEPT !.amount = AAdd(@, c2.amount), !.pamount = AAdd(@, c2.pamount),
                               !.sur = OptAdd(@, c2.sur), !.rates = MergeRates(@, c2.rates, 1)]
RECURSIVE MergeCats(_, _, _)
MergeCats(cs, cs2, j) ==
    IF j > Len(cs2) THEN cs
    ELSE LET k == FirstIdx(cs, LAMBDA c : c.code = cs2[j].code)
         IN  MergeCats(IF k = 0 THEN Append(cs, cs2[j]) ELSE [cs EXCEPT ![k] = MergeCat(cs[k], cs2[j])], cs2, j + 1)
Merge(t1, t2) == [cats |-> MergeCats(t1.cats, t2.cats, 1), sum |-> AAdd(t1.sum, t2.sum), psum |-> AAdd(t1.psum, t2.psum)]

NegRate(r) == [r EXCEPT !.base = ANeg(@), !.amount = ANeg(@),
                        !.sur = IF Has(@) THEN Some([Val(@) EXCEPT !.amount = ANeg(@)]) ELSE None]
NegCat(c) == [c EXCEPT !.amount = ANeg(@), !.pamount = ANeg(@), !.sur = IF Has(@) THEN Some(ANeg(Val(@))) ELSE None,
                       !.rates = [i \in DOMAIN c.rates |-> NegRate(c.rates[i])]]
Negate(t) == [cats |-> [i \in DOMAIN t.cats |-> NegCat(t.cats[i])], sum |-> ANeg(t.sum), psum |-> ANeg(t.psum)]

---------------------------------------------------------------------------
(***************************************************************************)
(* Payments: line.total = conv(debit) - conv(credit); total = sum of the   *)
(* line totals; tax = merge of the lines' document summaries, each first   *)
(* recalculated from its group bases.  A line is                           *)
(*   [same, debit : Opt, credit : Opt, rate : Opt, tax : Opt(Summary)]     *)
(* Conversion multiplies at no less than the destination currency's        *)
(* precision and presents the result at that precision.                    *)
(***************************************************************************)
Convert(x, rate, cd) == Rescale(AMul(RescaleUp(x, cd), rate), cd)
Conv(x, l, cd) == IF l.same THEN x ELSE Convert(x, Val(l.rate), cd)
PayLineTotal(l, cd) ==
    LET t1 == IF Has(l.debit) THEN AAdd(ZeroAt(cd), Conv(Val(l.debit), l, cd)) ELSE ZeroAt(cd)
    IN  IF Has(l.credit) THEN ASub(t1, Conv(Val(l.credit), l, cd)) ELSE t1
RECURSIVE PayTotalFrom(_, _, _)
PayTotalFrom(ls, i, cd) == IF i > Len(ls) THEN ZeroAt(cd) ELSE AAdd(PayLineTotal(ls[i], cd), PayTotalFrom(ls, i + 1, cd))
PayTotal(ls, cd) == PayTotalFrom(ls, 1, cd)
\* a document summary is recalculated from its bases, then presented (precise copies = presented ones)
Recalc(t, cd, rr) == LET c == Calc(t.cats, cd, rr)
                     IN  [c EXCEPT !.psum = c.sum, !.cats = [i \in DOMAIN c.cats |-> [c.cats[i] EXCEPT !.pamount = c.cats[i].amount]]]
RECURSIVE PayTaxFrom(_, _, _, _, _)
PayTaxFrom(acc, ls, i, cd, rr) ==
    IF i > Len(ls) THEN acc
    ELSE IF ~Has(ls[i].tax) THEN PayTaxFrom(acc, ls, i + 1, cd, rr)
    ELSE LET lt == Recalc(Val(ls[i].tax), cd, rr)
         IN  PayTaxFrom(IF Has(acc) THEN Some(Merge(Val(acc), lt)) ELSE Some(lt), ls, i + 1, cd, rr)
PayTax(ls, cd, rr) == PayTaxFrom(None, ls, 1, cd, rr)

---------------------------------------------------------------------------
(* declarative laws *)
IsZeroA(a) == IsZero(a.v)
ZeroEverywhere(t) ==
    /\ IsZeroA(t.sum) /\ IsZeroA(t.psum)
    /\ \A i \in DOMAIN t.cats :
         LET c == t.cats[i] IN
         /\ IsZeroA(c.amount) /\ (Has(c.sur) => IsZeroA(Val(c.sur)))
         /\ \A j \in DOMAIN c.rates : LET r == c.rates[j] IN
               IsZeroA(r.base) /\ IsZeroA(r.amount) /\ (Has(r.sur) => IsZeroA(Val(r.sur).amount))

\* equality of summaries up to the order of categories and of groups inside a category
\* the same group: equal figures; the percentage is compared as a number (21.0% and 21% are one group,
\* presented with the spelling of its first row)
RateSame(r1, r2) == /\ r1.country = r2.country /\ r1.ext = r2.ext /\ r1.base = r2.base /\ r1.amount = r2.amount
                    /\ OptEq(r1.pct, r2.pct)
                    /\ Has(r1.sur) = Has(r2.sur)
                    /\ (Has(r1.sur) => Val(r1.sur).amount = Val(r2.sur).amount /\ AEq(Val(r1.sur).pct, Val(r2.sur).pct))
RatesPerm(rs1, rs2) == Len(rs1) = Len(rs2) /\ \A i \in DOMAIN rs1 : \E j \in DOMAIN rs2 : RateSame(rs1[i], rs2[j])
CatsPerm(cs1, cs2) ==
    /\ Len(cs1) = Len(cs2)
    /\ \A i \in DOMAIN cs1 : \E j \in DOMAIN cs2 :
          /\ [cs1[i] EXCEPT !.rates = <<>>] = [cs2[j] EXCEPT !.rates = <<>>]
          /\ RatesPerm(cs1[i].rates, cs2[j].rates)
SameUpToOrder(t1, t2) == t1.sum = t2.sum /\ t1.psum = t2.psum /\ CatsPerm(t1.cats, t2.cats)

\* groups of a category have pairwise different keys
DistinctGroups(t) == \A i \in DOMAIN t.cats : \A j, k \in DOMAIN t.cats[i].rates :
                        j # k => ~RateKeyEq(t.cats[i].rates[j], t.cats[i].rates[k])

\* the presented total is ordinary categories minus retained ones, surcharges included (exact on precise values)
RECURSIVE SignedSum(_, _, _)
SignedSum(cats, i, e) ==
    IF i > Len(cats) THEN AOf(0, e)
    ELSE LET c == cats[i]
             x == AAdd(Rescale(c.pamount, e), IF Has(c.sur) THEN Rescale(Val(c.sur), e) ELSE AOf(0, e))
         IN  IF c.ret THEN ASub(SignedSum(cats, i + 1, e), x) ELSE AAdd(SignedSum(cats, i + 1, e), x)
=============================================================================
