--------------------------- MODULE ScenarioTrace ---------------------------
(* Trace specification for Scenario.tla: each event is an invoice of some    *)
(* regime / addons / type / tags, calculated to its fix-point by the real    *)
(* code; the notes and extensions it then carries are compared with what the *)
(* published scenarios prescribe.                                            *)
EXTENDS Scenario, SequencesExt
Trace == TLCGet(43)
VARIABLES i, bad, matched
vars == <<i, bad, matched>>
Init == LoadTables /\ TLCSet(43, ndJsonDeserialize(IOEnv.TRACE)) /\ i = 1 /\ bad = <<>> /\ matched = 0
DocOf(ev) == [type |-> ev.type, tags |-> {ev.tags[j] : j \in DOMAIN ev.tags}, exts |-> ev.exts]
Verdict(ev) == IF ~ev.fixpoint THEN "ok"          \* not a fix-point: C04's subject, nothing to compare
               ELSE ScenarioVerdict(ev.cc, ev.addons, ev.schema, DocOf(ev), [notes |-> ev.notes, ext |-> ev.taxext])
NMatched(ev) == Cardinality({j \in DOMAIN ScenList(ev.cc, ev.addons, ev.schema) : Matches(ScenList(ev.cc, ev.addons, ev.schema)[j], DocOf(ev))})
Step == /\ i <= Len(Trace)
        /\ LET ev == Trace[i]
               v  == Verdict(ev)
           IN  /\ bad' = IF v = "ok" THEN bad ELSE Append(bad, <<i, v>>)
               /\ matched' = matched + NMatched(ev)
        /\ i' = i + 1
Spec == Init /\ [][Step]_vars
Done == i = Len(Trace) + 1
Report == Done => JsonSerialize(IOEnv.RESULT, [events |-> Len(Trace), bad |-> bad, matched |-> matched])
=============================================================================
