------------------------------ MODULE Decimal ------------------------------
(***************************************************************************)
(* Reference semantics of GOBL's decimal amounts and percentages           *)
(* (num.Amount, num.Percentage), written from the documented contract:     *)
(* an amount is an integer number v of units of 10^-e; every operation     *)
(* returns the exact rational result rounded HALF AWAY FROM ZERO to the    *)
(* documented result precision.  All arithmetic is on BigInt so the        *)
(* reference itself never overflows or rounds.                             *)
(*                                                                         *)
(* Amount      == [v : BigInt, e : Nat]                                    *)
(* Percentage  == an Amount p standing for the ratio p.v / 10^p.e          *)
(*               (20% is [v |-> 20, e |-> 2] or [v |-> 200, e |-> 3] ...)  *)
(***************************************************************************)
EXTENDS BigInt

A(v, e) == [v |-> v, e |-> e]
AOf(k, e) == A(Of(k), e)           \* from a small TLC integer

IsAmount(a) == IsBig(a.v) /\ a.e \in Nat

Max(x, y) == IF x >= y THEN x ELSE y
Min(x, y) == IF x <= y THEN x ELSE y

---------------------------------------------------------------------------
(* precision changes *)

\* documented: raising precision appends zeros (lossless), lowering rounds half away
Rescale(a, e) ==
    IF a.e > e THEN A(RHA(a.v, Pow10(a.e - e)), e)
    ELSE IF a.e < e THEN A(MulPow10(a.v, e - a.e), e)
    ELSE a
RescaleUp(a, e)   == IF e > a.e THEN Rescale(a, e) ELSE a
RescaleDown(a, e) == IF e < a.e THEN Rescale(a, e) ELSE a
RescaleRange(a, lo, hi) == RescaleDown(RescaleUp(a, lo), hi)
MatchPrecision(a, b) == RescaleUp(a, b.e)
Upscale(a, k)   == Rescale(a, a.e + k)
Downscale(a, k) == Rescale(a, IF k > a.e THEN 0 ELSE a.e - k)

---------------------------------------------------------------------------
(* arithmetic: the result always has the receiver's precision *)

AAdd(a, b)  == A(Add(a.v, Rescale(b, a.e).v), a.e)
ASub(a, b)  == A(Sub(a.v, Rescale(b, a.e).v), a.e)
\* a*b = a.v*b.v / 10^(a.e+b.e); expressed in units of 10^-a.e: a.v*b.v / 10^b.e
AMul(a, b)  == A(RHA(Mul(a.v, b.v), Pow10(b.e)), a.e)
\* a/b = (a.v/10^a.e) / (b.v/10^b.e); in units of 10^-a.e: a.v*10^b.e / b.v
ADiv(a, b)  == A(RHA(MulPow10(a.v, b.e), b.v), a.e)
ANeg(a)     == A(Neg(a.v), a.e)
AAbs(a)     == A(Abs(a.v), a.e)

\* the order of the rationals v/10^e, without any rounding
ACmp(a, b)  == LET e == Max(a.e, b.e) IN Cmp(Rescale(a, e).v, Rescale(b, e).v)
AEq(a, b)   == ACmp(a, b) = 0

\* split into x parts: x-1 equal parts q and a remainder part
ASplit(a, x) == LET q == ADiv(a, AOf(x, 0))
                IN  <<q, ASub(a, AMul(q, AOf(x - 1, 0)))>>

---------------------------------------------------------------------------
(* percentages *)

One     == AOf(1, 0)
Hundred == AOf(100, 0)

PFromAmount(a) == A(a.v, a.e + 2)                                \* 20 -> 20%; exact
PAmount(p)     == Rescale(AMul(p, Hundred), IF p.e >= 2 THEN p.e - 2 ELSE 0)
PFactor(p)     == AAdd(p, One)                                   \* 1 + p at p's precision
POf(p, a)      == AMul(a, p)                                     \* p of a
PRemove(p, a)  == ADiv(a, PFactor(p))                            \* a / (1+p)
PFrom(p, a)    == ASub(a, PRemove(p, a))                         \* the part of a that is p, a including p

---------------------------------------------------------------------------
(* threshold rules of num/validation.go as a truth table over ACmp *)

Threshold(kind, a, t) ==
    LET c == ACmp(a, t)
    IN  CASE kind = "min"     -> c >= 0
          [] kind = "minx"    -> c > 0
          [] kind = "max"     -> c <= 0
          [] kind = "maxx"    -> c < 0
          [] kind = "notzero" -> ~IsZero(a.v)
          [] kind = "positive" -> Sgn(a.v) > 0
          [] kind = "negative" -> Sgn(a.v) < 0

---------------------------------------------------------------------------
(***************************************************************************)
(* Generic evaluator used by both the model-checking model and the trace   *)
(* specification.  op names are those of the Go API.  k is the small       *)
(* integer argument (target exponent / split count / increase).            *)
(* The result is a record with field t (kind) so that amounts, integers,   *)
(* booleans and pairs can be compared uniformly.                           *)
(***************************************************************************)
RA(a)      == [t |-> "a", v |-> a.v, e |-> a.e]
RI(i)      == [t |-> "i", i |-> i]
RB(b)      == [t |-> "b", b |-> b]
RP(x, y)   == [t |-> "p", v |-> x.v, e |-> x.e, v2 |-> y.v, e2 |-> y.e]

BinaryOps == {"Add", "Subtract", "Multiply", "Divide", "Compare", "Equals", "MatchPrecision",
              "PctOf", "PctFrom", "PctRemove", "PctCompare", "PctEquals"}
UnaryKOps == {"Rescale", "RescaleUp", "RescaleDown", "Upscale", "Downscale", "Split", "PctRescale"}
UnaryOps  == {"Negate", "Invert", "Abs", "PctFromAmount", "PctAmount", "PctFactor", "PctNegate",
              "IsZero", "IsNegative", "IsPositive"}
ThresholdOps == {"min", "minx", "max", "maxx", "notzero", "positive", "negative"}

Eval(op, a, b, k) ==
    CASE op = "Add"            -> RA(AAdd(a, b))
      [] op = "Subtract"       -> RA(ASub(a, b))
      [] op = "Multiply"       -> RA(AMul(a, b))
      [] op = "Divide"         -> RA(ADiv(a, b))
      [] op = "Compare"        -> RI(ACmp(a, b))
      [] op = "Equals"         -> RB(AEq(a, b))
      [] op = "MatchPrecision" -> RA(MatchPrecision(a, b))
      [] op = "Rescale"        -> RA(Rescale(a, k))
      [] op = "RescaleUp"      -> RA(RescaleUp(a, k))
      [] op = "RescaleDown"    -> RA(RescaleDown(a, k))
      [] op = "RescaleRange"   -> RA(RescaleRange(a, k, b.e))      \* max passed as b.e
      [] op = "Upscale"        -> RA(Upscale(a, k))
      [] op = "Downscale"      -> RA(Downscale(a, k))
      [] op = "Split"          -> LET s == ASplit(a, k) IN RP(s[1], s[2])
      [] op = "Negate"         -> RA(ANeg(a))
      [] op = "Invert"         -> RA(ANeg(a))
      [] op = "Abs"            -> RA(AAbs(a))
      [] op = "IsZero"         -> RB(Sgn(a.v) = 0)
      [] op = "IsNegative"     -> RB(Sgn(a.v) < 0)
      [] op = "IsPositive"     -> RB(Sgn(a.v) > 0)
      \* percentage operations: a is the percentage's base amount, b the amount argument
      [] op = "PctFromAmount"  -> RA(PFromAmount(a))
      [] op = "PctAmount"      -> RA(PAmount(a))
      [] op = "PctFactor"      -> RA(PFactor(a))
      [] op = "PctNegate"      -> RA(ANeg(a))
      [] op = "PctRescale"     -> RA(Rescale(a, k))
      [] op = "PctOf"          -> RA(POf(a, b))
      [] op = "PctFrom"        -> RA(PFrom(a, b))
      [] op = "PctRemove"      -> RA(PRemove(a, b))
      [] op = "PctCompare"     -> RI(ACmp(a, b))
      [] op = "PctEquals"      -> RB(AEq(a, b))
      [] op \in ThresholdOps   -> RB(Threshold(op, a, b))

(***************************************************************************)
(* The domain of the property: operands and the exact intermediate fit in  *)
(* 2^52 units of the working precision; divisors are non-zero.             *)
(***************************************************************************)
W(x) == Within52(x)
InDomain(op, a, b, k) ==
    CASE op \in {"Add", "Subtract"} ->
            W(a.v) /\ W(b.v) /\ (b.e < a.e => W(MulPow10(b.v, a.e - b.e))) /\ W(Eval(op, a, b, k).v)
      [] op \in {"Multiply", "PctOf"} ->
            LET x == IF op = "PctOf" THEN b ELSE a
                y == IF op = "PctOf" THEN a ELSE b
            IN  W(x.v) /\ W(y.v) /\ W(Mul(x.v, y.v))
      [] op = "Divide"         -> W(a.v) /\ W(b.v) /\ ~IsZero(b.v) /\ W(MulPow10(a.v, b.e))
      [] op \in {"PctRemove", "PctFrom"} ->
            LET f == PFactor(a)
            IN  W(a.v) /\ W(b.v) /\ W(f.v) /\ ~IsZero(f.v) /\ W(MulPow10(b.v, f.e))
      [] op \in {"Compare", "Equals", "PctCompare", "PctEquals"} \cup ThresholdOps ->
            LET e == Max(a.e, b.e) IN W(Rescale(a, e).v) /\ W(Rescale(b, e).v)
      [] op \in {"Rescale", "RescaleUp", "RescaleDown", "Upscale", "Downscale", "PctRescale", "RescaleRange"} ->
            W(a.v) /\ W(Eval(op, a, b, k).v)
      [] op = "MatchPrecision" -> W(a.v) /\ W(Eval(op, a, b, k).v)
      [] op = "Split"          ->
            k >= 1 /\ W(a.v) /\ W(Mul(ADiv(a, AOf(k, 0)).v, Of(k)))
      [] op = "PctFromAmount"  -> W(a.v) /\ W(Mul(a.v, Of(100)))   \* working precision is a.e+2
      [] op = "PctAmount"      -> W(a.v) /\ W(Mul(a.v, Of(100)))
      [] op = "PctFactor"      -> W(a.v) /\ W(PFactor(a).v)
      [] OTHER                 -> W(a.v)

---------------------------------------------------------------------------
(* Laws of the reference (checked by TLC on the model, MCDecimal.tla) *)

\* r = RHA(x,d) is within half a unit of x/d, ties resolved away from zero: |2x - 2rd| <= |d|,
\* and when |2x - 2rd| = |d| (a tie) |r| is the larger candidate.
RHALaw(x, d) ==
    LET r    == RHA(x, d)
        two  == Mul(Of(2), Sub(x, Mul(r, d)))             \* 2(x - r*d)
    IN  /\ Le(Abs(two), Abs(d))                           \* within half a unit
        /\ (Cmp(Abs(two), Abs(d)) = 0 => Le(Abs(x), Abs(Mul(r, d))))   \* tie: away from zero
        /\ RHA(Neg(x), d) = Neg(r)                        \* odd symmetry
        /\ RHA(x, Neg(d)) = Neg(r)

LosslessUp(a, k) == Rescale(Rescale(a, a.e + k), a.e) = a /\ ACmp(Rescale(a, a.e + k), a) = 0
SplitLaw(a, x) == LET s == ASplit(a, x) IN AAdd(AMul(s[1], AOf(x - 1, 0)), s[2]) = a
AddLossless(a, b) == b.e <= a.e => ASub(AAdd(a, b), b) = a
NegCommutes(op, a, b, k) ==
    op \in {"Add", "Subtract", "Multiply", "Rescale", "RescaleUp", "RescaleDown"} =>
        LET r == Eval(op, a, b, k)
            s == Eval(op, ANeg(a), ANeg(b), k)
        IN  IF op = "Multiply" THEN s.v = r.v ELSE s.v = Neg(r.v)
CmpAntisym(a, b) == ACmp(a, b) = 0 - ACmp(b, a)
=============================================================================
