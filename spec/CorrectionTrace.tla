--------------------------- MODULE CorrectionTrace ---------------------------
EXTENDS Correction, Json, IOUtils
Trace == ndJsonDeserialize(IOEnv.TRACE)
VARIABLES i, bad, accepted
vars == <<i, bad, accepted>>
Init == i = 1 /\ bad = <<>> /\ accepted = 0
Verdict(ev) ==
    IF ev.panic THEN "panic"
    ELSE IF ~ev.source_intact THEN "source-modified"
    ELSE IF ev.k = "replicate"
    THEN IF ~ev.ok THEN "replicate-refused" ELSE IF GoodReplica(ev) THEN "ok" ELSE "bad-replica"
    ELSE IF MustRefuse(ev) THEN (IF ev.ok THEN "accepted-must-refuse" ELSE "ok")
    ELSE IF ev.path \in {"lib", "lib-data", "lib-options", "lib-stamps-data"}
    THEN IF ~ev.ok THEN "refused-valid-request" ELSE IF GoodCorrection(ev) THEN "ok" ELSE "bad-correction"
    \* the other entry points also validate the result, which may need extensions the definitions only offer:
    \* a refusal is then allowed; a success must be a good and valid correction
    ELSE IF ~ev.ok THEN (IF ev.validation_refusal THEN "ok" ELSE "refused-valid-request")
    ELSE IF ~GoodCorrection(ev) THEN "bad-correction" ELSE IF ~ev.r.valid THEN "invalid-result-returned" ELSE "ok"
Step == /\ i <= Len(Trace)
        /\ LET ev == Trace[i]
               v  == Verdict(ev)
           IN  /\ bad' = IF v = "ok" THEN bad ELSE Append(bad, <<i, v>>)
               /\ accepted' = accepted + (IF ev.ok THEN 1 ELSE 0)
        /\ i' = i + 1
Spec == Init /\ [][Step]_vars
Done == i = Len(Trace) + 1
Report == Done => JsonSerialize(IOEnv.RESULT, [events |-> Len(Trace), bad |-> bad, accepted |-> accepted])
=============================================================================
